import Saito.Lemmas.LoopRefine
/-!
  A state invariant for the chain model (`Saito/Model/Chain.lean`) and its preservation by `addBlock`
  for non-orphan deliveries on the repaired tree (`ringDeleteKeepsNone`, `windFailureRestores`), histories
  shorter than `gp`, `loadingDone = false`.
-/
namespace Saito.Chain

/-! ### basics: ring -/

theorem getItem_setItem_eq (r : List (Nat × RItem)) (s : Nat) (it : RItem) : getItem (setItem r s it) s = it := by
  simp [getItem, setItem]

theorem getItem_setItem (r : List (Nat × RItem)) (s s' : Nat) (it : RItem) :
    getItem (setItem r s it) s' = if s' = s then it else getItem r s' := by
  by_cases h : s' = s
  · subst h; simp [getItem_setItem_eq]
  · simp [h, find_setItem_ne r s s' it h]

theorem slotOf_eq (st : State) (i : Nat) (h : i < 2 * st.gp) : slotOf st i = i := Nat.mod_eq_of_lt h

/-! ### basics: store -/

/-- the stored blocks, in insertion order, without their on-chain flags -/
def stored (st : State) : List ABlock := st.blocks.map (·.b)

theorem blkOf_eq_find (st : State) (h : Nat) : blkOf st h = (stored st).find? (·.hash == h) := by
  unfold blkOf getB stored
  rw [List.find?_map]
  rfl

theorem blkOf_some_mem {st : State} {h : Nat} {b : ABlock} (hb : blkOf st h = some b) :
    b ∈ stored st ∧ b.hash = h := by
  rw [blkOf_eq_find] at hb
  exact ⟨List.mem_of_find?_eq_some hb, by simpa using List.find?_some hb⟩

theorem find?_key_of_nodup {α : Type} (key : α → Nat) (l : List α) (hn : (l.map key).Nodup) (e : α) (he : e ∈ l) :
    l.find? (fun a => key a == key e) = some e := by
  induction l with
  | nil => cases he
  | cons a l ih =>
    rw [List.map_cons, List.nodup_cons] at hn
    by_cases hae : a = e
    · subst hae; simp
    · have hel : e ∈ l := by
        rcases List.mem_cons.1 he with h | h
        · exact absurd h.symm hae
        · exact h
      have hk : key a ≠ key e := fun hk => hn.1 (hk ▸ List.mem_map_of_mem hel)
      rw [List.find?_cons]
      have : (key a == key e) = false := by simpa using hk
      rw [this]
      exact ih hn.2 hel

theorem blkOf_of_mem {st : State} {b : ABlock} (hn : ((stored st).map (·.hash)).Nodup) (hb : b ∈ stored st) :
    blkOf st b.hash = some b := by
  rw [blkOf_eq_find]
  exact find?_key_of_nodup (·.hash) _ hn b hb

theorem blkOf_eq_map (st : State) (h : Nat) : blkOf st h = (getB st h).map (·.b) := rfl

theorem getB_isSome (st : State) (h : Nat) : (getB st h).isSome = (blkOf st h).isSome := by
  rw [blkOf_eq_map]; cases getB st h <;> rfl

/-- flip the on-chain flag of the entry with hash `h` -/
def flagSet (h : Nat) (v : Bool) (e : BEntry) : BEntry := if e.b.hash == h then { e with inLC := v } else e

@[simp] theorem flagSet_b (h : Nat) (v : Bool) (e : BEntry) : (flagSet h v e).b = e.b := by
  unfold flagSet; split <;> rfl

theorem setLC_blocks (st : State) (h : Nat) (v : Bool) : (setLC st h v).blocks = st.blocks.map (flagSet h v) := rfl

theorem getB_setLC (st : State) (h x : Nat) (v : Bool) :
    getB (setLC st h v) x = (getB st x).map (flagSet h v) := by
  unfold getB
  rw [setLC_blocks, List.find?_map]
  congr 2
  funext e
  simp

theorem getB_ringReorg (st : State) (id h x : Nat) (lc : Bool) : getB (ringReorg st id h lc) x = getB st x := by
  unfold getB; rw [ringReorg_blocks]

theorem getB_windBlock (st : State) (b : ABlock) (x : Nat) :
    getB (windBlock st b) x = (getB st x).map (flagSet b.hash true) := by
  unfold windBlock
  rw [getB_setLC]
  show Option.map _ (getB (ringReorg st b.id b.hash true) x) = _
  rw [getB_ringReorg]

theorem getB_unwindBlock (st : State) (b : ABlock) (x : Nat) :
    getB (unwindBlock st b) x = (getB st x).map (flagSet b.hash false) := by
  unfold unwindBlock
  rw [getB_ringReorg, getB_setLC]
  rfl

theorem stored_setLC (st : State) (h : Nat) (v : Bool) : stored (setLC st h v) = stored st := by
  unfold stored
  rw [setLC_blocks, List.map_map]
  congr 1
  funext e
  simp

theorem stored_windBlock (st : State) (b : ABlock) : stored (windBlock st b) = stored st := by
  unfold windBlock
  rw [stored_setLC]
  unfold stored
  show List.map _ (ringReorg st b.id b.hash true).blocks = _
  rw [ringReorg_blocks]

theorem stored_unwindBlock (st : State) (b : ABlock) : stored (unwindBlock st b) = stored st := by
  unfold unwindBlock stored
  rw [ringReorg_blocks]
  exact stored_setLC _ _ _

/-! ### basics: `findIdx` -/

theorem findIdx_go_shift (l : List (Nat × Nat)) (h i : Nat) :
    findIdx.go h l i = (findIdx.go h l 0).map (· + i) := by
  induction l generalizing i with
  | nil => rfl
  | cons e es ih =>
    simp only [findIdx.go]
    split
    · simp
    · rw [ih (i + 1), ih (0 + 1)]
      cases findIdx.go h es 0 <;> simp [Nat.add_comm, Nat.add_left_comm]

theorem findIdx_nil (h : Nat) : findIdx [] h = none := rfl

theorem findIdx_cons (e : Nat × Nat) (es : List (Nat × Nat)) (h : Nat) :
    findIdx (e :: es) h = if e.1 == h then some 0 else (findIdx es h).map (· + 1) := by
  unfold findIdx
  simp only [findIdx.go]
  split
  · rfl
  · exact findIdx_go_shift es h (0 + 1)

/-- the first entry with hash `h` is where `findIdx` points, when the hash determines the entry -/
theorem findIdx_spec (l : List (Nat × Nat)) (h i : Nat) (hm : (h, i) ∈ l)
    (hu : ∀ e ∈ l, e.1 = h → e = (h, i)) :
    ∃ p, findIdx l h = some p ∧ l[p]? = some (h, i) := by
  induction l with
  | nil => cases hm
  | cons e es ih =>
    rw [findIdx_cons]
    by_cases he : e.1 = h
    · refine ⟨0, by simp [he], ?_⟩
      simp [hu e (List.mem_cons_self ..) he]
    · have hm' : (h, i) ∈ es := by
        rcases List.mem_cons.1 hm with h1 | h1
        · exact absurd (by rw [← h1]) he
        · exact h1
      obtain ⟨p, hp1, hp2⟩ := ih hm' (fun e' he' => hu e' (List.mem_cons_of_mem _ he'))
      refine ⟨p + 1, by simp [he, hp1], by simpa using hp2⟩

theorem findIdx_append_of_mem (l l' : List (Nat × Nat)) (h : Nat) (hm : ∃ e ∈ l, e.1 = h) :
    findIdx (l ++ l') h = findIdx l h := by
  induction l with
  | nil => obtain ⟨e, he, _⟩ := hm; cases he
  | cons e es ih =>
    rw [List.cons_append, findIdx_cons, findIdx_cons]
    by_cases he : e.1 = h
    · simp [he]
    · have : (e.1 == h) = false := by simpa using he
      rw [this]
      simp only [Bool.false_eq_true, if_false]
      rw [ih]
      obtain ⟨e', he', hh⟩ := hm
      rcases List.mem_cons.1 he' with h1 | h1
      · exact absurd (h1 ▸ hh) he
      · exact ⟨e', h1, hh⟩

theorem findIdx_lt (l : List (Nat × Nat)) (h p : Nat) (hp : findIdx l h = some p) : p < l.length := by
  induction l generalizing p with
  | nil => simp [findIdx_nil] at hp
  | cons e es ih =>
    rw [findIdx_cons] at hp
    split at hp
    · simp at hp; subst hp; simp
    · cases hq : findIdx es h with
      | none => simp [hq] at hp
      | some q =>
        simp [hq] at hp
        subst hp
        have := ih q hq
        simp; omega

/-- deleting the block that was just added restores the ring item (repaired `RingItem::delete_block`),
    provided the item's on-chain mark is in range -/
theorem RItem.delete_add (fl : Flags) (hf : fl.ringDeleteKeepsNone = true) (it : RItem) (id h : Nat)
    (hnew : ∀ e ∈ it.ents, ¬(e.2 = id ∧ e.1 = h))
    (hlc : ∀ p, it.lc = some p → p < it.ents.length) :
    (it.add id h).delete fl id h = it := by
  have hfilter : (it.ents ++ [(h, id)]).filter (fun e => !(e.2 == id && e.1 == h)) = it.ents := by
    rw [List.filter_append]
    have h1 : it.ents.filter (fun e => !(e.2 == id && e.1 == h)) = it.ents := by
      apply List.filter_eq_self.2
      intro e he
      have := hnew e he
      simp only [Bool.not_eq_true', Bool.and_eq_false_iff, beq_eq_false_iff_ne]
      by_cases h2 : e.2 = id
      · right; intro h1; exact this ⟨h2, h1⟩
      · left; exact h2
    rw [h1]; simp
  cases hl : it.lc with
  | none =>
    simp [RItem.delete, RItem.add, hl, hf]
    cases it; simp_all
  | some p =>
    have hp := hlc p hl
    have hget : (it.ents ++ [(h, id)])[p]? = it.ents[p]? := by
      rw [List.getElem?_append_left hp]
    obtain ⟨e, he⟩ : ∃ e, it.ents[p]? = some e := ⟨it.ents[p], by simp [hp]⟩
    have hmem : e ∈ it.ents := List.mem_of_getElem? he
    have hne := hnew e hmem
    have hcond : (e.2 == id && e.1 == h) = false := by
      simp only [Bool.and_eq_false_iff, beq_eq_false_iff_ne]
      by_cases h2 : e.2 = id
      · right; intro h1; exact hne ⟨h2, h1⟩
      · left; exact h2
    have htake : ((it.ents ++ [(h, id)]).take p).filter (fun x => !(x.2 == id && x.1 == h)) = it.ents.take p := by
      rw [List.take_append_of_le_length (Nat.le_of_lt hp)]
      apply List.filter_eq_self.2
      intro x hx
      have hx' : x ∈ it.ents := List.mem_of_mem_take hx
      have := hnew x hx'
      simp only [Bool.not_eq_true', Bool.and_eq_false_iff, beq_eq_false_iff_ne]
      by_cases h2 : x.2 = id
      · right; intro h1; exact this ⟨h2, h1⟩
      · left; exact h2
    simp only [RItem.delete, RItem.add, hl, survivorPos, hget, he, hcond, hfilter, htake]
    simp [List.length_take, Nat.min_eq_left (Nat.le_of_lt hp)]
    cases it; simp_all

/-! ### basics: the effect of wind / unwind on the index -/

@[simp] theorem ringReorg_loadingDone (st : State) (id h : Nat) (lc : Bool) :
    (ringReorg st id h lc).loadingDone = st.loadingDone := by
  unfold ringReorg
  dsimp only
  split
  · rfl
  · split
    · split <;> rfl
    · rfl

@[simp] theorem ringReorg_ringEmpty (st : State) (id h : Nat) (lc : Bool) :
    (ringReorg st id h lc).ringEmpty = st.ringEmpty := by
  unfold ringReorg
  dsimp only
  split
  · rfl
  · split
    · split <;> rfl
    · rfl

@[simp] theorem windBlock_loadingDone (st : State) (b : ABlock) : (windBlock st b).loadingDone = st.loadingDone := by
  simp [windBlock, setLC]

@[simp] theorem unwindBlock_loadingDone (st : State) (b : ABlock) : (unwindBlock st b).loadingDone = st.loadingDone := by
  simp [unwindBlock, setLC]

@[simp] theorem windBlock_ringEmpty (st : State) (b : ABlock) : (windBlock st b).ringEmpty = st.ringEmpty := by
  simp [windBlock, setLC]

@[simp] theorem unwindBlock_ringEmpty (st : State) (b : ABlock) : (unwindBlock st b).ringEmpty = st.ringEmpty := by
  simp [unwindBlock, setLC]

theorem windBlock_ring (st : State) (b : ABlock) :
    (windBlock st b).ring =
      setItem st.ring (slotOf st b.id) ((getItem st.ring (slotOf st b.id)).reorg b.hash true) := by
  unfold windBlock
  show (ringReorg st b.id b.hash true).ring = _
  exact ringReorg_ring st b.id b.hash true

theorem windBlock_ringLc (st : State) (b : ABlock) : (windBlock st b).ringLc = some (slotOf st b.id) := rfl

theorem unwindBlock_ring (st : State) (b : ABlock) :
    (unwindBlock st b).ring =
      setItem st.ring (slotOf st b.id) ((getItem st.ring (slotOf st b.id)).reorg b.hash false) := by
  unfold unwindBlock
  rw [ringReorg_ring]
  rfl

/-- item of a slot after winding `b` (ids below `2·gp`) -/
theorem getItem_windBlock (st : State) (b : ABlock) (hb : b.id < 2 * st.gp) (s : Nat) :
    getItem (windBlock st b).ring s =
      if s = b.id then { getItem st.ring b.id with lc := findIdx (getItem st.ring b.id).ents b.hash }
      else getItem st.ring s := by
  rw [windBlock_ring, slotOf_eq st b.id hb, getItem_setItem]
  simp [RItem.reorg]

theorem getItem_unwindBlock (st : State) (b : ABlock) (hb : b.id < 2 * st.gp) (s : Nat) :
    getItem (unwindBlock st b).ring s =
      if s = b.id then { getItem st.ring b.id with lc := none } else getItem st.ring s := by
  rw [unwindBlock_ring, slotOf_eq st b.id hb, getItem_setItem]
  simp [RItem.reorg]

/-- the tip pointer after unwinding the tip `b` whose predecessor (id `b.id − 1`) carries an on-chain mark -/
theorem unwindBlock_ringLc (st : State) (b : ABlock) (hb : b.id < 2 * st.gp) (h2 : 2 ≤ b.id)
    (htip : st.ringLc = some b.id) (q : Nat) (e : Nat × Nat)
    (hq : (getItem st.ring (b.id - 1)).lc = some q) (he : (getItem st.ring (b.id - 1)).ents[q]? = some e)
    (hid : e.2 + 1 = b.id) :
    (unwindBlock st b).ringLc = some (b.id - 1) := by
  have hitem : getItem (setItem st.ring b.id ((getItem st.ring b.id).reorg b.hash false)) (b.id - 1) =
      getItem st.ring (b.id - 1) := by
    rw [getItem_setItem]; simp; omega
  unfold unwindBlock ringReorg
  have hs : slotOf (setLC { st with utxo := unwindU b st.utxo } b.hash false) b.id = b.id := slotOf_eq st b.id hb
  simp only [hs]
  have h1 : (setLC { st with utxo := unwindU b st.utxo } b.hash false).ringLc = some b.id := htip
  have h3 : (setLC { st with utxo := unwindU b st.utxo } b.hash false).ring = st.ring := rfl
  simp only [h1, h3, Bool.false_eq_true, if_false, beq_self_eq_true, if_true]
  have hpos : b.id > 0 := by omega
  simp only [hpos, if_true, hitem, hq, he, hid, beq_self_eq_true]


theorem unwindBlock_blocks (st : State) (b : ABlock) :
    (unwindBlock st b).blocks = st.blocks.map (flagSet b.hash false) := by
  unfold unwindBlock
  rw [ringReorg_blocks]
  rfl

theorem windBlock_blocks (st : State) (b : ABlock) :
    (windBlock st b).blocks = st.blocks.map (flagSet b.hash true) := by
  unfold windBlock
  rw [setLC_blocks]
  show List.map _ (ringReorg st b.id b.hash true).blocks = _
  rw [ringReorg_blocks]

/-! ### the invariant -/

/-- a chain, TIP FIRST: each block's parent is the next one, ids consecutive, the root has id 1 -/
def ChainR : List ABlock → Prop
  | [] => True
  | [a] => a.id = 1
  | b :: a :: r => b.prev = a.hash ∧ b.id = a.id + 1 ∧ ChainR (a :: r)

theorem ChainR_tail {b : ABlock} {r : List ABlock} (h : ChainR (b :: r)) : ChainR r := by
  cases r with
  | nil => trivial
  | cons a r => exact h.2.2

theorem ChainR_id {b : ABlock} {r : List ABlock} (h : ChainR (b :: r)) : b.id = r.length + 1 := by
  induction r generalizing b with
  | nil => exact h
  | cons a r ih => rw [h.2.1, ih h.2.2]; rfl

theorem ChainR_mem_id {l : List ABlock} (h : ChainR l) : ∀ a ∈ l, 1 ≤ a.id ∧ a.id ≤ l.length := by
  induction l with
  | nil => intro a ha; cases ha
  | cons b r ih =>
    intro a ha
    rcases List.mem_cons.1 ha with rfl | ha
    · rw [ChainR_id h]; simp
    · have := ih (ChainR_tail h) a ha
      simp; omega

theorem ChainR_lt {b : ABlock} {r : List ABlock} (h : ChainR (b :: r)) : ∀ a ∈ r, a.id < b.id := by
  intro a ha
  have := ChainR_mem_id (ChainR_tail h) a ha
  rw [ChainR_id h]; omega

/-- the part of the invariant that wind / unwind cannot touch: the store without its flags, the entries of
    the by-height index, the side conditions (`loadingDone = false`, ids in `1 … gp−1`) -/
structure StoreOk (st : State) : Prop where
  loading : st.loadingDone = false
  nodup : ((stored st).map (·.hash)).Nodup
  ids : ∀ b ∈ stored st, b.hash ≠ 0 ∧ 1 ≤ b.id ∧ b.id < st.gp
  depth : ∀ b ∈ stored st, b.id ≤ (stored st).length
  keys : ∀ b ∈ stored st, (∀ k ∈ b.outs, k ∉ b.ins) ∧
    ∀ b' ∈ stored st, b'.id ≠ b.id → ∀ k ∈ b.outs, k ∉ b'.outs
  rEnts : ∀ s h i, (h, i) ∈ (getItem st.ring s).ents ↔ (s = i ∧ ∃ b ∈ stored st, b.hash = h ∧ b.id = i)
  rNodup : ∀ s, (getItem st.ring s).ents.Nodup
  rEmpty : st.ringEmpty = true → stored st = []

/-- the chain-dependent part; `x` is a hash whose on-chain flag is set although the block is not (yet) on the
    chain (the block being added; `0` = no such block) -/
structure ChainOk (x : Nat) (st : State) (lc : List ABlock) : Prop where
  par : ∀ b ∈ stored st, b ∈ lc ∨ b.hash = x ∨ ∃ p ∈ stored st, p.hash = b.prev ∧ b.id = p.id + 1
  lcStored : ∀ b ∈ lc, b ∈ stored st
  chain : ChainR lc.reverse
  okTail : ∀ b ∈ lc.tail, b.ok = true
  flags : ∀ e ∈ st.blocks, (e.inLC = true ↔ (e.b ∈ lc ∨ e.b.hash = x))
  ledger : SameSet st.utxo (replay lc)
  clean : CleanSeg [] lc
  rLc : ∀ b ∈ lc, (getItem st.ring b.id).lc = findIdx (getItem st.ring b.id).ents b.hash
  rNone : ∀ s, (∀ b ∈ lc, b.id ≠ s) → (getItem st.ring s).lc = none
  rTip : st.ringLc = lc.getLast?.map (·.id)

structure InvX (x : Nat) (st : State) (lc : List ABlock) : Prop where
  store : StoreOk st
  chainOk : ChainOk x st lc

theorem StoreOk.uniq {st : State} (h : StoreOk st) {a b : ABlock} (ha : a ∈ stored st) (hb : b ∈ stored st)
    (e : a.hash = b.hash) : a = b := by
  have h1 := blkOf_of_mem h.nodup ha
  have h2 := blkOf_of_mem h.nodup hb
  rw [e, h2] at h1
  exact (Option.some.inj h1).symm

theorem StoreOk.transfer {st st' : State} (h : StoreOk st) (hs : stored st' = stored st) (hg : st'.gp = st.gp)
    (hl : st'.loadingDone = st.loadingDone) (he : st'.ringEmpty = true → st.ringEmpty = true)
    (hr : ∀ s, (getItem st'.ring s).ents = (getItem st.ring s).ents) : StoreOk st' where
  loading := by rw [hl]; exact h.loading
  nodup := by rw [hs]; exact h.nodup
  ids := by rw [hs, hg]; exact h.ids
  depth := by rw [hs]; exact h.depth
  keys := by rw [hs]; exact h.keys
  rEnts := by intro s; rw [hs, hr]; exact h.rEnts s
  rNodup := by intro s; rw [hr]; exact h.rNodup s
  rEmpty := by intro e; rw [hs]; exact h.rEmpty (he e)

theorem StoreOk.lt2gp {st : State} (h : StoreOk st) {b : ABlock} (hb : b ∈ stored st) : b.id < 2 * st.gp := by
  have := (h.ids b hb).2.2; omega

theorem StoreOk.unwind {st : State} (h : StoreOk st) {b : ABlock} (hb : b ∈ stored st) :
    StoreOk (unwindBlock st b) :=
  h.transfer (stored_unwindBlock st b) (by simp) (by simp) (by simp)
    (fun s => by rw [getItem_unwindBlock st b (h.lt2gp hb)]; split <;> simp_all)

theorem StoreOk.wind {st : State} (h : StoreOk st) {b : ABlock} (hb : b ∈ stored st) :
    StoreOk (windBlock st b) :=
  h.transfer (stored_windBlock st b) (by simp) (by simp) (by simp)
    (fun s => by rw [getItem_windBlock st b (h.lt2gp hb)]; split <;> simp_all)

/-- the index entry of an on-chain block -/
theorem InvX.lcEntry {x : Nat} {st : State} {lc : List ABlock} (h : InvX x st lc) {a : ABlock} (ha : a ∈ lc) :
    ∃ q, (getItem st.ring a.id).lc = some q ∧ (getItem st.ring a.id).ents[q]? = some (a.hash, a.id) := by
  have hs := h.chainOk.lcStored a ha
  have hm : (a.hash, a.id) ∈ (getItem st.ring a.id).ents := (h.store.rEnts _ _ _).2 ⟨rfl, a, hs, rfl, rfl⟩
  have hu : ∀ e ∈ (getItem st.ring a.id).ents, e.1 = a.hash → e = (a.hash, a.id) := by
    intro e he e1
    obtain ⟨h1, c, hc, hc1, hc2⟩ := (h.store.rEnts a.id e.1 e.2).1 he
    have : c = a := h.store.uniq hc hs (by rw [hc1, e1])
    subst this
    cases e; simp_all
  obtain ⟨p, hp1, hp2⟩ := findIdx_spec _ _ _ hm hu
  exact ⟨p, by rw [h.chainOk.rLc a ha, hp1], hp2⟩

theorem CleanSeg_append (u : List Nat) (c : List ABlock) (b : ABlock) :
    CleanSeg u (c ++ [b]) ↔ CleanSeg u c ∧ CleanAt b (replayFrom u c) := by
  induction c generalizing u with
  | nil => simp [CleanSeg, replayFrom]
  | cons a c ih =>
    simp only [List.cons_append, CleanSeg, ih, replayFrom, List.foldl_cons]
    exact and_assoc.symm

theorem replay_append_single (c : List ABlock) (b : ABlock) : replay (c ++ [b]) = windU b (replay c) := by
  simp [replay, replayFrom, List.foldl_append]


theorem mem_stored_of_mem {st : State} {e : BEntry} (he : e ∈ st.blocks) : e.b ∈ stored st :=
  List.mem_map_of_mem he

/-! ### one unwind step / one wind step -/

theorem InvX.unwind {x : Nat} {st : State} {lc : List ABlock} {b : ABlock}
    (h : InvX x st (lc ++ [b])) (hne : lc ≠ []) (hx : b.hash ≠ x) : InvX x (unwindBlock st b) lc := by
  have hbS : b ∈ stored st := h.chainOk.lcStored b (by simp)
  have hch : ChainR (b :: lc.reverse) := by simpa using h.chainOk.chain
  have hlt : ∀ a ∈ lc, a.id < b.id := fun a ha => ChainR_lt hch a (by simpa using ha)
  have hb2 := h.store.lt2gp hbS
  obtain ⟨l, r, hlr⟩ : ∃ l r, lc.reverse = l :: r := by
    cases hr : lc.reverse with
    | nil => exact absurd (List.reverse_eq_nil_iff.1 hr) hne
    | cons l r => exact ⟨l, r, rfl⟩
  have hl : l ∈ lc := by rw [← List.mem_reverse, hlr]; simp
  have hlast : lc.getLast? = some l := by rw [← List.head?_reverse, hlr]; rfl
  rw [hlr] at hch
  obtain ⟨hprev, hid, hch'⟩ := hch
  have hst' := stored_unwindBlock st b
  refine ⟨h.store.unwind hbS, ?_⟩
  constructor
  · rw [hst']; intro a ha
    rcases h.chainOk.par a ha with h1 | h1
    · rcases List.mem_append.1 h1 with h2 | h2
      · exact Or.inl h2
      · have : a = b := by simpa using h2
        subst this
        exact Or.inr (Or.inr ⟨l, h.chainOk.lcStored l (by simp [hl]), hprev.symm, hid⟩)
    · exact Or.inr h1
  · rw [hst']; intro a ha; exact h.chainOk.lcStored a (by simp [ha])
  · rw [hlr]; exact hch'
  · intro a ha; apply h.chainOk.okTail; rw [List.tail_append_of_ne_nil hne]; simp [ha]
  · rw [unwindBlock_blocks]
    intro e' he'
    obtain ⟨e, he, rfl⟩ := List.mem_map.1 he'
    have heS : e.b ∈ stored st := mem_stored_of_mem he
    have hf := h.chainOk.flags e he
    by_cases hh : e.b.hash = b.hash
    · have heb : e.b = b := h.store.uniq heS hbS hh
      have : (flagSet b.hash false e).inLC = false := by simp [flagSet, hh]
      rw [flagSet_b, this, heb]
      constructor
      · intro h; cases h
      · rintro (h1 | h1)
        · exact absurd (hlt b h1) (Nat.lt_irrefl _)
        · exact absurd h1 hx
    · have : flagSet b.hash false e = e := by simp [flagSet, hh]
      rw [this, hf]
      have hne' : e.b ≠ b := fun h => hh (by rw [h])
      simp [hne']
  · rw [unwindBlock_utxo]
    have hc := (CleanSeg_append [] lc b).1 h.chainOk.clean
    have := h.chainOk.ledger
    rw [replay_append_single] at this
    exact (unwindU_congr b this).trans (unwind_wind b _ hc.2)
  · exact ((CleanSeg_append [] lc b).1 h.chainOk.clean).1
  · intro a ha
    have hne' : a.id ≠ b.id := Nat.ne_of_lt (hlt a ha)
    rw [getItem_unwindBlock st b hb2, if_neg hne']
    exact h.chainOk.rLc a (by simp [ha])
  · intro s hs
    rw [getItem_unwindBlock st b hb2]
    split
    · rfl
    · rename_i hsb
      apply h.chainOk.rNone
      intro a ha
      rcases List.mem_append.1 ha with h1 | h1
      · exact hs a h1
      · have : a = b := by simpa using h1
        subst this; exact fun e => hsb e.symm
  · obtain ⟨q, hq1, hq2⟩ := h.lcEntry (a := l) (by simp [hl])
    have htip : st.ringLc = some b.id := by rw [h.chainOk.rTip]; simp
    have hl1 : b.id - 1 = l.id := by omega
    have hl2 : 1 ≤ l.id := (h.store.ids l (h.chainOk.lcStored l (by simp [hl]))).2.1
    rw [hlast]
    have := unwindBlock_ringLc st b hb2 (by omega) htip q (l.hash, l.id) (by rw [hl1]; exact hq1)
      (by rw [hl1]; exact hq2) (by simp; omega)
    rw [this, hl1]; rfl

theorem InvX.wind {x : Nat} {st : State} {lc : List ABlock} {b : ABlock}
    (h : InvX x st lc) (hbS : b ∈ stored st) (hch : ChainR (b :: lc.reverse))
    (hclean : CleanAt b (replay lc)) (hok : lc ≠ [] → b.ok = true) :
    InvX x (windBlock st b) (lc ++ [b]) := by
  have hlt : ∀ a ∈ lc, a.id < b.id := fun a ha => ChainR_lt hch a (by simpa using ha)
  have hb2 := h.store.lt2gp hbS
  have hst' := stored_windBlock st b
  refine ⟨h.store.wind hbS, ?_⟩
  constructor
  · rw [hst']; intro a ha
    rcases h.chainOk.par a ha with h1 | h1
    · exact Or.inl (by simp [h1])
    · exact Or.inr h1
  · rw [hst']; intro a ha
    rcases List.mem_append.1 ha with h1 | h1
    · exact h.chainOk.lcStored a h1
    · have : a = b := by simpa using h1
      subst this; exact hbS
  · simpa using hch
  · intro a ha
    by_cases hne : lc = []
    · subst hne; simp at ha
    · rw [List.tail_append_of_ne_nil hne] at ha
      rcases List.mem_append.1 ha with h1 | h1
      · exact h.chainOk.okTail a h1
      · have : a = b := by simpa using h1
        subst this; exact hok hne
  · rw [windBlock_blocks]
    intro e' he'
    obtain ⟨e, he, rfl⟩ := List.mem_map.1 he'
    have heS : e.b ∈ stored st := mem_stored_of_mem he
    have hf := h.chainOk.flags e he
    by_cases hh : e.b.hash = b.hash
    · have heb : e.b = b := h.store.uniq heS hbS hh
      have : (flagSet b.hash true e).inLC = true := by simp [flagSet, hh]
      rw [flagSet_b, this, heb]
      simp
    · have : flagSet b.hash true e = e := by simp [flagSet, hh]
      rw [this, hf]
      have hne' : e.b ≠ b := fun h => hh (by rw [h])
      simp [hne']
  · rw [windBlock_utxo, replay_append_single]
    exact windU_congr b h.chainOk.ledger
  · exact (CleanSeg_append [] lc b).2 ⟨h.chainOk.clean, hclean⟩
  · intro a ha
    rw [getItem_windBlock st b hb2]
    rcases List.mem_append.1 ha with h1 | h1
    · have hne' : a.id ≠ b.id := Nat.ne_of_lt (hlt a h1)
      rw [if_neg hne']
      exact h.chainOk.rLc a h1
    · have : a = b := by simpa using h1
      subst this
      rw [if_pos rfl]
  · intro s hs
    have hsb : s ≠ b.id := fun e => hs b (by simp) e.symm
    rw [getItem_windBlock st b hb2, if_neg hsb]
    exact h.chainOk.rNone s (fun a ha => hs a (by simp [ha]))
  · rw [windBlock_ringLc, slotOf_eq st b.id hb2]; simp


/-! ### observables of the index under the invariant -/

theorem InvX.lcHashAt_mem {x : Nat} {st : State} {lc : List ABlock} (h : InvX x st lc) {a : ABlock} (ha : a ∈ lc) :
    lcHashAt st a.id = some a.hash := by
  obtain ⟨q, hq1, hq2⟩ := h.lcEntry ha
  unfold lcHashAt
  rw [slotOf_eq st a.id (h.store.lt2gp (h.chainOk.lcStored a ha))]
  simp [hq1, hq2]

theorem ChainR_root {l : List ABlock} (h : ChainR l) (hne : l ≠ []) : ∃ a ∈ l, a.id = 1 := by
  induction l with
  | nil => exact absurd rfl hne
  | cons b r ih =>
    cases r with
    | nil => exact ⟨b, by simp, h⟩
    | cons a r =>
      obtain ⟨c, hc, hc1⟩ := ih h.2.2 (by simp)
      exact ⟨c, List.mem_cons_of_mem _ hc, hc1⟩

theorem InvX.againstUtxo {x : Nat} {st : State} {lc : List ABlock} (h : InvX x st lc) (hne : lc ≠ []) :
    againstUtxo st = true := by
  obtain ⟨a, ha, ha1⟩ := ChainR_root h.chainOk.chain (by simpa using hne)
  have := h.lcHashAt_mem (a := a) (by simpa using ha)
  unfold Saito.Chain.againstUtxo
  rw [← ha1, this]; rfl

theorem mem_replayFrom_outs (c : List ABlock) (u : List Nat) (k : Nat) (hk : k ∈ replayFrom u c) :
    k ∈ u ∨ ∃ a ∈ c, k ∈ a.outs := by
  induction c generalizing u with
  | nil => exact Or.inl hk
  | cons b c ih =>
    rcases ih (windU b u) hk with h1 | ⟨a, ha, hka⟩
    · rcases (mem_windU b u k).1 h1 with h2 | h2
      · exact Or.inr ⟨b, by simp, h2⟩
      · exact Or.inl h2.1
    · exact Or.inr ⟨a, List.mem_cons_of_mem _ ha, hka⟩

theorem mem_replay_outs (c : List ABlock) (k : Nat) (hk : k ∈ replay c) : ∃ a ∈ c, k ∈ a.outs := by
  rcases mem_replayFrom_outs c [] k hk with h | h
  · cases h
  · exact h

/-- the outputs of a stored block that extends the chain are fresh -/
theorem InvX.fresh {x : Nat} {st : State} {lc : List ABlock} (h : InvX x st lc) {b : ABlock}
    (hbS : b ∈ stored st) (hch : ChainR (b :: lc.reverse)) :
    (∀ k ∈ b.outs, k ∉ replay lc) ∧ (∀ k ∈ b.outs, k ∉ b.ins) := by
  refine ⟨?_, (h.store.keys b hbS).1⟩
  intro k hk hr
  obtain ⟨a, ha, hka⟩ := mem_replay_outs lc k hr
  have hlt := ChainR_lt hch a (by simpa using ha)
  exact (h.store.keys b hbS).2 a (h.chainOk.lcStored a ha) (Nat.ne_of_lt hlt) k hk hka

/-- a candidate block that validates on a non-empty chain is clean and has an honest header -/
theorem InvX.valid_clean {x : Nat} {st : State} {lc : List ABlock} (h : InvX x st lc) (fl : Flags)
    (hv : fl.txVerdict = true) (hne : lc ≠ []) {b : ABlock} (hbS : b ∈ stored st)
    (hch : ChainR (b :: lc.reverse)) (hval : validB fl st b = true) :
    CleanAt b (replay lc) ∧ b.ok = true := by
  obtain ⟨l, r, hlr⟩ : ∃ l r, lc.reverse = l :: r := by
    cases hr : lc.reverse with
    | nil => exact absurd (List.reverse_eq_nil_iff.1 hr) hne
    | cons l r => exact ⟨l, r, rfl⟩
  have hl : l ∈ lc := by rw [← List.mem_reverse, hlr]; simp
  rw [hlr] at hch
  have hp : blkOf st b.prev = some l := by
    rw [hch.1]; exact blkOf_of_mem h.store.nodup (h.chainOk.lcStored l hl)
  have hps : (getB st b.prev).isSome = true := by rw [getB_isSome, hp]; rfl
  have ha := h.againstUtxo hne
  simp only [validB, hps, if_true, hv, ha, Bool.not_true, Bool.false_or, Bool.and_eq_true,
    List.all_eq_true, decide_eq_true_eq] at hval
  have hf := h.fresh hbS (by rw [hlr]; exact hch)
  exact ⟨⟨fun k hk => (h.chainOk.ledger k).1 (hval.2 k hk), hf.1, hf.2⟩, hval.1⟩

/-- a block of the chain re-validates when it is wound back on its own prefix -/
theorem InvX.old_valid {x : Nat} {st : State} {lc : List ABlock} (h : InvX x st lc) (fl : Flags)
    (hne : lc ≠ []) {b : ABlock} (hch : ChainR (b :: lc.reverse)) (hok : b.ok = true)
    (hclean : CleanAt b (replay lc)) : validB fl st b = true := by
  obtain ⟨l, r, hlr⟩ : ∃ l r, lc.reverse = l :: r := by
    cases hr : lc.reverse with
    | nil => exact absurd (List.reverse_eq_nil_iff.1 hr) hne
    | cons l r => exact ⟨l, r, rfl⟩
  have hl : l ∈ lc := by rw [← List.mem_reverse, hlr]; simp
  rw [hlr] at hch
  have hp : blkOf st b.prev = some l := by
    rw [hch.1]; exact blkOf_of_mem h.store.nodup (h.chainOk.lcStored l hl)
  have hps : (getB st b.prev).isSome = true := by rw [getB_isSome, hp]; rfl
  have hins : b.ins.all (· ∈ st.utxo) = true := by
    simp only [List.all_eq_true, decide_eq_true_eq]
    exact fun k hk => (h.chainOk.ledger k).2 (hclean.1 k hk)
  simp [validB, hps, hok, hins]


/-! ### the phases of the repaired reorganisation -/

theorem stored_foldl_unwind (R : List ABlock) (st : State) : stored (R.foldl unwindBlock st) = stored st := by
  induction R generalizing st with
  | nil => rfl
  | cons r R ih => rw [List.foldl_cons, ih, stored_unwindBlock]

theorem stored_windAllV (v : State → ABlock → Bool) (M : List ABlock) (s : State) (dn : List ABlock) :
    stored (windAllV v M s dn).1 = stored s := by
  induction M generalizing s dn with
  | nil => rfl
  | cons m M ihM =>
    simp only [windAllV]
    split
    · rw [ihM, stored_windBlock]
    · rfl


/-- unwinding a segment, tip first -/
theorem InvX.unwindAll {x : Nat} (obs : List ABlock) : ∀ {st : State} {P : List ABlock},
    InvX x st (P ++ obs.reverse) → P ≠ [] → (∀ b ∈ obs, b.hash ≠ x) → InvX x (obs.foldl unwindBlock st) P := by
  induction obs with
  | nil => intro st P h _ _; simpa using h
  | cons o rest ih =>
    intro st P h hne hx
    have h' : InvX x st ((P ++ rest.reverse) ++ [o]) := by simpa using h
    have := h'.unwind (by simp [hne]) (hx o (by simp))
    exact ih this hne (fun b hb => hx b (by simp [hb]))

/-- winding the old chain back: every block re-validates -/
theorem InvX.windOld {x : Nat} (fl : Flags) (O : List ABlock) : ∀ {st : State} {P : List ABlock} (done : List ABlock),
    InvX x st P → P ≠ [] → ChainR (P ++ O).reverse → CleanSeg (replay P) O →
    (∀ b ∈ O, b.ok = true ∧ b ∈ stored st) →
    ∃ s' d, windAllV (validB fl) O st done = (s', true, d) ∧ InvX x s' (P ++ O) := by
  induction O with
  | nil => intro st P done h _ _ _ _; exact ⟨st, done, rfl, by simpa using h⟩
  | cons o O ih =>
    intro st P done h hne hch hcl hO
    have hch1 : ChainR (o :: P.reverse) := by
      have : ChainR (O.reverse ++ o :: P.reverse) := by simpa using hch
      clear hch
      generalize O.reverse = R at this
      induction R with
      | nil => exact this
      | cons r R ihR => exact ihR (ChainR_tail this)
    obtain ⟨hc1, hc2⟩ := hcl
    have hv := h.old_valid fl hne hch1 (hO o (by simp)).1 hc1
    have hw := h.wind (hO o (by simp)).2 hch1 hc1 (fun _ => (hO o (by simp)).1)
    have := ih (st := windBlock st o) (P := P ++ [o]) (o :: done) hw (by simp)
      (by simpa using hch) (by rw [replay_append_single]; exact hc2)
      (fun b hb => ⟨(hO b (by simp [hb])).1, by rw [stored_windBlock]; exact (hO b (by simp [hb])).2⟩)
    obtain ⟨s', d, e1, e2⟩ := this
    refine ⟨s', d, ?_, by simpa using e2⟩
    simp only [windAllV, hv, if_true]
    exact e1

theorem ChainR_of_append {R : List ABlock} {l : List ABlock} (h : ChainR (R ++ l)) : ChainR l := by
  induction R with
  | nil => exact h
  | cons r R ih => exact ih (ChainR_tail h)

/-- winding the candidate while it validates -/
theorem InvX.windNew {x : Nat} (fl : Flags) (hv : fl.txVerdict = true) (N : List ABlock) :
    ∀ {st : State} {L : List ABlock} (done : List ABlock) (s2 : State) (ok : Bool) (d2 : List ABlock),
    InvX x st L → L ≠ [] → ChainR (L ++ N).reverse → (∀ b ∈ N, b ∈ stored st) →
    windAllV (validB fl) N st done = (s2, ok, d2) →
    ∃ pre rest, N = pre ++ rest ∧ d2 = pre.reverse ++ done ∧ InvX x s2 (L ++ pre) ∧
      (ok = true → rest = []) ∧ (ok = false → rest ≠ []) := by
  induction N with
  | nil =>
    intro st L done s2 ok d2 h _ _ _ hw
    simp only [windAllV, Prod.mk.injEq] at hw
    obtain ⟨rfl, rfl, rfl⟩ := hw
    exact ⟨[], [], rfl, by simp, by simpa using h, fun _ => rfl, fun h => absurd h (by decide)⟩
  | cons n N ih =>
    intro st L done s2 ok d2 h hne hch hN hw
    have hch1 : ChainR (n :: L.reverse) := by
      have : ChainR (N.reverse ++ n :: L.reverse) := by simpa using hch
      exact ChainR_of_append this
    simp only [windAllV] at hw
    split at hw
    · rename_i hval
      obtain ⟨hc, hok⟩ := h.valid_clean fl hv hne (hN n (by simp)) hch1 hval
      have hw' := h.wind (hN n (by simp)) hch1 hc (fun _ => hok)
      obtain ⟨pre, rest, e1, e2, e3, e4, e5⟩ := ih (st := windBlock st n) (L := L ++ [n]) (n :: done) s2 ok d2 hw'
        (by simp) (by simpa using hch) (fun b hb => by rw [stored_windBlock]; exact hN b (by simp [hb])) hw
      exact ⟨n :: pre, rest, by simp [e1], by simp [e2], by simpa using e3, e4, e5⟩
    · simp only [Prod.mk.injEq] at hw
      obtain ⟨rfl, rfl, rfl⟩ := hw
      exact ⟨[], n :: N, rfl, by simp, by simpa using h, fun h => absurd h (by decide), fun _ => by simp⟩

/-- the repaired reorganisation (functional specification) preserves the invariant: on success the chain is
    `P ++ N`, on failure it is `P ++ O` again.  `P ≠ []`: the fork point is on the chain. -/
theorem InvX.reorgSpec {x : Nat} (fl : Flags) (hv : fl.txVerdict = true) {st : State} {P O N : List ABlock}
    (h : InvX x st (P ++ O)) (hne : P ≠ []) (hch : ChainR (P ++ N).reverse) (hN : ∀ b ∈ N, b ∈ stored st)
    (hxO : ∀ b ∈ O, b.hash ≠ x)
    (hxN : ∀ pre rest, N = pre ++ rest → rest ≠ [] → ∀ a ∈ pre, a.hash ≠ x) :
    ((reorgSpec (validB fl) N O.reverse st).2 = true → InvX x (reorgSpec (validB fl) N O.reverse st).1 (P ++ N)) ∧
    ((reorgSpec (validB fl) N O.reverse st).2 = false → InvX x (reorgSpec (validB fl) N O.reverse st).1 (P ++ O)) := by
  have h1 : InvX x (O.reverse.foldl unwindBlock st) P :=
    InvX.unwindAll O.reverse (by simpa using h) hne (fun b hb => hxO b (by simpa using hb))
  have hst1 : stored (O.reverse.foldl unwindBlock st) = stored st := stored_foldl_unwind _ _
  unfold Saito.Chain.reorgSpec finishV specWound
  generalize hw : windAllV (validB fl) N (List.foldl unwindBlock st O.reverse) [] = w
  obtain ⟨s2, ok, d2⟩ := w
  obtain ⟨pre, rest, e1, e2, e3, e4, e5⟩ := h1.windNew fl hv N [] s2 ok d2 hne hch
    (fun b hb => by rw [hst1]; exact hN b hb) hw
  cases ok with
  | true =>
    have : rest = [] := e4 rfl
    subst this
    simp only [List.append_nil] at e1
    subst e1
    simp only [if_true]
    exact ⟨fun _ => e3, fun h => absurd h (by decide)⟩
  | false =>
    simp only [Bool.false_eq_true, if_false]
    refine ⟨fun h => absurd h (by decide), fun _ => ?_⟩
    unfold restoreFrom
    simp only [List.reverse_reverse]
    have hrest := e5 rfl
    have h3 : InvX x (d2.foldl unwindBlock s2) P := by
      rw [e2]
      simp only [List.append_nil]
      exact InvX.unwindAll pre.reverse (by simpa using e3) hne
        (fun b hb => hxN pre rest e1 hrest b (by simpa using hb))
    have hst3 : stored (d2.foldl unwindBlock s2) = stored st := by
      have := stored_windAllV (validB fl) N (List.foldl unwindBlock st O.reverse) []
      rw [hw] at this
      rw [stored_foldl_unwind, this, hst1]
    obtain ⟨s', d, w1, w2⟩ := h3.windOld fl O [] hne (by simpa using h.chainOk.chain)
      (by
        have := h.chainOk.clean
        clear hw e3 h3
        -- CleanSeg [] (P ++ O) → CleanSeg (replay P) O
        have key : ∀ (A : List ABlock) (u : List Nat), CleanSeg u (A ++ O) → CleanSeg (replayFrom u A) O := by
          intro A
          induction A with
          | nil => intro u hu; exact hu
          | cons a A ihA => intro u hu; exact ihA _ hu.2
        exact key P [] this)
      (fun b hb => ⟨h.chainOk.okTail b (by
          rw [List.tail_append_of_ne_nil hne]; simp [hb]),
        by rw [hst3]; exact h.chainOk.lcStored b (by simp [hb])⟩)
    rw [w1]
    exact w2


/-! ### what the reorganisation never touches -/

structure Frame (st st' : State) : Prop where
  gp : st'.gp = st.gp
  loading : st'.loadingDone = st.loadingDone
  rempty : st'.ringEmpty = st.ringEmpty
  stor : stored st' = stored st
  ents : ∀ s, (getItem st'.ring s).ents = (getItem st.ring s).ents

theorem Frame.refl (st : State) : Frame st st := ⟨rfl, rfl, rfl, rfl, fun _ => rfl⟩

theorem Frame.trans {a b c : State} (h1 : Frame a b) (h2 : Frame b c) : Frame a c :=
  ⟨h2.gp.trans h1.gp, h2.loading.trans h1.loading, h2.rempty.trans h1.rempty, h2.stor.trans h1.stor,
    fun s => (h2.ents s).trans (h1.ents s)⟩

theorem Frame.wind (st : State) (b : ABlock) : Frame st (windBlock st b) := by
  refine ⟨by simp, by simp, by simp, stored_windBlock st b, fun s => ?_⟩
  rw [windBlock_ring, getItem_setItem]
  split
  · rename_i hs; subst hs; simp [RItem.reorg]
  · rfl

theorem Frame.unwind (st : State) (b : ABlock) : Frame st (unwindBlock st b) := by
  refine ⟨by simp, by simp, by simp, stored_unwindBlock st b, fun s => ?_⟩
  rw [unwindBlock_ring, getItem_setItem]
  split
  · rename_i hs; subst hs; simp [RItem.reorg]
  · rfl

theorem Frame.foldl_unwind (R : List ABlock) (st : State) : Frame st (R.foldl unwindBlock st) := by
  induction R generalizing st with
  | nil => exact Frame.refl st
  | cons r R ih => exact (Frame.unwind st r).trans (ih _)

theorem Frame.windAllV (v : State → ABlock → Bool) (M : List ABlock) (s : State) (dn : List ABlock) :
    Frame s (windAllV v M s dn).1 := by
  induction M generalizing s dn with
  | nil => exact Frame.refl s
  | cons m M ihM =>
    simp only [Saito.Chain.windAllV]
    split
    · exact (Frame.wind s m).trans (ihM _ _)
    · exact Frame.refl s

theorem Frame.reorgSpec (v : State → ABlock → Bool) (N Obs : List ABlock) (st : State) :
    Frame st (reorgSpec v N Obs st).1 := by
  unfold Saito.Chain.reorgSpec finishV
  have h1 : Frame st (specWound v N Obs st).1 := by
    unfold specWound
    exact (Frame.foldl_unwind Obs st).trans (Frame.windAllV v N _ [])
  split
  · exact h1
  · unfold restoreFrom
    exact (h1.trans (Frame.foldl_unwind _ _)).trans (Frame.windAllV v _ _ [])

/-! ### reading the tip -/

theorem InvX.latest {x : Nat} {st : State} {lc : List ABlock} (h : InvX x st lc) :
    latest st = some (match lc.getLast? with | some t => (t.id, t.hash) | none => (0, 0)) := by
  cases hl : lc.getLast? with
  | none =>
    have : st.ringLc = none := by rw [h.chainOk.rTip, hl]; rfl
    simp [Saito.Chain.latest, this]
  | some t =>
    have ht : t ∈ lc := List.mem_of_getLast? hl
    have : st.ringLc = some t.id := by rw [h.chainOk.rTip, hl]; rfl
    obtain ⟨q, hq1, hq2⟩ := h.lcEntry ht
    simp [Saito.Chain.latest, this, hq1, hq2]

/-- the invariant only reads the store, the items of the index, the tip pointer, the spendable SET and the
    side-condition fields -/
theorem InvX.congr {x : Nat} {st st' : State} {lc : List ABlock} (h : InvX x st lc) (hb : st'.blocks = st.blocks)
    (hr : ∀ s, getItem st'.ring s = getItem st.ring s) (ht : st'.ringLc = st.ringLc)
    (hu : SameSet st'.utxo st.utxo) (hg : st'.gp = st.gp) (hl : st'.loadingDone = st.loadingDone)
    (he : st'.ringEmpty = true → st.ringEmpty = true) : InvX x st' lc := by
  have hs : stored st' = stored st := by unfold stored; rw [hb]
  refine ⟨h.store.transfer hs hg hl he (fun s => by rw [hr]), ?_⟩
  constructor
  · rw [hs]; exact h.chainOk.par
  · rw [hs]; exact h.chainOk.lcStored
  · exact h.chainOk.chain
  · exact h.chainOk.okTail
  · rw [hb]; exact h.chainOk.flags
  · exact hu.trans h.chainOk.ledger
  · exact h.chainOk.clean
  · intro b hb'; rw [hr]; exact h.chainOk.rLc b hb'
  · intro s hs'; rw [hr]; exact h.chainOk.rNone s hs'
  · rw [ht]; exact h.chainOk.rTip

/-- once the block being added is on the chain its flag is no longer an exception -/
theorem InvX.dropX {x : Nat} {st : State} {lc : List ABlock} (h : InvX x st lc)
    (hx : ∀ b ∈ stored st, b.hash = x → b ∈ lc) : InvX 0 st lc := by
  refine ⟨h.store, ?_⟩
  have h0 : ∀ b ∈ stored st, b.hash ≠ 0 := fun b hb => (h.store.ids b hb).1
  constructor
  · intro b hb
    rcases h.chainOk.par b hb with h1 | h1 | h1
    · exact Or.inl h1
    · exact Or.inl (hx b hb h1)
    · exact Or.inr (Or.inr h1)
  · exact h.chainOk.lcStored
  · exact h.chainOk.chain
  · exact h.chainOk.okTail
  · intro e he
    rw [h.chainOk.flags e he]
    constructor
    · rintro (h1 | h1)
      · exact Or.inl h1
      · exact Or.inl (hx _ (mem_stored_of_mem he) h1)
    · rintro (h1 | h1)
      · exact Or.inl h1
      · exact absurd h1 (h0 _ (mem_stored_of_mem he))
  · exact h.chainOk.ledger
  · exact h.chainOk.clean
  · exact h.chainOk.rLc
  · exact h.chainOk.rNone
  · exact h.chainOk.rTip


/-! ### the two chains `add_block` computes -/

/-- every stored block that is not on the chain hangs off it: a path of off-chain blocks down to a fork point -/
theorem InvX.path {st : State} {lc : List ABlock} (h : InvX 0 st lc) :
    ∀ (n : Nat) (a : ABlock), a.id ≤ n → a ∈ stored st → a ∉ lc →
      ∃ P O side, lc = P ++ O ∧ P ≠ [] ∧ ChainR ((a :: side) ++ P.reverse) ∧
        (∀ c ∈ a :: side, c ∈ stored st ∧ c ∉ lc) := by
  intro n
  induction n with
  | zero => intro a ha hs _; have := (h.store.ids a hs).2.1; omega
  | succ n ih =>
    intro a ha hs hnl
    rcases h.chainOk.par a hs with h1 | h1 | ⟨p, hp, hph, hpid⟩
    · exact absurd h1 hnl
    · exact absurd h1 (h.store.ids a hs).1
    · by_cases hpl : p ∈ lc
      · obtain ⟨s, t, rfl⟩ := List.append_of_mem hpl
        refine ⟨s ++ [p], t, [], by simp, by simp, ?_, ?_⟩
        · have hc : ChainR (t.reverse ++ p :: s.reverse) := by simpa using h.chainOk.chain
          have hc' := ChainR_of_append hc
          simp only [List.reverse_append, List.reverse_cons, List.reverse_nil, List.nil_append,
            List.cons_append]
          exact ⟨hph.symm, hpid, hc'⟩
        · intro c hc
          have : c = a := by simpa using hc
          subst this; exact ⟨hs, hnl⟩
      · obtain ⟨P, O, side, e1, e2, e3, e4⟩ := ih p (by omega) hp hpl
        refine ⟨P, O, p :: side, e1, e2, ?_, ?_⟩
        · exact ⟨hph.symm, hpid, e3⟩
        · intro c hc
          rcases List.mem_cons.1 hc with rfl | hc
          · exact ⟨hs, hnl⟩
          · exact e4 c hc

theorem ChainR_prev_head {c l : ABlock} {rest T : List ABlock} (h : ChainR (c :: rest ++ l :: T)) :
    c.prev = (rest.headD l).hash := by
  cases rest with
  | nil => exact h.1
  | cons r rest => exact h.1

/-- `calculate_new_chain_for_add_block` walks an off-chain path down to its on-chain parent -/
theorem calcNew_walk (s : State) (l : ABlock) (T : List ABlock) (el : BEntry) (hl : getB s l.hash = some el)
    (hlc : el.inLC = true) :
    ∀ (side : List ABlock) (fuel : Nat) (acc : List Nat), side.length < fuel → ChainR (side ++ l :: T) →
      (∀ c ∈ side, c.hash ≠ 0 ∧ ∃ e, getB s c.hash = some e ∧ e.b = c ∧ e.inLC = false) →
      calcNew s fuel (side.headD l).hash acc = (true, l.hash, acc.reverse ++ side.map (·.hash)) := by
  intro side
  induction side with
  | nil =>
    intro fuel acc hf _ _
    obtain ⟨f, rfl⟩ : ∃ f, fuel = f + 1 := ⟨fuel - 1, by simp at hf; omega⟩
    simp [calcNew, hl, hlc]
  | cons c rest ih =>
    intro fuel acc hf hch hside
    obtain ⟨f, rfl⟩ : ∃ f, fuel = f + 1 := ⟨fuel - 1, by simp at hf; omega⟩
    obtain ⟨h0, e, he, heb, hef⟩ := hside c (by simp)
    have hprev := ChainR_prev_head hch
    have := ih f (c.hash :: acc) (by simp at hf; omega) (ChainR_tail hch)
      (fun c' hc' => hside c' (by simp [hc']))
    simp only [List.headD_cons, calcNew, he, hef, Bool.false_eq_true, if_false, beq_iff_eq, h0, heb, hprev, this]
    simp

/-- `calculate_old_chain_for_add_block` walks the chain from the tip down to the fork point -/
theorem calcOld_walk (s : State) (l : ABlock) (T : List ABlock) :
    ∀ (obs : List ABlock) (fuel : Nat) (acc : List Nat), obs.length < fuel → ChainR (obs ++ l :: T) →
      (∀ c ∈ obs, c.hash ≠ l.hash ∧ c.prev ≠ 0 ∧ ∃ e, getB s c.hash = some e ∧ e.b = c) →
      calcOld s l.hash fuel (obs.headD l).hash acc = acc.reverse ++ obs.map (·.hash) := by
  intro obs
  induction obs with
  | nil =>
    intro fuel acc hf _ _
    obtain ⟨f, rfl⟩ : ∃ f, fuel = f + 1 := ⟨fuel - 1, by simp at hf; omega⟩
    simp [calcOld]
  | cons c rest ih =>
    intro fuel acc hf hch hobs
    obtain ⟨f, rfl⟩ : ∃ f, fuel = f + 1 := ⟨fuel - 1, by simp at hf; omega⟩
    obtain ⟨h0, hp0, e, he, heb⟩ := hobs c (by simp)
    have hprev := ChainR_prev_head hch
    have := ih f (c.hash :: acc) (by simp at hf; omega) (ChainR_tail hch)
      (fun c' hc' => hobs c' (by simp [hc']))
    have hstep : calcOld s l.hash (f + 1) c.hash acc = calcOld s l.hash f c.prev (c.hash :: acc) := by
      have hne : (c.hash == l.hash) = false := by simpa using h0
      have hp : (c.prev == 0) = false := by simpa using hp0
      simp only [calcOld, hne, he, heb, hp, Bool.false_eq_true, if_false]
    rw [List.headD_cons, hstep, hprev, this]
    simp


/-! ### deliveries and the insertion step of `add_block` -/

/-- a non-orphan delivery of a fresh block in a history shorter than `gp`: the parent is stored (ids
    consecutive) or the store is empty (first block: id 1, no inputs); utxo keys are unique (a block does
    not spend its own outputs; blocks of different heights create different keys) -/
structure Deliverable (st : State) (b : ABlock) : Prop where
  hashNe : b.hash ≠ 0
  fresh : getB st b.hash = none
  idLt : b.id < st.gp
  parent : (stored st = [] ∧ b.id = 1 ∧ b.ins = [] ∧ b.prev ≠ b.hash) ∨
           (∃ p ∈ stored st, p.hash = b.prev ∧ b.id = p.id + 1)
  keysSelf : ∀ k ∈ b.outs, k ∉ b.ins
  keysOther : ∀ b' ∈ stored st, b'.id ≠ b.id → ∀ k ∈ b.outs, k ∉ b'.outs

/-- the state after `add_block` has inserted `b` into the by-height index and the store -/
def insB (st : State) (b : ABlock) : State :=
  { st with ring := setItem st.ring (slotOf st b.id) ((getItem st.ring (slotOf st b.id)).add b.id b.hash),
            blocks := st.blocks ++ [⟨b, false⟩],
            amt := st.amt ++ (b.ins.zip b.inAmts) ++ (b.outs.zip b.outAmts) }

/-- the state in which `validate` starts -/
def preV (st : State) (b : ABlock) : State := setLC { insB st b with ringEmpty := false } b.hash true

theorem Deliverable.freshMem {st : State} {b : ABlock} (d : Deliverable st b) :
    ∀ e ∈ st.blocks, e.b.hash ≠ b.hash := by
  intro e he hh
  have := List.find?_eq_none.1 d.fresh e he
  simp [hh] at this

theorem Deliverable.freshStored {st : State} {b : ABlock} (d : Deliverable st b) :
    ∀ a ∈ stored st, a.hash ≠ b.hash := by
  intro a ha
  obtain ⟨e, he, rfl⟩ := List.mem_map.1 ha
  exact d.freshMem e he

theorem Deliverable.idPos {st : State} {b : ABlock} (d : Deliverable st b) : 1 ≤ b.id := by
  rcases d.parent with h | ⟨p, _, _, h⟩
  · omega
  · omega

theorem preV_blocks {st : State} {b : ABlock} (d : Deliverable st b) :
    (preV st b).blocks = st.blocks ++ [⟨b, true⟩] := by
  unfold preV
  rw [setLC_blocks]
  show List.map _ (st.blocks ++ [⟨b, false⟩]) = _
  rw [List.map_append]
  congr 1
  · conv => rhs; rw [← List.map_id st.blocks]
    apply List.map_congr_left
    intro e he
    have := d.freshMem e he
    simp [flagSet, this]
  · simp [flagSet]

theorem preV_stored {st : State} {b : ABlock} (d : Deliverable st b) : stored (preV st b) = stored st ++ [b] := by
  unfold stored; rw [preV_blocks d]; simp

theorem preV_getItem (st : State) (b : ABlock) (hb : b.id < 2 * st.gp) (s : Nat) :
    getItem (preV st b).ring s = if s = b.id then (getItem st.ring b.id).add b.id b.hash else getItem st.ring s := by
  show getItem (setItem st.ring (slotOf st b.id) ((getItem st.ring (slotOf st b.id)).add b.id b.hash)) s = _
  rw [slotOf_eq st b.id hb, getItem_setItem]

theorem InvX.preV {st : State} {lc : List ABlock} {b : ABlock} (h : InvX 0 st lc) (d : Deliverable st b) :
    InvX b.hash (preV st b) lc := by
  have hb2 : b.id < 2 * st.gp := by have := d.idLt; omega
  have hst := preV_stored d
  have hnew : ∀ e ∈ (getItem st.ring b.id).ents, e ≠ (b.hash, b.id) := by
    intro e he hh
    subst hh
    obtain ⟨_, c, hc, hc1, _⟩ := (h.store.rEnts _ _ _).1 he
    exact d.freshStored c hc hc1
  have hgp : (Saito.Chain.preV st b).gp = st.gp := rfl
  refine ⟨⟨h.store.loading, ?_, ?_, ?_, ?_, ?_, ?_, ?_⟩, ?_⟩
  · rw [hst, List.map_append, List.nodup_append]
    refine ⟨h.store.nodup, by simp, ?_⟩
    intro x hx y hy
    obtain ⟨a, ha, rfl⟩ := List.mem_map.1 hx
    have : y = b.hash := by simpa using hy
    subst this
    exact d.freshStored a ha
  · rw [hst, hgp]; intro a ha
    rcases List.mem_append.1 ha with h1 | h1
    · exact h.store.ids a h1
    · have : a = b := by simpa using h1
      subst this; exact ⟨d.hashNe, d.idPos, d.idLt⟩
  · rw [hst]; intro a ha
    simp only [List.length_append, List.length_singleton]
    rcases List.mem_append.1 ha with h1 | h1
    · have := h.store.depth a h1; omega
    · have : a = b := by simpa using h1
      subst this
      rcases d.parent with hp | ⟨p, hp, _, hid⟩
      · omega
      · have := h.store.depth p hp; omega
  · rw [hst]; intro a ha
    rcases List.mem_append.1 ha with h1 | h1
    · refine ⟨(h.store.keys a h1).1, ?_⟩
      intro b' hb' hid k hk
      rcases List.mem_append.1 hb' with h2 | h2
      · exact (h.store.keys a h1).2 b' h2 hid k hk
      · have : b' = b := by simpa using h2
        subst this
        exact fun hk' => d.keysOther a h1 (fun e => hid e.symm) k hk' hk
    · have : a = b := by simpa using h1
      subst this
      refine ⟨d.keysSelf, ?_⟩
      intro b' hb' hid k hk
      rcases List.mem_append.1 hb' with h2 | h2
      · exact d.keysOther b' h2 hid k hk
      · have : b' = a := by simpa using h2
        subst this; exact absurd rfl hid
  · intro s hh i
    rw [preV_getItem st b hb2, hst]
    by_cases hs : s = b.id
    · subst hs
      simp only [if_true, RItem.add, List.mem_append, List.mem_singleton, Prod.mk.injEq]
      rw [h.store.rEnts]
      constructor
      · rintro (⟨h1, c, hc, hc1, hc2⟩ | ⟨h1, h2⟩)
        · exact ⟨h1, c, Or.inl hc, hc1, hc2⟩
        · exact ⟨h2.symm, b, Or.inr rfl, h1.symm, h2.symm⟩
      · rintro ⟨h1, c, hc | hc, hc1, hc2⟩
        · exact Or.inl ⟨h1, c, hc, hc1, hc2⟩
        · subst hc; exact Or.inr ⟨hc1.symm, hc2.symm⟩
    · simp only [hs, if_false, List.mem_append, List.mem_singleton]
      rw [h.store.rEnts]
      constructor
      · rintro ⟨h1, c, hc, hc1, hc2⟩
        exact ⟨h1, c, Or.inl hc, hc1, hc2⟩
      · rintro ⟨h1, c, hc | hc, hc1, hc2⟩
        · exact ⟨h1, c, hc, hc1, hc2⟩
        · subst hc; exact absurd (h1.trans hc2.symm) hs
  · intro s
    rw [preV_getItem st b hb2]
    split
    · simp only [RItem.add]
      rw [List.nodup_append]
      refine ⟨h.store.rNodup _, by simp, ?_⟩
      intro x hx y hy
      have : y = (b.hash, b.id) := by simpa using hy
      subst this
      exact hnew x hx
    · exact h.store.rNodup s
  · intro he; cases he
  · constructor
    · rw [hst]; intro a ha
      rcases List.mem_append.1 ha with h1 | h1
      · rcases h.chainOk.par a h1 with h2 | h2 | ⟨p, hp, hp1, hp2⟩
        · exact Or.inl h2
        · exact absurd h2 (h.store.ids a h1).1
        · exact Or.inr (Or.inr ⟨p, by simp [hp], hp1, hp2⟩)
      · have : a = b := by simpa using h1
        subst this; exact Or.inr (Or.inl rfl)
    · rw [hst]; intro a ha; simp [h.chainOk.lcStored a ha]
    · exact h.chainOk.chain
    · exact h.chainOk.okTail
    · rw [preV_blocks d]
      intro e he
      rcases List.mem_append.1 he with h1 | h1
      · rw [h.chainOk.flags e h1]
        have h0 : e.b.hash ≠ 0 := (h.store.ids _ (mem_stored_of_mem h1)).1
        have h1' : e.b.hash ≠ b.hash := d.freshMem e h1
        simp [h0, h1']
      · have : e = ⟨b, true⟩ := by simpa using h1
        subst this; simp
    · exact h.chainOk.ledger
    · exact h.chainOk.clean
    · intro a ha
      rw [preV_getItem st b hb2]
      split
      · rename_i hs
        simp only [RItem.add]
        rw [← hs, findIdx_append_of_mem _ _ _ ⟨(a.hash, a.id),
          (h.store.rEnts _ _ _).2 ⟨rfl, a, h.chainOk.lcStored a ha, rfl, rfl⟩, rfl⟩]
        exact h.chainOk.rLc a ha
      · exact h.chainOk.rLc a ha
    · intro s hs
      rw [preV_getItem st b hb2]
      split
      · rename_i hsb
        simp only [RItem.add]
        rw [← hsb]; exact h.chainOk.rNone s hs
      · exact h.chainOk.rNone s hs
    · exact h.chainOk.rTip


/-! ### `add_block` restructured -/

/-- the part of `add_block` after the two candidate chains are known -/
def finishAdd (fl : Flags) (s2 : State) (b : ABlock) (newC oldC : List Nat) (lid2 : Nat) : State × Outcome :=
  let longest := b.id > lid2 - s2.gp && isLongest s2 newC oldC lid2
  let st := { s2 with ringEmpty := false }
  if longest then
    let st := setLC st b.hash true
    match validate fl st newC oldC with
    | none => (st, .stall)
    | some (st', true) =>
      match checkSupply st' with
      | some st'' => (st'', .addedLc)
      | none => (st', .panic)
    | some (st', false) =>
      let st' := setLC st' b.hash false
      let st' := removeB st' b.hash
      let slot := slotOf st' b.id
      let st' := { st' with ring := setItem st'.ring slot ((getItem st'.ring slot).delete fl b.id b.hash) }
      (st', .invalid)
  else (st, .addedSide)

def insBc (c : Bool) (st : State) (b : ABlock) : State :=
  let st1 := if c then st
            else { st with ring := setItem st.ring (slotOf st b.id) ((getItem st.ring (slotOf st b.id)).add b.id b.hash) }
  { st1 with blocks := st1.blocks ++ [⟨b, false⟩], amt := st1.amt ++ (b.ins.zip b.inAmts) ++ (b.outs.zip b.outAmts) }

theorem insBc_false (st : State) (b : ABlock) : insBc false st b = insB st b := rfl

def addBlock' (fl : Flags) (st : State) (b : ABlock) (queued : List Nat) : State × Outcome :=
  match latest st with
  | none => (st, .panic)
  | some (latestId, latestHash) =>
  if (getB st b.hash).isSome then (st, .exists_) else
  let parentMissing := !st.ringEmpty && (getB st b.prev).isNone
  if parentMissing && b.prev != 0 && st.loadingDone then
    if queued.contains b.prev then (st, .retryWait)
    else if b.id > maxOf 1 (latestId - st.gp) then
      let diff := if b.id ≥ latestId then b.id - latestId else latestId - b.id
      if diff < (if st.gp < 1000 then st.gp else 1000) then (st, .retryPrev) else (st, .retryChain)
    else (st, .invalid)
  else
  let st2 := insBc ((getItem st.ring (slotOf st b.id)).containsHash b.hash) st b
  let fuel := st2.blocks.length + 2
  let r := calcNew st2 fuel b.hash []
  let p : State × List Nat :=
    if r.1 then (st2, calcOld st2 r.2.1 fuel latestHash [])
    else
      let st3 :=
        if st2.ringEmpty then st2
        else
          match latest st2 with
          | some (lid, lh) =>
            if latestHash != 0 && latestHash == lh && b.id > lid - st2.gp && !fl.orphanInert then
              disconnectAbove st2 (lid - b.id) (b.id + 1)
            else st2
          | none => st2
      (st3, calcOldUpto st3 r.2.2.length fuel latestHash [])
  match latest p.1 with
  | none => (p.1, .panic)
  | some (lid2, _) => finishAdd fl p.1 b r.2.2 p.2 lid2

theorem addBlock_eq' (fl : Flags) (st : State) (b : ABlock) (q : List Nat) : addBlock fl st b q = addBlock' fl st b q := by
  unfold addBlock addBlock' finishAdd insBc
  rfl

theorem addBlock_found (fl : Flags) (st : State) (b : ABlock) (q : List Nat) (lid lh lid2 lh2 : Nat)
    (hlat : latest st = some (lid, lh)) (hfresh : getB st b.hash = none) (hload : st.loadingDone = false)
    (hnc : (getItem st.ring (slotOf st b.id)).containsHash b.hash = false)
    (shared : Nat) (newC : List Nat)
    (hcn : calcNew (insB st b) ((insB st b).blocks.length + 2) b.hash [] = (true, shared, newC))
    (hlat2 : latest (insB st b) = some (lid2, lh2)) :
    addBlock fl st b q =
      finishAdd fl (insB st b) b newC (calcOld (insB st b) shared ((insB st b).blocks.length + 2) lh []) lid2 := by
  rw [addBlock_eq']
  unfold addBlock'
  simp only [hlat, hfresh, Option.isSome_none, hload, Bool.and_false, Bool.false_eq_true, if_false, hnc,
    insBc_false, hcn, if_true, hlat2]

theorem addBlock_first (fl : Flags) (st : State) (b : ABlock) (q : List Nat) (lid lid2 lh2 : Nat)
    (hlat : latest st = some (lid, 0)) (hfresh : getB st b.hash = none) (hload : st.loadingDone = false)
    (hnc : (getItem st.ring (slotOf st b.id)).containsHash b.hash = false)
    (shared : Nat) (newC : List Nat)
    (hcn : calcNew (insB st b) ((insB st b).blocks.length + 2) b.hash [] = (false, shared, newC))
    (hlat2 : latest (insB st b) = some (lid2, lh2)) :
    addBlock fl st b q =
      finishAdd fl (insB st b) b newC (calcOldUpto (insB st b) newC.length ((insB st b).blocks.length + 2) 0 []) lid2 := by
  rw [addBlock_eq']
  unfold addBlock'
  simp only [hlat, hfresh, Option.isSome_none, hload, Bool.and_false, Bool.false_eq_true, if_false, hnc,
    insBc_false, hcn, hlat2, bne_self_eq_false, Bool.false_and]
  simp only [ite_self, hlat2]


/-! ### the two chains for a non-first delivery -/

theorem getB_insB_old (st : State) (b : ABlock) (h : Nat) (e : BEntry) (he : getB st h = some e) :
    getB (insB st b) h = some e := by
  unfold getB insB at *
  simp only [List.find?_append, he, Option.some_or]

theorem getB_insB_new {st : State} {b : ABlock} (hf : getB st b.hash = none) :
    getB (insB st b) b.hash = some ⟨b, false⟩ := by
  unfold getB insB at *
  simp only [List.find?_append, hf, Option.none_or]
  simp

theorem ChainR_append_lt {A T : List ABlock} {l : ABlock} (h : ChainR (A ++ l :: T)) : ∀ c ∈ A, l.id < c.id := by
  induction A with
  | nil => intro c hc; cases hc
  | cons a A ih =>
    intro c hc
    rcases List.mem_cons.1 hc with rfl | hc
    · exact ChainR_lt h l (by simp)
    · exact ih (ChainR_tail h) c hc

theorem ChainR_prev_mem {A T : List ABlock} {l : ABlock} (h : ChainR (A ++ l :: T)) :
    ∀ c ∈ A, ∃ d ∈ A ++ [l], c.prev = d.hash := by
  induction A with
  | nil => intro c hc; cases hc
  | cons a A ih =>
    intro c hc
    rcases List.mem_cons.1 hc with rfl | hc
    · refine ⟨A.headD l, ?_, ChainR_prev_head h⟩
      cases A <;> simp
    · obtain ⟨d, hd, e⟩ := ih (ChainR_tail h) c hc
      exact ⟨d, List.mem_cons_of_mem _ hd, e⟩

theorem blocksOf_map_hash (s : State) (L : List ABlock) (h : ∀ c ∈ L, blkOf s c.hash = some c) :
    blocksOf s (L.map (·.hash)) = L := by
  rw [blocksOf_eq]
  induction L with
  | nil => rfl
  | cons c L ih =>
    rw [List.map_cons, List.filterMap_cons, h c (by simp)]
    simp only
    rw [ih (fun c' hc' => h c' (by simp [hc']))]

theorem InvX.getB_mem {x : Nat} {st : State} {lc : List ABlock} (h : InvX x st lc) {c : ABlock} (hc : c ∈ stored st) :
    ∃ e, getB st c.hash = some e ∧ e.b = c ∧ (e.inLC = true ↔ (c ∈ lc ∨ c.hash = x)) := by
  obtain ⟨e, he, heb⟩ := getB_of_blkOf st c.hash c (blkOf_of_mem h.store.nodup hc)
  have hmem : e ∈ st.blocks := List.mem_of_find?_eq_some he
  have := h.chainOk.flags e hmem
  rw [heb] at this
  exact ⟨e, he, heb, this⟩

/-- For a delivery whose parent is stored: the fork point is on the chain (`P ≠ []`), `add_block` finds it, the
    candidate is the off-chain path `side` below `b` plus `b`, the competitor is the chain above the fork point. -/
theorem InvX.setup {st : State} {lc : List ABlock} {b : ABlock} (h : InvX 0 st lc) (d : Deliverable st b)
    (hp : ∃ p ∈ stored st, p.hash = b.prev ∧ b.id = p.id + 1) (lid lh : Nat) (hlat : Saito.Chain.latest st = some (lid, lh)) :
    ∃ (P O side : List ABlock) (shared : Nat), lc = P ++ O ∧ P ≠ [] ∧ ChainR ((b :: side) ++ P.reverse) ∧
      (∀ c ∈ side, c ∈ stored st ∧ c ∉ lc) ∧
      calcNew (insB st b) ((insB st b).blocks.length + 2) b.hash [] = (true, shared, (b :: side).map (·.hash)) ∧
      calcOld (insB st b) shared ((insB st b).blocks.length + 2) lh [] = O.reverse.map (·.hash) := by
  obtain ⟨p, hpS, hph, hpid⟩ := hp
  -- the path below `b`
  have hpath : ∃ P O side, lc = P ++ O ∧ P ≠ [] ∧ ChainR ((b :: side) ++ P.reverse) ∧
      (∀ c ∈ side, c ∈ stored st ∧ c ∉ lc) := by
    by_cases hpl : p ∈ lc
    · obtain ⟨s, t, rfl⟩ := List.append_of_mem hpl
      refine ⟨s ++ [p], t, [], by simp, by simp, ?_, fun c hc => by cases hc⟩
      have hc : ChainR (t.reverse ++ p :: s.reverse) := by simpa using h.chainOk.chain
      have hc' := ChainR_of_append hc
      simp only [List.reverse_append, List.reverse_cons, List.reverse_nil, List.nil_append, List.cons_append]
      exact ⟨hph.symm, hpid, hc'⟩
    · obtain ⟨P, O, side, e1, e2, e3, e4⟩ := h.path p.id p (Nat.le_refl _) hpS hpl
      exact ⟨P, O, p :: side, e1, e2, ⟨hph.symm, hpid, e3⟩, e4⟩
  obtain ⟨P, O, side, e1, e2, e3, e4⟩ := hpath
  obtain ⟨l, T, hlT⟩ : ∃ l T, P.reverse = l :: T := by
    cases hr : P.reverse with
    | nil => exact absurd (List.reverse_eq_nil_iff.1 hr) e2
    | cons l T => exact ⟨l, T, rfl⟩
  have hlP : l ∈ P := by rw [← List.mem_reverse, hlT]; simp
  have hlc : l ∈ lc := by rw [e1]; simp [hlP]
  have hlen : (insB st b).blocks.length = (stored st).length + 1 := by simp [insB, stored]
  refine ⟨P, O, side, l.hash, e1, e2, e3, e4, ?_, ?_⟩
  · obtain ⟨el, hel, helb, hef⟩ := h.getB_mem (h.chainOk.lcStored l hlc)
    have hw := calcNew_walk (insB st b) l T el (getB_insB_old st b _ _ hel) (hef.2 (Or.inl hlc))
      (b :: side) ((insB st b).blocks.length + 2) [] ?_ (by rw [← hlT]; exact e3) ?_
    · simpa using hw
    · have h1 : b.id = (side ++ P.reverse).length + 1 := ChainR_id e3
      have h2 := h.store.depth p hpS
      rw [hlen]
      rw [List.length_append, List.length_reverse] at h1
      simp only [List.length_cons]
      have : 0 < P.length := List.length_pos_iff.2 e2
      omega
    · intro c hc
      rcases List.mem_cons.1 hc with rfl | hc
      · exact ⟨d.hashNe, _, getB_insB_new d.fresh, rfl, rfl⟩
      · obtain ⟨hcS, hcl⟩ := e4 c hc
        obtain ⟨e, he, heb, hef⟩ := h.getB_mem hcS
        have h0 := (h.store.ids c hcS).1
        refine ⟨h0, e, getB_insB_old st b _ _ he, heb, ?_⟩
        cases hfl : e.inLC with
        | false => rfl
        | true => rcases hef.1 hfl with h1 | h1 <;> contradiction
  · have hrev : lc.reverse = O.reverse ++ l :: T := by rw [e1, List.reverse_append, hlT]
    have hch : ChainR (O.reverse ++ l :: T) := by rw [← hrev]; exact h.chainOk.chain
    have hlast : lc.getLast? = some (O.reverse.headD l) := by
      rw [← List.head?_reverse, hrev]
      cases O.reverse <;> rfl
    have hlh : lh = (O.reverse.headD l).hash := by
      have := h.latest
      rw [hlast, hlat] at this
      simp only [Option.some.injEq, Prod.mk.injEq] at this
      exact this.2
    rw [hlh]
    have hw := calcOld_walk (insB st b) l T O.reverse ((insB st b).blocks.length + 2) [] ?_ hch ?_
    · simpa using hw
    · obtain ⟨t, r, htr⟩ : ∃ t r, lc.reverse = t :: r := by
        cases hr : lc.reverse with
        | nil => rw [hrev] at hr; exact absurd hr (by simp)
        | cons t r => exact ⟨t, r, rfl⟩
      have h1 : ChainR (t :: r) := by rw [← htr]; exact h.chainOk.chain
      have h2 := ChainR_id h1
      have h3 : t ∈ lc := by rw [← List.mem_reverse, htr]; simp
      have h4 := h.store.depth t (h.chainOk.lcStored t h3)
      have h5 : lc.length = r.length + 1 := by rw [← List.length_reverse, htr]; rfl
      have h6 : O.reverse.length ≤ lc.length := by rw [e1]; simp
      rw [hlen]; omega
    · intro c hc
      have hcO : c ∈ O := by simpa using hc
      have hcl : c ∈ lc := by rw [e1]; simp [hcO]
      have hcS := h.chainOk.lcStored c hcl
      have hlt := ChainR_append_lt hch c hc
      refine ⟨?_, ?_, ?_⟩
      · intro hh
        have := h.store.uniq hcS (h.chainOk.lcStored l hlc) hh
        rw [this] at hlt; exact Nat.lt_irrefl _ hlt
      · obtain ⟨dd, hd, hdp⟩ := ChainR_prev_mem hch c hc
        have hdl : dd ∈ lc := by
          rw [e1]
          rcases List.mem_append.1 hd with h1 | h1
          · simp at h1; simp [h1]
          · have : dd = l := by simpa using h1
            subst this; simp [hlP]
        rw [hdp]; exact (h.store.ids dd (h.chainOk.lcStored dd hdl)).1
      · obtain ⟨e, he, heb, _⟩ := h.getB_mem hcS
        exact ⟨e, getB_insB_old st b _ _ he, heb⟩


/-! ### `validate` on the state `add_block` hands it -/

theorem Frame.validate (fl : Flags) (hf : fl.windFailureRestores = true) (s : State) (newC oldC : List Nat)
    (hres : ∀ h ∈ newC ++ oldC, (blkOf s h).isSome) :
    ∃ r, Saito.Chain.validate fl s newC oldC = some r ∧ Frame s r.1 ∧
      (r = (s, false) ∨ r = Saito.Chain.reorgSpec (validB fl) (blocksOf s newC).reverse (blocksOf s oldC) s) := by
  obtain ⟨r, hr, hcase⟩ := validate_refines fl hf s newC oldC hres
  refine ⟨r, hr, ?_, hcase⟩
  rcases hcase with h1 | h1
  · rw [h1]; exact Frame.refl s
  · rw [h1]; exact Frame.reorgSpec _ _ _ _

theorem InvX.validate_found {st : State} {lc : List ABlock} {b : ABlock} (fl : Flags)
    (hf : fl.windFailureRestores = true) (hv : fl.txVerdict = true)
    (h : InvX 0 st lc) (d : Deliverable st b) {P O side : List ABlock}
    (e1 : lc = P ++ O) (e2 : P ≠ []) (e3 : ChainR ((b :: side) ++ P.reverse))
    (e4 : ∀ c ∈ side, c ∈ stored st ∧ c ∉ lc) :
    ∃ r, Saito.Chain.validate fl (Saito.Chain.preV st b) ((b :: side).map (·.hash)) (O.reverse.map (·.hash)) = some r ∧
      Frame (Saito.Chain.preV st b) r.1 ∧
      (r.2 = true → InvX 0 r.1 (P ++ (side.reverse ++ [b]))) ∧ (r.2 = false → InvX b.hash r.1 lc) := by
  have hpre := h.preV d
  have hst := preV_stored d
  have hblk : ∀ c ∈ stored st ++ [b], blkOf (Saito.Chain.preV st b) c.hash = some c := by
    intro c hc; exact blkOf_of_mem hpre.store.nodup (by rw [hst]; exact hc)
  have hsideS : ∀ c ∈ b :: side, c ∈ stored st ++ [b] := by
    intro c hc
    rcases List.mem_cons.1 hc with rfl | hc
    · simp
    · simp [(e4 c hc).1]
  have hOS : ∀ c ∈ O.reverse, c ∈ stored st ++ [b] := by
    intro c hc
    have : c ∈ lc := by rw [e1]; simp [List.mem_reverse.1 hc]
    simp [h.chainOk.lcStored c this]
  have hbn := blocksOf_map_hash (Saito.Chain.preV st b) (b :: side) (fun c hc => hblk c (hsideS c hc))
  have hbo := blocksOf_map_hash (Saito.Chain.preV st b) O.reverse (fun c hc => hblk c (hOS c hc))
  obtain ⟨r, hr, hfr, hcase⟩ := Frame.validate fl hf (Saito.Chain.preV st b) ((b :: side).map (·.hash))
    (O.reverse.map (·.hash)) (by
      intro hh hmem
      rcases List.mem_append.1 hmem with h1 | h1
      · obtain ⟨c, hc, rfl⟩ := List.mem_map.1 h1
        rw [hblk c (hsideS c hc)]; rfl
      · obtain ⟨c, hc, rfl⟩ := List.mem_map.1 h1
        rw [hblk c (hOS c hc)]; rfl)
  refine ⟨r, hr, hfr, ?_⟩
  rcases hcase with h1 | h1
  · rw [h1]
    exact ⟨fun hh => by simp at hh, fun _ => hpre⟩
  · rw [hbn, hbo] at h1
    have hrev : (b :: side).reverse = side.reverse ++ [b] := by simp
    rw [hrev] at h1
    have hpre' : InvX b.hash (Saito.Chain.preV st b) (P ++ O) := e1 ▸ hpre
    have := hpre'.reorgSpec fl hv (N := side.reverse ++ [b]) e2 (by simpa using e3)
      (fun c hc => by
        rw [hst]
        rcases List.mem_append.1 hc with h2 | h2
        · exact hsideS c (by simp [List.mem_reverse.1 h2])
        · have : c = b := by simpa using h2
          subst this; simp)
      (fun c hc => d.freshStored c (h.chainOk.lcStored c (by rw [e1]; simp [hc])))
      (by
        intro pre rest hsplit hrest a ha
        have hr2 : rest = rest.dropLast ++ [rest.getLast hrest] := (List.dropLast_concat_getLast hrest).symm
        rw [hr2, ← List.append_assoc] at hsplit
        have := List.append_inj_left' hsplit (by simp)
        have ha' : a ∈ side.reverse := by rw [this]; simp [ha]
        exact d.freshStored a (e4 a (List.mem_reverse.1 ha')).1)
    rw [← h1] at this
    refine ⟨fun hh => ?_, fun hh => e1 ▸ this.2 hh⟩
    apply (this.1 hh).dropX
    intro c hc hch
    rw [hfr.stor, hst] at hc
    rcases List.mem_append.1 hc with h2 | h2
    · exact absurd hch (d.freshStored c h2)
    · have : c = b := by simpa using h2
      subst this; simp

theorem InvX.validate_first {st : State} {lc : List ABlock} {b : ABlock} (fl : Flags)
    (hf : fl.windFailureRestores = true)
    (h : InvX 0 st lc) (d : Deliverable st b)
    (hfirst : stored st = [] ∧ b.id = 1 ∧ b.ins = [] ∧ b.prev ≠ b.hash) :
    lc = [] ∧
    ∃ r, Saito.Chain.validate fl (Saito.Chain.preV st b) [b.hash] [] = some r ∧
      Frame (Saito.Chain.preV st b) r.1 ∧
      (r.2 = true → InvX 0 r.1 [b]) ∧ (r.2 = false → InvX b.hash r.1 lc) := by
  have hlc : lc = [] := by
    cases lc with
    | nil => rfl
    | cons a lc => have := h.chainOk.lcStored a (by simp); rw [hfirst.1] at this; cases this
  subst hlc
  refine ⟨rfl, ?_⟩
  have hpre := h.preV d
  have hst := preV_stored d
  rw [hfirst.1, List.nil_append] at hst
  have hblk : blkOf (Saito.Chain.preV st b) b.hash = some b := blkOf_of_mem hpre.store.nodup (by rw [hst]; simp)
  have hbn : blocksOf (Saito.Chain.preV st b) [b.hash] = [b] :=
    blocksOf_map_hash (Saito.Chain.preV st b) [b] (fun c hc => by
      have : c = b := by simpa using hc
      subst this; exact hblk)
  obtain ⟨r, hr, hfr, hcase⟩ := Frame.validate fl hf (Saito.Chain.preV st b) [b.hash] [] (by
    intro hh hmem
    have : hh = b.hash := by simpa using hmem
    subst this; rw [hblk]; rfl)
  refine ⟨r, hr, hfr, ?_⟩
  rcases hcase with h1 | h1
  · rw [h1]
    exact ⟨fun hh => by simp at hh, fun _ => hpre⟩
  · rw [hbn] at h1
    have hb : blocksOf (Saito.Chain.preV st b) [] = [] := rfl
    rw [hb] at h1
    have hw := hpre.wind (b := b) (by rw [hst]; simp) (by simpa [ChainR] using hfirst.2.1)
      ⟨by rw [hfirst.2.2.1]; intro k hk; simp at hk, by intro k _ hk; simp [replay, replayFrom] at hk, d.keysSelf⟩
      (fun hne => absurd rfl hne)
    simp only [Saito.Chain.reorgSpec, finishV, specWound, List.reverse_cons, List.reverse_nil, List.nil_append,
      List.foldl_nil, windAllV] at h1
    split at h1
    · simp only [if_true] at h1
      rw [h1]
      refine ⟨fun _ => ?_, fun hh => by simp at hh⟩
      apply (by simpa using hw : InvX b.hash (windBlock (Saito.Chain.preV st b) b) [b]).dropX
      intro c hc _
      rw [stored_windBlock, hst] at hc
      simpa using hc
    · simp only [Bool.false_eq_true, if_false, restoreFrom, List.reverse_nil, List.foldl_nil, windAllV] at h1
      rw [h1]
      exact ⟨fun hh => by simp at hh, fun _ => hpre⟩


/-! ### the rejected block is removed: the state is what it was -/

/-- what `add_block` does after `validate` has answered `false` -/
def cleanup (fl : Flags) (b : ABlock) (st' : State) : State :=
  let s := removeB (setLC st' b.hash false) b.hash
  { s with ring := setItem s.ring (slotOf s b.id) ((getItem s.ring (slotOf s b.id)).delete fl b.id b.hash) }

theorem blocks_canonical (lc : List ABlock) (l : List BEntry) (h : ∀ e ∈ l, (e.inLC = true ↔ e.b ∈ lc)) :
    l = (l.map (·.b)).map (fun c => ⟨c, decide (c ∈ lc)⟩) := by
  rw [List.map_map]
  conv => lhs; rw [← List.map_id l]
  apply List.map_congr_left
  intro e he
  have := h e he
  cases e with
  | mk c f =>
    simp only [id, Function.comp, BEntry.mk.injEq, true_and]
    cases f <;> simp_all

theorem RItem.ext' (a b : RItem) (h1 : a.lc = b.lc) (h2 : a.ents = b.ents) : a = b := by
  cases a; cases b; simp_all

theorem cleanup_exact (fl : Flags) (hd : fl.ringDeleteKeepsNone = true) {st st' : State} {lc : List ABlock} {b : ABlock}
    (h : InvX 0 st lc) (d : Deliverable st b) (hx : InvX b.hash st' lc) (hfr : Frame (preV st b) st') :
    (cleanup fl b st').blocks = st.blocks ∧ (∀ s, getItem (cleanup fl b st').ring s = getItem st.ring s) ∧
      (cleanup fl b st').ringLc = st.ringLc ∧ SameSet (cleanup fl b st').utxo st.utxo ∧
      (cleanup fl b st').gp = st.gp ∧ (cleanup fl b st').loadingDone = st.loadingDone := by
  have hb2 : b.id < 2 * st.gp := by have := d.idLt; omega
  have hgp : st'.gp = st.gp := hfr.gp
  have hbl : b ∉ lc := fun hb => d.freshStored b (h.chainOk.lcStored b hb) rfl
  refine ⟨?_, ?_, ?_, ?_, hgp, ?_⟩
  · -- blocks
    show (st'.blocks.map (flagSet b.hash false)).filter (·.b.hash != b.hash) = st.blocks
    have e1 : (st'.blocks.map (flagSet b.hash false)).filter (·.b.hash != b.hash) =
        st'.blocks.filter (·.b.hash != b.hash) := by
      generalize st'.blocks = l
      induction l with
      | nil => rfl
      | cons e l ih =>
        rw [List.map_cons, List.filter_cons, List.filter_cons, flagSet_b, ih]
        by_cases hh : e.b.hash = b.hash
        · simp [hh]
        · simp [hh, flagSet]
    rw [e1]
    have hstor : (st'.blocks.filter (·.b.hash != b.hash)).map (·.b) = stored st := by
      have : (st'.blocks.filter (·.b.hash != b.hash)).map (·.b) = (stored st').filter (·.hash != b.hash) := by
        unfold stored; rw [List.filter_map]; rfl
      rw [this, hfr.stor, preV_stored d, List.filter_append]
      have h1 : (stored st).filter (·.hash != b.hash) = stored st := by
        apply List.filter_eq_self.2
        intro a ha; simpa using d.freshStored a ha
      rw [h1]; simp
    rw [blocks_canonical lc (st'.blocks.filter (·.b.hash != b.hash)) (by
        intro e he
        obtain ⟨he1, he2⟩ := List.mem_filter.1 he
        rw [hx.chainOk.flags e he1]
        have : e.b.hash ≠ b.hash := by simpa using he2
        simp [this]),
      hstor]
    conv => rhs; rw [blocks_canonical lc st.blocks (by
        intro e he
        rw [h.chainOk.flags e he]
        have := (h.store.ids _ (mem_stored_of_mem he)).1
        simp [this])]
    rfl
  · -- items
    intro s
    have hslot : slotOf (removeB (setLC st' b.hash false) b.hash) b.id = b.id := by
      show b.id % (2 * st'.gp) = b.id
      rw [hgp]; exact Nat.mod_eq_of_lt hb2
    show getItem (setItem st'.ring (slotOf (removeB (setLC st' b.hash false) b.hash) b.id)
      ((getItem st'.ring (slotOf (removeB (setLC st' b.hash false) b.hash) b.id)).delete fl b.id b.hash)) s = _
    rw [hslot, getItem_setItem]
    have hents : ∀ s, (getItem st'.ring s).ents =
        if s = b.id then (getItem st.ring b.id).ents ++ [(b.hash, b.id)] else (getItem st.ring s).ents := by
      intro s
      rw [hfr.ents s, preV_getItem st b hb2 s]
      split <;> rfl
    -- the on-chain mark of every slot is determined by the chain and the entries
    have hlc : ∀ s, (getItem st'.ring s).lc = (getItem st.ring s).lc := by
      intro s
      by_cases hex : ∃ a ∈ lc, a.id = s
      · obtain ⟨a, ha, rfl⟩ := hex
        rw [hx.chainOk.rLc a ha, h.chainOk.rLc a ha, hents]
        split
        · rename_i hs
          rw [← hs]
          exact findIdx_append_of_mem _ _ _ ⟨(a.hash, a.id),
            (h.store.rEnts _ _ _).2 ⟨rfl, a, h.chainOk.lcStored a ha, rfl, rfl⟩, rfl⟩
        · rfl
      · have hn : ∀ a ∈ lc, a.id ≠ s := fun a ha e => hex ⟨a, ha, e⟩
        rw [hx.chainOk.rNone s hn, h.chainOk.rNone s hn]
    split
    · rename_i hs
      subst hs
      have hit : getItem st'.ring b.id = (getItem st.ring b.id).add b.id b.hash := by
        apply RItem.ext'
        · rw [hlc]; rfl
        · rw [hents, if_pos rfl]; rfl
      rw [hit]
      apply RItem.delete_add fl hd
      · intro e he hh
        obtain ⟨_, c, hc, hc1, _⟩ := (h.store.rEnts b.id e.1 e.2).1 he
        exact d.freshStored c hc (hc1.trans hh.2)
      · intro p hp
        by_cases hex : ∃ a ∈ lc, a.id = b.id
        · obtain ⟨a, ha, hab⟩ := hex
          have := h.chainOk.rLc a ha
          rw [hab, hp] at this
          exact findIdx_lt _ _ _ this.symm
        · have hn : ∀ a ∈ lc, a.id ≠ b.id := fun a ha e => hex ⟨a, ha, e⟩
          rw [h.chainOk.rNone b.id hn] at hp; cases hp
    · rename_i hs
      apply RItem.ext'
      · exact hlc s
      · rw [hents, if_neg hs]
  · show st'.ringLc = st.ringLc
    rw [hx.chainOk.rTip, h.chainOk.rTip]
  · show SameSet st'.utxo st.utxo
    exact hx.chainOk.ledger.trans h.chainOk.ledger.symm
  · show st'.loadingDone = st.loadingDone
    rw [hfr.loading]; rfl

/-- … hence the invariant holds again, for the same chain -/
theorem cleanup_inv (fl : Flags) (hd : fl.ringDeleteKeepsNone = true) {st st' : State} {lc : List ABlock} {b : ABlock}
    (h : InvX 0 st lc) (d : Deliverable st b) (hx : InvX b.hash st' lc) (hfr : Frame (preV st b) st') :
    InvX 0 (cleanup fl b st') lc := by
  obtain ⟨e1, e2, e3, e4, e5, e6⟩ := cleanup_exact fl hd h d hx hfr
  refine h.congr e1 e2 e3 e4 e5 e6 ?_
  intro he
  have : (cleanup fl b st').ringEmpty = st'.ringEmpty := rfl
  rw [this, hfr.rempty] at he
  cases he


/-! ### the block stays off the chain -/

theorem InvX.sideV {st : State} {lc : List ABlock} {b : ABlock} (h : InvX 0 st lc) (d : Deliverable st b)
    (hp : ∃ p ∈ stored st, p.hash = b.prev ∧ b.id = p.id + 1) :
    InvX 0 { insB st b with ringEmpty := false } lc := by
  have hpre := h.preV d
  have hst : stored { insB st b with ringEmpty := false } = stored st ++ [b] := by simp [stored, insB]
  have hst' := preV_stored d
  have hring : ∀ s, getItem ({ insB st b with ringEmpty := false } : State).ring s = getItem (Saito.Chain.preV st b).ring s :=
    fun _ => rfl
  refine ⟨hpre.store.transfer (hst.trans hst'.symm) rfl rfl (fun he => by cases he) (fun s => by rw [hring]), ?_⟩
  constructor
  · rw [hst]; intro a ha
    rcases List.mem_append.1 ha with h1 | h1
    · rcases h.chainOk.par a h1 with h2 | h2 | ⟨p, hp', hp1, hp2⟩
      · exact Or.inl h2
      · exact Or.inr (Or.inl h2)
      · exact Or.inr (Or.inr ⟨p, by simp [hp'], hp1, hp2⟩)
    · have : a = b := by simpa using h1
      subst this
      obtain ⟨p, hp', hp1, hp2⟩ := hp
      exact Or.inr (Or.inr ⟨p, by simp [hp'], hp1, hp2⟩)
  · rw [hst]; intro a ha; simp [h.chainOk.lcStored a ha]
  · exact h.chainOk.chain
  · exact h.chainOk.okTail
  · show ∀ e ∈ st.blocks ++ [⟨b, false⟩], _
    intro e he
    rcases List.mem_append.1 he with h1 | h1
    · exact h.chainOk.flags e h1
    · have : e = ⟨b, false⟩ := by simpa using h1
      subst this
      have hbl : b ∉ lc := fun hb => d.freshStored b (h.chainOk.lcStored b hb) rfl
      simp [hbl, d.hashNe]
  · exact h.chainOk.ledger
  · exact h.chainOk.clean
  · intro a ha; rw [hring]; exact hpre.chainOk.rLc a ha
  · intro s hs; rw [hring]; exact hpre.chainOk.rNone s hs
  · exact h.chainOk.rTip

theorem checkSupply_cases (s s' : State) (h : checkSupply s = some s') :
    s' = s ∨ ∃ c, s' = { s with initSupply := c } := by
  unfold checkSupply at h
  split at h
  · left; exact (Option.some.inj h).symm
  · split at h
    · cases h
    · split at h
      · cases h
      · dsimp only at h
        split at h
        · right; exact ⟨_, (Option.some.inj h).symm⟩
        · split at h
          · cases h
          · left; exact (Option.some.inj h).symm

theorem InvX.checkSupply {x : Nat} {s s' : State} {lc : List ABlock} (h : InvX x s lc)
    (hc : Saito.Chain.checkSupply s = some s') : InvX x s' lc := by
  rcases checkSupply_cases s s' hc with rfl | ⟨c, rfl⟩
  · exact h
  · exact h.congr rfl (fun _ => rfl) rfl (SameSet.refl _) rfl rfl (fun he => he)

/-! ### the outcomes of `add_block` for a non-orphan delivery -/

/-- "as before the call": store (with flags), every item of the by-height index, tip pointer, spendable set -/
def SameObs (st st' : State) : Prop :=
  st'.blocks = st.blocks ∧ (∀ s, getItem st'.ring s = getItem st.ring s) ∧ st'.ringLc = st.ringLc ∧
    SameSet st'.utxo st.utxo ∧ st'.gp = st.gp ∧ st'.loadingDone = st.loadingDone

theorem finishAdd_cases (fl : Flags) (hd : fl.ringDeleteKeepsNone = true) {st : State} {lc lcS : List ABlock}
    {b : ABlock} (h : InvX 0 st lc) (d : Deliverable st b) (newC oldC : List Nat) (lid2 : Nat)
    (hval : ∃ r, validate fl (preV st b) newC oldC = some r ∧ Frame (preV st b) r.1 ∧
      (r.2 = true → InvX 0 r.1 lcS) ∧ (r.2 = false → InvX b.hash r.1 lc))
    (hside : (decide (b.id > lid2 - (insB st b).gp) && isLongest (insB st b) newC oldC lid2) = false →
      InvX 0 { insB st b with ringEmpty := false } lc) :
    ((finishAdd fl (insB st b) b newC oldC lid2).2 = .addedSide ∧ InvX 0 (finishAdd fl (insB st b) b newC oldC lid2).1 lc) ∨
    ((finishAdd fl (insB st b) b newC oldC lid2).2 = .invalid ∧ InvX 0 (finishAdd fl (insB st b) b newC oldC lid2).1 lc ∧
      SameObs st (finishAdd fl (insB st b) b newC oldC lid2).1) ∨
    (((finishAdd fl (insB st b) b newC oldC lid2).2 = .addedLc ∨ (finishAdd fl (insB st b) b newC oldC lid2).2 = .panic) ∧
      InvX 0 (finishAdd fl (insB st b) b newC oldC lid2).1 lcS ∧ isLongest (insB st b) newC oldC lid2 = true) := by
  obtain ⟨r, hr, hfr, ht, hfa⟩ := hval
  have hpv : setLC { insB st b with ringEmpty := false } b.hash true = preV st b := rfl
  unfold finishAdd
  simp only [hpv, hr]
  cases hl : (decide (b.id > lid2 - (insB st b).gp) && isLongest (insB st b) newC oldC lid2)
  · left
    simp only [Bool.false_eq_true, if_false]
    exact ⟨trivial, hside hl⟩
  · right
    simp only [if_true]
    have hlong : isLongest (insB st b) newC oldC lid2 = true := by
      simp only [Bool.and_eq_true] at hl; exact hl.2
    obtain ⟨s', v⟩ := r
    cases v with
    | false =>
      left
      have hx := hfa rfl
      exact ⟨rfl, cleanup_inv fl hd h d hx hfr, cleanup_exact fl hd h d hx hfr⟩
    | true =>
      right
      have hx := ht rfl
      simp only
      cases hcs : Saito.Chain.checkSupply s' with
      | none => exact ⟨Or.inr rfl, hx, hlong⟩
      | some s'' => exact ⟨Or.inl rfl, hx.checkSupply hcs, hlong⟩


theorem isLongest_len (s : State) (n o : List Nat) (l : Nat) (h : isLongest s n o l = true) :
    s.ringEmpty = true ∨ o.length < n.length := by
  unfold isLongest at h
  split at h
  · left; assumption
  · right
    split at h
    · simp at h
    · split at h
      · simp at h
      · split at h
        · simp at h
        · split at h
          · simp at h
          · simp only [Bool.and_eq_true, decide_eq_true_eq] at h
            exact h.1

theorem InvX.notContains {st : State} {lc : List ABlock} {b : ABlock} (h : InvX 0 st lc) (d : Deliverable st b) :
    (getItem st.ring (slotOf st b.id)).containsHash b.hash = false := by
  unfold RItem.containsHash
  rw [List.any_eq_false]
  intro e he
  have he' : (e.1, e.2) ∈ (getItem st.ring (slotOf st b.id)).ents := he
  obtain ⟨_, c, hc, hc1, _⟩ := (h.store.rEnts _ _ _).1 he'
  have := d.freshStored c hc
  rw [hc1] at this
  simpa using this

/-- **The outcomes of `add_block` for a non-orphan delivery.**  Exactly one of:
    * `addedSide`: the invariant holds for the same chain;
    * `invalid`: the invariant holds for the same chain and the observable state is what it was (`SameObs`);
    * `addedLc` (or the supply-audit `panic`, which happens after the reorganisation): the chain `P ++ O` became
      `P ++ N` with `N` ending in `b` and strictly longer than `O`. -/
theorem addBlock_cases (fl : Flags) (hd : fl.ringDeleteKeepsNone = true) (hf : fl.windFailureRestores = true)
    (hv : fl.txVerdict = true) {st : State} {lc : List ABlock} {b : ABlock} (h : InvX 0 st lc)
    (d : Deliverable st b) (q : List Nat) :
    ((addBlock fl st b q).2 = .addedSide ∧ InvX 0 (addBlock fl st b q).1 lc) ∨
    ((addBlock fl st b q).2 = .invalid ∧ InvX 0 (addBlock fl st b q).1 lc ∧ SameObs st (addBlock fl st b q).1) ∨
    (((addBlock fl st b q).2 = .addedLc ∨ (addBlock fl st b q).2 = .panic) ∧
      ∃ P O N, lc = P ++ O ∧ InvX 0 (addBlock fl st b q).1 (P ++ N) ∧ O.length < N.length ∧ N.getLast? = some b ∧
        ∀ c ∈ N.dropLast, c ∈ stored st ∧ c ∉ lc) := by
  obtain ⟨lid, lh, hlat⟩ : ∃ lid lh, latest st = some (lid, lh) := ⟨_, _, h.latest⟩
  have hpre := h.preV d
  have hlat2 : latest (insB st b) = some (lid, lh) := by
    have e : latest (insB st b) = latest (preV st b) := rfl
    rw [e, hpre.latest, ← h.latest, hlat]
  have hnc := h.notContains d
  rcases d.parent with hfirst | hp
  · -- first block
    obtain ⟨hlc, hval⟩ := h.validate_first fl hf d hfirst
    subst hlc
    have hl0 : lid = 0 ∧ lh = 0 := by
      have := h.latest
      rw [hlat] at this
      simpa using this
    obtain ⟨rfl, rfl⟩ := hl0
    have hbl : st.blocks = [] := by
      have := hfirst.1; unfold stored at this; simpa using this
    have hgn : getB (insB st b) b.hash = some ⟨b, false⟩ := getB_insB_new d.fresh
    have hgp : getB (insB st b) b.prev = none := by
      unfold getB insB
      simp only [hbl, List.nil_append, List.find?_cons, List.find?_nil]
      have : (b.hash == b.prev) = false := by simpa using fun e => hfirst.2.2.2 e.symm
      simp [this]
    have hg0 : getB (insB st b) 0 = none := by
      unfold getB insB
      simp only [hbl, List.nil_append, List.find?_cons, List.find?_nil]
      have : (b.hash == 0) = false := by simpa using d.hashNe
      simp [this]
    have hlen : (insB st b).blocks.length + 2 = 3 := by simp [insB, hbl]
    have hcn : calcNew (insB st b) ((insB st b).blocks.length + 2) b.hash [] = (false, b.prev, [b.hash]) := by
      rw [hlen]
      have : (b.hash == 0) = false := by simpa using d.hashNe
      simp [calcNew, hgn, hgp, this]
    have hco : calcOldUpto (insB st b) [b.hash].length ((insB st b).blocks.length + 2) 0 [] = [] := by
      rw [hlen]
      simp [calcOldUpto, hg0]
    rw [addBlock_first fl st b q 0 0 0 hlat d.fresh h.store.loading hnc b.prev [b.hash] hcn hlat2, hco]
    have hlong : (decide (b.id > 0 - (insB st b).gp) && isLongest (insB st b) [b.hash] [] 0) = true := by
      have h2 : isLongest (insB st b) [b.hash] [] 0 = true := by
        unfold isLongest
        split
        · rfl
        · simp [hgn, hfirst.2.1, sumBf]
      simp [h2, hfirst.2.1]
    rcases finishAdd_cases fl hd h d [b.hash] [] 0 (lcS := [b]) hval
      (fun hl => by rw [hlong] at hl; cases hl) with h1 | h1 | ⟨h1, h2, _⟩
    · exact Or.inl h1
    · exact Or.inr (Or.inl h1)
    · exact Or.inr (Or.inr ⟨h1, [], [], [b], rfl, by simpa using h2, by simp, rfl, by simp⟩)
  · -- the parent is stored
    obtain ⟨P, O, side, shared, e1, e2, e3, e4, hcn, hco⟩ := h.setup d hp lid lh hlat
    rw [addBlock_found fl st b q lid lh lid lh hlat d.fresh h.store.loading hnc shared _ hcn hlat2, hco]
    have hval := h.validate_found fl hf hv d e1 e2 e3 e4
    rcases finishAdd_cases fl hd h d ((b :: side).map (·.hash)) (O.reverse.map (·.hash)) lid
      (lcS := P ++ (side.reverse ++ [b])) hval (fun _ => h.sideV d hp) with h1 | h1 | ⟨h1, h2, h3⟩
    · exact Or.inl h1
    · exact Or.inr (Or.inl h1)
    · refine Or.inr (Or.inr ⟨h1, P, O, side.reverse ++ [b], e1, h2, ?_, by simp, by simpa using e4⟩)
      rcases isLongest_len _ _ _ _ h3 with h4 | h4
      · have : (insB st b).ringEmpty = st.ringEmpty := rfl
        rw [this] at h4
        obtain ⟨p, hpS, _⟩ := hp
        rw [h.store.rEmpty h4] at hpS; cases hpS
      · simpa using h4


/-! ### the invariant and its observable content -/

/-- **The state invariant**: some list `lc` of stored blocks (oldest first) is the longest chain of `st`
    (see `StInv.observables` for what that says about `lcDump`, `latest`, the flags, the ledger and `ringDump`). -/
def StInv (st : State) : Prop := ∃ lc, InvX 0 st lc

theorem ChainR_getElem {R : List ABlock} (h : ChainR R) : ∀ (k : Nat) (hk : k < R.length), R[k].id = R.length - k := by
  induction R with
  | nil => intro k hk; cases hk
  | cons b r ih =>
    intro k hk
    cases k with
    | zero => simp [ChainR_id h]
    | succ k => simp only [List.getElem_cons_succ, List.length_cons]; rw [ih (ChainR_tail h) k (by simpa using hk)]; omega

/-- ids along the chain (oldest first) are `1, 2, 3, …` -/
theorem ChainR_ids {lc : List ABlock} (h : ChainR lc.reverse) (k : Nat) (hk : k < lc.length) : lc[k].id = k + 1 := by
  have h1 := ChainR_getElem h (lc.length - 1 - k) (by simp; omega)
  rw [List.getElem_reverse] at h1
  simp only [List.length_reverse] at h1
  have e : lc.length - 1 - (lc.length - 1 - k) = k := by omega
  simp only [e] at h1
  rw [h1]; omega

theorem ChainR_link_aux {R : List ABlock} (h : ChainR R) :
    ∀ (k : Nat) (hk : k + 1 < R.length), R[k].prev = R[k + 1].hash := by
  induction R with
  | nil => intro k hk; cases hk
  | cons b r ih =>
    intro k hk
    cases r with
    | nil => simp at hk
    | cons a r =>
      cases k with
      | zero => exact h.1
      | succ k => exact ih h.2.2 k (by simpa using hk)

/-- consecutive blocks of the chain (oldest first) are parent and child -/
theorem ChainR_link {lc : List ABlock} (h : ChainR lc.reverse) (k : Nat) (hk : k + 1 < lc.length) :
    lc[k + 1].prev = lc[k].hash := by
  have h1 := ChainR_link_aux h (lc.length - 2 - k) (by simp; omega)
  rw [List.getElem_reverse, List.getElem_reverse] at h1
  have e1 : lc.length - 1 - (lc.length - 2 - k) = k + 1 := by omega
  have e2 : lc.length - 1 - (lc.length - 2 - k + 1) = k := by omega
  simp only [e1, e2] at h1
  exact h1

theorem maxId_ge_aux (l : List BEntry) (a : Nat) :
    a ≤ l.foldl (fun a e => maxOf a e.b.id) a ∧ ∀ e ∈ l, e.b.id ≤ l.foldl (fun a e => maxOf a e.b.id) a := by
  induction l generalizing a with
  | nil => exact ⟨Nat.le_refl _, fun e he => by cases he⟩
  | cons x l ih =>
    obtain ⟨h1, h2⟩ := ih (maxOf a x.b.id)
    have hm : a ≤ maxOf a x.b.id ∧ x.b.id ≤ maxOf a x.b.id := by
      unfold maxOf; split <;> constructor <;> omega
    refine ⟨Nat.le_trans hm.1 h1, ?_⟩
    intro e he
    rcases List.mem_cons.1 he with rfl | he
    · exact Nat.le_trans hm.2 h1
    · exact h2 e he

theorem maxId_ge (st : State) : ∀ e ∈ st.blocks, e.b.id ≤ maxId st := (maxId_ge_aux st.blocks 0).2

theorem filterMap_getElem?_range (l : List α) (k : Nat) :
    (List.range k).filterMap (fun i => l[i]?) = l.take k := by
  induction k with
  | zero => simp
  | succ k ih =>
    rw [List.range_succ, List.filterMap_append, ih, List.take_add_one]
    congr 1

theorem filterMap_range_shift (f : Nat → Option α) (l : List α) (m : Nat) (hm : l.length < m)
    (h0 : f 0 = none) (hs : ∀ k, f (k + 1) = l[k]?) : (List.range m).filterMap f = l := by
  obtain ⟨m', rfl⟩ : ∃ m', m = m' + 1 := ⟨m - 1, by omega⟩
  rw [List.range_succ_eq_map, List.filterMap_cons, h0, List.filterMap_map]
  have : (f ∘ Nat.succ) = fun i => l[i]? := by funext k; exact hs k
  rw [this, filterMap_getElem?_range, List.take_of_length_le (by omega)]

theorem InvX.lcHashAt_none {x : Nat} {st : State} {lc : List ABlock} (h : InvX x st lc) (i : Nat)
    (hn : ∀ a ∈ lc, a.id ≠ i) : lcHashAt st i = none := by
  by_cases hex : ∃ a ∈ lc, a.id = slotOf st i
  · obtain ⟨a, ha, hai⟩ := hex
    obtain ⟨q, hq1, hq2⟩ := h.lcEntry ha
    unfold lcHashAt
    rw [← hai]
    have : (a.id == i) = false := by simpa using hn a ha
    simp [hq1, hq2, this]
  · have := h.chainOk.rNone (slotOf st i) (fun a ha e => hex ⟨a, ha, e⟩)
    unfold lcHashAt
    simp [this]

theorem InvX.lcDump {x : Nat} {st : State} {lc : List ABlock} (h : InvX x st lc) :
    lcDump st = lc.map (fun b => (b.id, b.hash)) := by
  unfold Saito.Chain.lcDump
  apply filterMap_range_shift
  · -- the range covers the chain
    rw [List.length_map]
    cases hl : lc.getLast? with
    | none => have : lc = [] := List.getLast?_eq_none_iff.1 hl
              subst this; simp
    | some t =>
      have ht : t ∈ lc := List.mem_of_getLast? hl
      obtain ⟨e, he, heb⟩ := List.mem_map.1 (h.chainOk.lcStored t ht)
      have h1 := maxId_ge st e he
      have h2 : lc.reverse.head? = some t := by rw [List.head?_reverse]; exact hl
      obtain ⟨r, hr⟩ : ∃ r, lc.reverse = t :: r := by
        cases hrr : lc.reverse with
        | nil => rw [hrr] at h2; cases h2
        | cons t' r => rw [hrr] at h2; simp at h2; subst h2; exact ⟨r, rfl⟩
      have h3 := ChainR_id (hr ▸ h.chainOk.chain)
      have h4 : lc.length = r.length + 1 := by rw [← List.length_reverse, hr]; rfl
      rw [heb] at h1; omega
  · rw [h.lcHashAt_none 0 (fun a ha => by
      have := (h.store.ids a (h.chainOk.lcStored a ha)).2.1; omega)]
    rfl
  · intro k
    by_cases hk : k < lc.length
    · have hid := ChainR_ids h.chainOk.chain k hk
      have := h.lcHashAt_mem (a := lc[k]) (List.getElem_mem hk)
      rw [hid] at this
      rw [this]
      simp [hk, hid]
    · rw [h.lcHashAt_none (k + 1) (fun a ha e => by
        obtain ⟨j, hj, rfl⟩ := List.getElem_of_mem ha
        rw [ChainR_ids h.chainOk.chain j hj] at e
        omega)]
      simp at hk
      simp [hk]

theorem mem_insertSorted (x y : Nat) (l : List Nat) : y ∈ insertSorted x l ↔ y = x ∨ y ∈ l := by
  induction l with
  | nil => simp [insertSorted]
  | cons z l ih =>
    unfold insertSorted
    split
    · simp
    · simp only [List.mem_cons, ih]
      constructor
      · rintro (h | h | h)
        · exact Or.inr (Or.inl h)
        · exact Or.inl h
        · exact Or.inr (Or.inr h)
      · rintro (h | h | h)
        · exact Or.inr (Or.inl h)
        · exact Or.inl h
        · exact Or.inr (Or.inr h)

theorem mem_sortNat (y : Nat) (l : List Nat) : y ∈ sortNat l ↔ y ∈ l := by
  induction l with
  | nil => simp [sortNat]
  | cons z l ih =>
    have : sortNat (z :: l) = insertSorted z (sortNat l) := rfl
    rw [this, mem_insertSorted, ih]; simp

theorem InvX.ringDump {x : Nat} {st : State} {lc : List ABlock} (h : InvX x st lc) (i hh : Nat) :
    (i, hh) ∈ ringDump st ↔ ∃ e ∈ st.blocks, e.b.id = i ∧ e.b.hash = hh := by
  unfold Saito.Chain.ringDump
  simp only [List.mem_flatMap, List.mem_range, List.mem_map, mem_sortNat, List.mem_filter, Prod.mk.injEq,
    beq_iff_eq]
  constructor
  · rintro ⟨j, _, y, ⟨⟨e, ⟨he, he2⟩, hey⟩, hji, hyh⟩⟩
    have he' : (e.1, e.2) ∈ (getItem st.ring (slotOf st j)).ents := he
    obtain ⟨_, c, hc, hc1, hc2⟩ := (h.store.rEnts _ _ _).1 he'
    obtain ⟨en, hen, rfl⟩ := List.mem_map.1 hc
    exact ⟨en, hen, by rw [hc2, he2, hji], by rw [hc1, hey, hyh]⟩
  · rintro ⟨e, he, rfl, rfl⟩
    have hs := mem_stored_of_mem he
    have hlt := maxId_ge st e he
    refine ⟨e.b.id, by omega, e.b.hash, ⟨(e.b.hash, e.b.id), ⟨?_, rfl⟩, rfl⟩, rfl, rfl⟩
    rw [slotOf_eq st _ (h.store.lt2gp hs)]
    exact (h.store.rEnts _ _ _).2 ⟨rfl, e.b, hs, rfl, rfl⟩

/-- **What `StInv` says about the observables** (a)–(d):
    (a) chain shape: `lc` is a list of stored blocks, each the parent of the next, ids `1, 2, 3, …`;
        `lcDump st` is `lc` read as `(id, hash)` pairs and `latest st` is its last element (or `(0, 0)`);
    (b) flags: a stored entry is marked on-chain iff its block is on `lc` (iff its hash is);
    (c) ledger: the spendable set is the replay of `lc` from its first block, and `lc` was wound cleanly;
    (d) index: `ringDump st` holds exactly the `(id, hash)` pairs of the stored blocks. -/
theorem StInv.observables {st : State} (h : StInv st) :
    ∃ lc : List ABlock,
      ((∀ b ∈ lc, ∃ e ∈ st.blocks, e.b = b) ∧
        (∀ k (hk : k < lc.length), lc[k].id = k + 1) ∧
        (∀ k (hk : k + 1 < lc.length), lc[k + 1].prev = lc[k].hash) ∧
        lcDump st = lc.map (fun b => (b.id, b.hash)) ∧
        latest st = some (match lc.getLast? with | some t => (t.id, t.hash) | none => (0, 0))) ∧
      (∀ e ∈ st.blocks, (e.inLC = true ↔ e.b ∈ lc) ∧ (e.inLC = true ↔ e.b.hash ∈ lc.map (·.hash))) ∧
      (SameSet st.utxo (replay lc) ∧ CleanSeg [] lc) ∧
      (∀ i hh, (i, hh) ∈ ringDump st ↔ ∃ e ∈ st.blocks, e.b.id = i ∧ e.b.hash = hh) := by
  obtain ⟨lc, h⟩ := h
  refine ⟨lc, ⟨?_, ChainR_ids h.chainOk.chain, ChainR_link h.chainOk.chain, h.lcDump, h.latest⟩, ?_,
    ⟨h.chainOk.ledger, h.chainOk.clean⟩, h.ringDump⟩
  · intro b hb
    obtain ⟨e, he, heb⟩ := List.mem_map.1 (h.chainOk.lcStored b hb)
    exact ⟨e, he, heb⟩
  · intro e he
    have hf : e.inLC = true ↔ e.b ∈ lc := by
      rw [h.chainOk.flags e he]
      have := (h.store.ids _ (mem_stored_of_mem he)).1
      simp [this]
    refine ⟨hf, hf.trans ⟨fun hb => List.mem_map_of_mem hb, fun hm => ?_⟩⟩
    obtain ⟨c, hc, hch⟩ := List.mem_map.1 hm
    have := h.store.uniq (h.chainOk.lcStored c hc) (mem_stored_of_mem he) hch
    rw [← this]; exact hc

/-- the empty state satisfies the invariant -/
theorem StInv.empty (g : Nat) : StInv { gp := g } := by
  refine ⟨[], ⟨⟨rfl, by simp [stored], by simp [stored], by simp [stored], by simp [stored], ?_, ?_, fun _ => rfl⟩, ?_⟩⟩
  · intro s hh i
    simp [getItem, stored]
  · intro s; simp [getItem]
  · constructor
    · simp [stored]
    · simp
    · trivial
    · simp
    · simp
    · exact SameSet.refl _
    · trivial
    · simp
    · intro s _; rfl
    · rfl


/-- the tip height is the length of the chain -/
theorem InvX.latest_len {x : Nat} {st : State} {lc : List ABlock} (h : InvX x st lc) :
    ∃ hh, Saito.Chain.latest st = some (lc.length, hh) := by
  rw [h.latest]
  cases hl : lc.getLast? with
  | none =>
    have : lc = [] := List.getLast?_eq_none_iff.1 hl
    subst this; exact ⟨0, rfl⟩
  | some t =>
    have h2 : lc.reverse.head? = some t := by rw [List.head?_reverse]; exact hl
    obtain ⟨r, hr⟩ : ∃ r, lc.reverse = t :: r := by
      cases hrr : lc.reverse with
      | nil => rw [hrr] at h2; cases h2
      | cons t' r => rw [hrr] at h2; simp at h2; subst h2; exact ⟨r, rfl⟩
    have h3 := ChainR_id (hr ▸ h.chainOk.chain)
    have h4 : lc.length = r.length + 1 := by rw [← List.length_reverse, hr]; rfl
    exact ⟨t.hash, by simp only; rw [h3, h4]⟩

theorem ringDump_congr {st st' : State} (h : SameObs st st') : ringDump st' = ringDump st := by
  obtain ⟨hb, hr, _, _, hg, _⟩ := h
  have hm : maxId st' = maxId st := by unfold maxId; rw [hb]
  unfold ringDump
  rw [hm]
  congr 1
  funext i
  have : slotOf st' i = slotOf st i := by unfold slotOf; rw [hg]
  rw [this, hr]

end Saito.Chain
