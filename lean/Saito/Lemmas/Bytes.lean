import Saito.Model.Bytes
namespace Saito

@[simp] theorem toBE_length (w n : Nat) : (toBE w n).length = w := by
  induction w generalizing n with
  | zero => simp [toBE]
  | succ w ih => simp [toBE, ih]

theorem fromBE_append_singleton (xs : Bytes) (b : UInt8) :
    fromBE (xs ++ [b]) = fromBE xs * 256 + b.toNat := by
  simp [fromBE, List.foldl_append]

theorem fromBE_toBE (w n : Nat) : fromBE (toBE w n) = n % 256 ^ w := by
  induction w generalizing n with
  | zero => simp [toBE, fromBE, Nat.mod_one]
  | succ w ih =>
    rw [toBE, fromBE_append_singleton, ih, Nat.pow_succ, Nat.mul_comm (256 ^ w) 256,
      Nat.mod_mul (x := n) (a := 256) (b := 256 ^ w)]
    simp [UInt8.toNat_ofNat']
    omega

theorem foldl_be_lt (bs : Bytes) (a : Nat) :
    bs.foldl (fun a b => a * 256 + b.toNat) a < (a + 1) * 256 ^ bs.length := by
  induction bs generalizing a with
  | nil => simp
  | cons b bs ih =>
    simp only [List.foldl_cons, List.length_cons]
    have h1 := ih (a * 256 + b.toNat)
    have h2 := b.toNat_lt
    have h3 : (a * 256 + b.toNat + 1) * 256 ^ bs.length ≤ ((a + 1) * 256) * 256 ^ bs.length :=
      Nat.mul_le_mul_right _ (by omega)
    rw [Nat.pow_succ, Nat.mul_comm (256 ^ bs.length) 256, ← Nat.mul_assoc]
    omega

theorem fromBE_lt (bs : Bytes) : fromBE bs < 256 ^ bs.length := by
  have := foldl_be_lt bs 0
  simpa [fromBE] using this

theorem fromBE_toBE_of_lt (w n : Nat) (h : n < 256 ^ w) : fromBE (toBE w n) = n := by
  rw [fromBE_toBE, Nat.mod_eq_of_lt h]

end Saito
