import Saito.Model.SyncDelivery
/-! Order-freedom of block delivery under the retry rule (C15): the combinatorial part, over any family of
    chain states `sts k` ("the first `k` blocks of the suffix are adopted") that satisfies the ladder
    conditions for the concrete `Chain.addBlock`. -/
namespace Saito.SyncDelivery
open Saito.Chain

/-- what `addBlock` must do along a linear suffix `blk 0 … blk (n-1)`: the next block is taken in (onto the
    longest chain or as a side block — any outcome but retry/panic/stall) and `sts` records the in-order states,
    a later block is answered "retry" and leaves the state alone, blocks not yet taken in are not stored -/
structure Ladder (fl : Flags) (n : Nat) (sts : Nat → State) (blk : Nat → ABlock) : Prop where
  adopt : ∀ k, k < n → ∀ rq, ∃ o, addBlock fl (sts k) (blk k) rq = (sts (k + 1), o) ∧ isRetry o = false ∧ isFatal o = false
  retry : ∀ k i, k < i → i < n → ∀ rq, ∃ o, addBlock fl (sts k) (blk i) rq = (sts k, o) ∧ isRetry o = true
  fresh : ∀ k i, k ≤ i → i < n → getB (sts k) (blk i).hash = none
  ids : ∀ i j, i < j → j < n → (blk i).id < (blk j).id
  hashes : ∀ i j, i < n → j < n → (blk i).hash = (blk j).hash → i = j

theorem isRetry_not_fatal {o : Outcome} (h : isRetry o = true) : isFatal o = false := by
  cases o <;> simp_all [isRetry, isFatal]

/-! ### insertion sort over an indexed family -/
theorem insertById_map (blk : Nat → ABlock) (x : Nat) (l : List Nat) :
    ∃ l' : List Nat, insertById (blk x) (l.map blk) = l'.map blk ∧ l'.Perm (x :: l) ∧
      (l.Pairwise (fun i j => (blk i).id ≤ (blk j).id) → l'.Pairwise (fun i j => (blk i).id ≤ (blk j).id)) := by
  induction l with
  | nil => exact ⟨[x], by simp [insertById], List.Perm.refl _, by intro _; simp⟩
  | cons y ys ih =>
    simp only [List.map_cons, insertById]
    split
    · rename_i hle
      refine ⟨x :: y :: ys, by simp, List.Perm.refl _, ?_⟩
      intro hp
      rw [List.pairwise_cons]
      refine ⟨?_, hp⟩
      intro z hz
      rcases List.mem_cons.1 hz with rfl | hz
      · exact hle
      · exact Nat.le_trans hle ((List.pairwise_cons.1 hp).1 z hz)
    · rename_i hnle
      obtain ⟨l', h1, h2, h3⟩ := ih
      refine ⟨y :: l', by simp [h1], ?_, ?_⟩
      · exact (List.Perm.cons y h2).trans (List.Perm.swap x y ys)
      · intro hp
        rw [List.pairwise_cons] at hp ⊢
        refine ⟨?_, h3 hp.2⟩
        intro z hz
        rcases List.mem_cons.1 (h2.mem_iff.1 hz) with rfl | hz
        · omega
        · exact hp.1 z hz

theorem sortById_map (blk : Nat → ABlock) (l : List Nat) :
    ∃ l' : List Nat, sortById (l.map blk) = l'.map blk ∧ l'.Perm l ∧ l'.Pairwise (fun i j => (blk i).id ≤ (blk j).id) := by
  induction l with
  | nil => exact ⟨[], by simp [sortById], List.Perm.refl _, List.Pairwise.nil⟩
  | cons x xs ih =>
    obtain ⟨l1, h1, h2, h3⟩ := ih
    obtain ⟨l2, g1, g2, g3⟩ := insertById_map blk x l1
    refine ⟨l2, ?_, g2.trans (List.Perm.cons x h2), g3 h3⟩
    have : sortById ((x :: xs).map blk) = insertById (blk x) (sortById (xs.map blk)) := by
      simp [sortById]
    rw [this, h1, g1]

/-! ### one pass over an ascending list of suffix indices -/
theorem pass_ladder {fl : Flags} {n : Nat} {sts : Nat → State} {blk : Nat → ABlock} (L : Ladder fl n sts blk) :
    ∀ (l : List Nat) (k : Nat) (rq0 : List Nat), l.Pairwise (· < ·) → (∀ i ∈ l, k ≤ i ∧ i < n) → k ≤ n →
      ∃ (k' : Nat) (r : List Nat), pass fl (l.map blk) (sts k) (rq0.map blk) = (sts k', (rq0 ++ r).map blk, false) ∧
        k ≤ k' ∧ k' ≤ n ∧ (∀ i ∈ r, k' < i ∧ i < n) ∧ (List.range k' ++ r).Perm (List.range k ++ l) ∧
        ((∀ x ∈ l, k < x) → k' = k) := by
  intro l
  induction l with
  | nil =>
    intro k rq0 _ _ hk
    exact ⟨k, [], by simp [pass], Nat.le_refl _, hk, by simp, List.Perm.refl _, fun _ => rfl⟩
  | cons i l ih =>
    intro k rq0 hp hb hk
    have hi := hb i List.mem_cons_self
    rw [List.pairwise_cons] at hp
    by_cases hik : i = k
    · subst hik
      have hstep : pass fl ((i :: l).map blk) (sts i) (rq0.map blk) = pass fl (l.map blk) (sts (i + 1)) (rq0.map blk) := by
        simp only [List.map_cons, pass]
        obtain ⟨o, ho, hr, hf⟩ := L.adopt i hi.2 ((rq0.map blk).map (·.hash))
        rw [ho]
        simp [hr, hf]
      obtain ⟨k', r, h1, h2, h3, h4, h5, _⟩ := ih (i + 1) rq0 hp.2
        (fun x hx => ⟨hp.1 x hx, (hb x (List.mem_cons_of_mem _ hx)).2⟩) hi.2
      refine ⟨k', r, by rw [hstep, h1], by omega, h3, h4, ?_, ?_⟩
      · refine h5.trans ?_
        rw [List.range_succ, List.append_assoc]
        simp
      · intro hall; have := hall i List.mem_cons_self; omega
    · have hlt : k < i := by omega
      obtain ⟨o, ho, hr⟩ := L.retry k i hlt hi.2 ((rq0.map blk).map (·.hash))
      have hstep : pass fl ((i :: l).map blk) (sts k) (rq0.map blk) = pass fl (l.map blk) (sts k) ((rq0 ++ [i]).map blk) := by
        simp only [List.map_cons, pass]
        rw [ho]
        simp [isRetry_not_fatal hr, hr]
      have hall : ∀ x ∈ l, k < x := fun x hx => Nat.lt_trans hlt (hp.1 x hx)
      obtain ⟨k', r, h1, h2, h3, h4, h5, h6⟩ := ih k (rq0 ++ [i]) hp.2
        (fun x hx => ⟨Nat.le_of_lt (hall x hx), (hb x (List.mem_cons_of_mem _ hx)).2⟩) hk
      have hk' : k' = k := h6 hall
      subst hk'
      refine ⟨k', i :: r, by rw [hstep, h1]; simp, Nat.le_refl _, hk, ?_, ?_, fun _ => rfl⟩
      · intro x hx
        rcases List.mem_cons.1 hx with rfl | hx
        · exact ⟨hlt, hi.2⟩
        · exact h4 x hx
      · exact (List.perm_middle).trans ((List.Perm.cons i h5).trans (List.perm_middle).symm)

/-- state of the receiving node after some deliveries: `k` blocks adopted, the indices `q` waiting -/
def Inv (n : Nat) (sts : Nat → State) (blk : Nat → ABlock) (node : NodeSt) (done : List Nat) : Prop :=
  ∃ (k : Nat) (q : List Nat), k ≤ n ∧ node = { st := sts k, queue := q.map blk, dead := false } ∧
    (∀ i ∈ q, k < i ∧ i < n) ∧ q.Nodup ∧ done.Perm (List.range k ++ q)

theorem nodup_range_append {k : Nat} {q : List Nat} (hq : q.Nodup) (hgt : ∀ i ∈ q, k ≤ i) :
    (List.range k ++ q).Nodup := by
  rw [List.nodup_append]
  refine ⟨List.nodup_range, hq, ?_⟩
  intro a ha b hb hab
  subst hab
  have := hgt a hb
  have := List.mem_range.1 ha
  omega

theorem deliver_inv {fl : Flags} {n : Nat} {sts : Nat → State} {blk : Nat → ABlock} (L : Ladder fl n sts blk)
    {node : NodeSt} {done : List Nat} (hinv : Inv n sts blk node done) {j : Nat} (hj : j < n) (hnew : j ∉ done) :
    Inv n sts blk (deliver fl node (blk j)) (done ++ [j]) := by
  obtain ⟨k, q, hk, hnode, hq, hqn, hperm⟩ := hinv
  subst hnode
  have hjk : k ≤ j := by
    rcases Nat.lt_or_ge j k with h | h
    · exact absurd (hperm.mem_iff.2 (List.mem_append_left _ (List.mem_range.2 h))) hnew
    · exact h
  have hjq : j ∉ q := fun h => hnew (hperm.mem_iff.2 (List.mem_append_right _ h))
  have hfresh : getB (sts k) (blk j).hash = none := L.fresh k j hjk hj
  have hany : (q.map blk).any (·.hash == (blk j).hash) = false := by
    rw [Bool.eq_false_iff]
    intro h
    rw [List.any_eq_true] at h
    obtain ⟨b, hb, he⟩ := h
    obtain ⟨i, hi, rfl⟩ := List.mem_map.1 hb
    have : i = j := L.hashes i j (hq i hi).2 hj (by simpa using he)
    exact hjq (this ▸ hi)
  obtain ⟨l, hs1, hs2, hs3⟩ := sortById_map blk (q ++ [j])
  have hmem : ∀ i ∈ l, k ≤ i ∧ i < n := by
    intro i hi
    rcases List.mem_append.1 (hs2.mem_iff.1 hi) with h | h
    · exact ⟨Nat.le_of_lt (hq i h).1, (hq i h).2⟩
    · have : i = j := by simpa using h
      subst this; exact ⟨hjk, hj⟩
  have hnodup : (q ++ [j]).Nodup := by
    rw [List.nodup_append]
    refine ⟨hqn, by simp, ?_⟩
    intro a ha b hb hab
    have : b = j := by simpa using hb
    subst this; subst hab; exact hjq ha
  have hlnodup : l.Nodup := hs2.nodup_iff.2 hnodup
  have hpw : l.Pairwise (· < ·) := by
    have h2 : l.Pairwise (fun a b => (blk a).id ≤ (blk b).id ∧ a ≠ b) := hs3.and hlnodup
    refine h2.imp_of_mem ?_
    intro a b ha hb hab
    rcases Nat.lt_or_ge a b with h | h
    · exact h
    · have hne : b < a := by have := hab.2; omega
      have := L.ids b a hne (hmem a ha).2
      omega
  obtain ⟨k', r, h1, h2, h3, h4, h5, _⟩ := pass_ladder L l k [] hpw hmem hk
  have hdel : deliver fl { st := sts k, queue := q.map blk, dead := false } (blk j) =
      { st := sts k', queue := r.map blk, dead := false } := by
    unfold deliver
    simp only [hfresh, hany]
    have hq' : q.map blk ++ [blk j] = (q ++ [j]).map blk := by simp
    simp only [Bool.false_eq_true, if_false, Option.isSome_none, hq', hs1]
    have h1' := h1
    simp only [List.map_nil, List.nil_append] at h1'
    rw [h1']
  rw [hdel]
  have hr : r.Nodup := by
    have hR : (List.range k ++ l).Nodup := nodup_range_append hlnodup (fun i hi => (hmem i hi).1)
    exact (List.nodup_append.1 (h5.nodup_iff.2 hR)).2.1
  refine ⟨k', r, h3, rfl, h4, hr, ?_⟩
  -- done ++ [j] ~ range k ++ (q ++ [j]) ~ range k ++ l ~ range k' ++ r
  have p1 : (done ++ [j]).Perm ((List.range k ++ q) ++ [j]) := List.Perm.append_right _ hperm
  have p2 : ((List.range k ++ q) ++ [j]).Perm (List.range k ++ l) := by
    rw [List.append_assoc]
    exact List.Perm.append_left _ hs2.symm
  exact (p1.trans p2).trans h5.symm

theorem deliverAll_inv {fl : Flags} {n : Nat} {sts : Nat → State} {blk : Nat → ABlock} (L : Ladder fl n sts blk) :
    ∀ (σ done : List Nat) (node : NodeSt), Inv n sts blk node done → (done ++ σ).Nodup → (∀ j ∈ σ, j < n) →
      Inv n sts blk (deliverAll fl node (σ.map blk)) (done ++ σ) := by
  intro σ
  induction σ with
  | nil => intro done node h _ _; simpa [deliverAll] using h
  | cons j σ ih =>
    intro done node h hnd hb
    have hj : j ∉ done := by
      intro hm
      rw [List.nodup_append] at hnd
      exact hnd.2.2 j hm j List.mem_cons_self rfl
    have h' := deliver_inv L h (hb j List.mem_cons_self) hj
    have := ih (done ++ [j]) (deliver fl node (blk j)) h' (by simpa [List.append_assoc] using hnd)
      (fun x hx => hb x (List.mem_cons_of_mem _ hx))
    simpa [deliverAll, List.append_assoc] using this

/-- every permutation of the deliveries of a ladder ends in the same node state: everything adopted, nothing queued -/
theorem deliverAll_perm {fl : Flags} {n : Nat} {sts : Nat → State} {blk : Nat → ABlock} (L : Ladder fl n sts blk)
    (σ : List Nat) (hσ : σ.Perm (List.range n)) :
    deliverAll fl { st := sts 0 } (σ.map blk) = { st := sts n, queue := [], dead := false } := by
  have h0 : Inv n sts blk { st := sts 0 } [] := ⟨0, [], Nat.zero_le _, rfl, by simp, List.nodup_nil, by simp⟩
  have hnd : ([] ++ σ).Nodup := by simpa using hσ.nodup_iff.2 List.nodup_range
  have hb : ∀ j ∈ σ, j < n := fun j hj => List.mem_range.1 (hσ.mem_iff.1 hj)
  obtain ⟨k, q, hk, hnode, hq, _, hperm⟩ := deliverAll_inv L σ [] _ h0 hnd hb
  have hperm' : (List.range n).Perm (List.range k ++ q) := hσ.symm.trans (by simpa using hperm)
  have hkn : k = n := by
    rcases Nat.lt_or_ge k n with h | h
    · have : k ∈ List.range k ++ q := hperm'.mem_iff.1 (List.mem_range.2 h)
      rcases List.mem_append.1 this with h1 | h1
      · have := List.mem_range.1 h1; omega
      · have := (hq k h1).1; omega
    · omega
  subst hkn
  have hqnil : q = [] := by
    cases q with
    | nil => rfl
    | cons x xs => have := hq x List.mem_cons_self; omega
  subst hqnil
  simpa using hnode

end Saito.SyncDelivery
