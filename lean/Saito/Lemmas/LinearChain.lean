import Saito.Lemmas.SyncDelivery
/-! `Chain.addBlock` on a linear, all-valid chain: closed form of the state and adoption of the next block
    (for every length below `genesis_period`), the missing piece between `Ladder` and concrete chains. -/
namespace Saito.SyncDelivery
open Saito.Chain

/-- the insertion part of `addBlock` (ring slot + block store) -/
def insertBlock (st : State) (b : ABlock) : State :=
  let slot := slotOf st b.id
  let st := if (getItem st.ring slot).containsHash b.hash then st
            else { st with ring := setItem st.ring slot ((getItem st.ring slot).add b.id b.hash) }
  { st with blocks := st.blocks ++ [⟨b, false⟩],
            amt := st.amt ++ (b.ins.zip b.inAmts) ++ (b.outs.zip b.outAmts) }

/-- what `addBlock` does once the new chain `newC` was found to hang off the longest chain at `shared` -/
def adoptTail (fl : Flags) (st : State) (b : ABlock) (newC oldC : List Nat) : State × Outcome :=
  match latest st with
  | none => (st, .panic)
  | some (lid2, _) =>
  let longest := b.id > lid2 - st.gp && isLongest st newC oldC lid2
  let st := { st with ringEmpty := false }
  if longest then
    let st := setLC st b.hash true
    match validate fl st newC oldC with
    | none => (st, .stall)
    | some (st', true) =>
      match checkSupply st' with
      | some st'' => (st'', .addedLc)
      | none => (st', .panic)
    | some (st', false) =>
      let st' := setLC st' b.hash false
      let st' := removeB st' b.hash
      let slot := slotOf st' b.id
      let st' := { st' with ring := setItem st'.ring slot ((getItem st'.ring slot).delete fl b.id b.hash) }
      (st', .invalid)
  else (st, .addedSide)

/-- `addBlock` with its insertion part and its tail named (same code, definitionally) -/
def addBlock' (fl : Flags) (st : State) (b : ABlock) (queued : List Nat) : State × Outcome :=
  match latest st with
  | none => (st, .panic)
  | some (latestId, latestHash) =>
  if (getB st b.hash).isSome then (st, .exists_) else
  let parentMissing := !st.ringEmpty && (getB st b.prev).isNone
  if parentMissing && b.prev != 0 && st.loadingDone then
    if queued.contains b.prev then (st, .retryWait)
    else if b.id > maxOf 1 (latestId - st.gp) then
      let diff := if b.id ≥ latestId then b.id - latestId else latestId - b.id
      if diff < (if st.gp < 1000 then st.gp else 1000) then (st, .retryPrev) else (st, .retryChain)
    else (st, .invalid)
  else
  let st := insertBlock st b
  let fuel := st.blocks.length + 2
  match calcNew st fuel b.hash [] with
  | (found, shared, newC) =>
  match (if found then (st, calcOld st shared fuel latestHash [])
    else
      let st :=
        if st.ringEmpty then st
        else
          match latest st with
          | some (lid, lh) =>
            if latestHash != 0 && latestHash == lh && b.id > lid - st.gp && !fl.orphanInert then
              disconnectAbove st (lid - b.id) (b.id + 1)
            else st
          | none => st
      (st, calcOldUpto st newC.length fuel latestHash [])) with
  | (st, oldC) => adoptTail fl st b newC oldC

theorem addBlock_eq' (fl : Flags) (st : State) (b : ABlock) (q : List Nat) : addBlock fl st b q = addBlock' fl st b q := rfl

theorem addBlock_found (fl : Flags) (st : State) (b : ABlock) (rq : List Nat) (lid lh shared : Nat) (newC : List Nat)
    (h1 : latest st = some (lid, lh)) (h2 : getB st b.hash = none)
    (h3 : (!st.ringEmpty && (getB st b.prev).isNone) = false)
    (h5 : calcNew (insertBlock st b) ((insertBlock st b).blocks.length + 2) b.hash [] = (true, shared, newC)) :
    addBlock fl st b rq =
      adoptTail fl (insertBlock st b) b newC (calcOld (insertBlock st b) shared ((insertBlock st b).blocks.length + 2) lh []) := by
  rw [addBlock_eq']
  unfold addBlock'
  rw [h1]
  simp only [h2, h3, Option.isSome_none, Bool.false_eq_true, if_false, Bool.false_and]
  rw [h5]
  simp only [if_true]

/-! ### closed form of the state of a linear chain -/
def linItem (b : ABlock) : RItem := { lc := some 0, ents := [(b.hash, b.id)] }

/-- ring after adopting the blocks; argument newest first -/
def linRing (gp : Nat) : List ABlock → List (Nat × RItem)
  | [] => []
  | b :: r => (b.id % (2 * gp), linItem b) :: linRing gp r

def mkE (v : Bool) (b : ABlock) : BEntry := ⟨b, v⟩

/-- the state after the blocks `bs` (oldest first) were adopted one after the other -/
def linSt (gp : Nat) (ld : Bool) (bs : List ABlock) : State :=
  { gp := gp, ring := linRing gp bs.reverse, ringLc := bs.getLast?.map (fun b => b.id % (2 * gp)),
    ringEmpty := bs.isEmpty, blocks := bs.map (mkE true), utxo := [], loadingDone := ld, amt := [], initSupply := 0 }

/-- linear, all-valid, ticket-carrying, value-free blocks with ids 1,2,… and distinct non-zero hashes -/
structure Lin (gp : Nat) (bs : List ABlock) : Prop where
  ids : ∀ k (hk : k < bs.length), (bs[k]).id = k + 1
  nz : ∀ x ∈ bs, x.hash ≠ 0
  nodup : bs.Pairwise (fun x y => x.hash ≠ y.hash)
  pl : ∀ x ∈ bs, x.ok = true ∧ x.hasGT = true ∧ x.ins = [] ∧ x.outs = [] ∧ x.hs = 0
  /-- the blocks also validate when offered without their parent (value-free blocks: averages restart from zero) -/
  onp : ∀ x ∈ bs, x.okNoParent = true
  short : bs.length < gp

theorem Lin.id_of_mem {gp : Nat} {bs : List ABlock} (L : Lin gp bs) {x : ABlock} (hx : x ∈ bs) :
    1 ≤ x.id ∧ x.id ≤ bs.length := by
  obtain ⟨k, hk, rfl⟩ := List.getElem_of_mem hx
  rw [L.ids k hk]; omega

theorem Lin.prefix {gp : Nat} {bs : List ABlock} {b : ABlock} (L : Lin gp (bs ++ [b])) : Lin gp bs := by
  refine ⟨?_, ?_, ?_, ?_, ?_, ?_⟩
  · intro k hk
    have := L.ids k (by simp; omega)
    rwa [List.getElem_append_left hk] at this
  · intro x hx; exact L.nz x (List.mem_append_left _ hx)
  · exact (List.pairwise_append.1 L.nodup).1
  · intro x hx; exact L.pl x (List.mem_append_left _ hx)
  · intro x hx; exact L.onp x (List.mem_append_left _ hx)
  · have := L.short; simp at this; omega

theorem Lin.last_id {gp : Nat} {bs : List ABlock} {b : ABlock} (L : Lin gp (bs ++ [b])) : b.id = bs.length + 1 := by
  have := L.ids bs.length (by simp)
  simpa using this

theorem Lin.fresh {gp : Nat} {bs : List ABlock} {b : ABlock} (L : Lin gp (bs ++ [b])) : ∀ x ∈ bs, x.hash ≠ b.hash := by
  intro x hx
  exact (List.pairwise_append.1 L.nodup).2.2 x hx b (by simp)

/-! ### lookups -/
theorem find_fresh (v : Bool) (cs : List ABlock) (h : Nat) (hf : ∀ x ∈ cs, x.hash ≠ h) :
    (cs.map (mkE v)).find? (fun e => e.b.hash == h) = none := by
  rw [List.find?_eq_none]
  intro e he
  obtain ⟨x, hx, rfl⟩ := List.mem_map.1 he
  simpa [mkE] using hf x hx

theorem find_mem (v : Bool) (cs : List ABlock) (hd : cs.Pairwise (fun x y => x.hash ≠ y.hash)) (x : ABlock) (hx : x ∈ cs) :
    (cs.map (mkE v)).find? (fun e => e.b.hash == x.hash) = some (mkE v x) := by
  induction cs with
  | nil => cases hx
  | cons y ys ih =>
    rw [List.pairwise_cons] at hd
    simp only [List.map_cons, List.find?_cons]
    rcases List.mem_cons.1 hx with rfl | hx'
    · simp [mkE]
    · have : (y.hash == x.hash) = false := by simpa using hd.1 x hx'
      simp only [mkE, this]
      exact ih hd.2 hx'

theorem getItem_fresh (gp : Nat) (rbs : List ABlock) (s : Nat) (hf : ∀ x ∈ rbs, x.id % (2 * gp) ≠ s) :
    getItem (linRing gp rbs) s = {} := by
  unfold getItem
  have : (linRing gp rbs).find? (fun p => p.1 == s) = none := by
    rw [List.find?_eq_none]
    intro p hp
    induction rbs with
    | nil => cases hp
    | cons y ys ih =>
      simp only [linRing, List.mem_cons] at hp
      rcases hp with rfl | hp
      · simpa using hf y (by simp)
      · exact ih (fun x hx => hf x (List.mem_cons_of_mem _ hx)) hp
  rw [this]

theorem filter_fresh (gp : Nat) (rbs : List ABlock) (s : Nat) (hf : ∀ x ∈ rbs, x.id % (2 * gp) ≠ s) :
    (linRing gp rbs).filter (fun p => p.1 != s) = linRing gp rbs := by
  rw [List.filter_eq_self]
  intro p hp
  induction rbs with
  | nil => cases hp
  | cons y ys ih =>
    simp only [linRing, List.mem_cons] at hp
    rcases hp with rfl | hp
    · simpa using hf y (by simp)
    · exact ih (fun x hx => hf x (List.mem_cons_of_mem _ hx)) hp

/-- ticket density: if every stored block carries a ticket the rule passes for a ticket-carrying block -/
theorem gtWalk_all (st : State) (hall : ∀ e ∈ st.blocks, e.b.hasGT = true) :
    ∀ n h, (gtWalk st n h).2 = (gtWalk st n h).1 ∧ (gtWalk st n h).1 ≤ n := by
  intro n
  induction n with
  | zero => intro h; simp [gtWalk]
  | succ n ih =>
    intro h
    unfold gtWalk
    cases hg : getB st h with
    | none => simp
    | some e =>
      have he : e ∈ st.blocks := by
        unfold getB at hg
        exact List.mem_of_find?_eq_some hg
      have := ih e.b.prev
      simp only [hall e he, if_true]
      constructor
      · rw [this.1]
      · omega

theorem gtCountValid_all (st : State) (hall : ∀ e ∈ st.blocks, e.b.hasGT = true) (p : Nat) :
    gtCountValid st p true = true := by
  unfold gtCountValid
  have := gtWalk_all st hall 5 p
  generalize gtWalk st 5 p = w at this
  obtain ⟨d, f⟩ := w
  simp only at this ⊢
  obtain ⟨h1, h2⟩ := this
  subst h1
  simp only [if_true]
  split
  · rfl
  · simp; omega

/-! ### one adoption step -/
/-- the state between insertion and fork choice -/
def midSt (gp : Nat) (ld : Bool) (cs : List ABlock) (b : ABlock) : State :=
  { gp := gp, ring := (b.id % (2 * gp), ({ lc := none, ents := [(b.hash, b.id)] } : RItem)) :: linRing gp cs.reverse,
    ringLc := cs.getLast?.map (fun b => b.id % (2 * gp)), ringEmpty := cs.isEmpty,
    blocks := cs.map (mkE true) ++ [mkE false b], utxo := [], loadingDone := ld, amt := [], initSupply := 0 }

theorem slot_ne {gp : Nat} {cs : List ABlock} {b : ABlock} (L : Lin gp (cs ++ [b])) :
    ∀ x ∈ cs.reverse, x.id % (2 * gp) ≠ b.id % (2 * gp) := by
  intro x hx
  have hx' : x ∈ cs := List.mem_reverse.1 hx
  have h1 := L.prefix.id_of_mem hx'
  have h2 := L.last_id
  have h3 := L.short
  simp at h3
  rw [Nat.mod_eq_of_lt (by omega), Nat.mod_eq_of_lt (by omega)]
  omega

theorem insert_lin (gp : Nat) (ld : Bool) (cs : List ABlock) (b : ABlock) (L : Lin gp (cs ++ [b])) :
    insertBlock (linSt gp ld cs) b = midSt gp ld cs b := by
  have hpl := L.pl b (by simp)
  have hg := getItem_fresh gp cs.reverse _ (slot_ne L)
  have hf := filter_fresh gp cs.reverse _ (slot_ne L)
  unfold insertBlock slotOf
  simp only [linSt, hg, RItem.containsHash, List.any_nil, Bool.false_eq_true, if_false, setItem, RItem.add,
    List.nil_append, hf]
  simp [midSt, hpl.2.2.1, hpl.2.2.2.1, mkE]

theorem getB_mid_new (gp : Nat) (ld : Bool) (cs : List ABlock) (b : ABlock) (L : Lin gp (cs ++ [b])) :
    getB (midSt gp ld cs b) b.hash = some (mkE false b) := by
  unfold getB
  simp only [midSt, List.find?_append, find_fresh true cs b.hash L.fresh]
  simp [mkE]

theorem getB_mid_old (gp : Nat) (ld : Bool) (cs : List ABlock) (b x : ABlock) (L : Lin gp (cs ++ [b])) (hx : x ∈ cs) :
    getB (midSt gp ld cs b) x.hash = some (mkE true x) := by
  unfold getB
  simp only [midSt, List.find?_append, find_mem true cs L.prefix.nodup x hx]
  simp

theorem calcNew_mid (gp : Nat) (ld : Bool) (bs : List ABlock) (last b : ABlock) (L : Lin gp (bs ++ [last] ++ [b]))
    (hprev : b.prev = last.hash) (fuel : Nat) :
    calcNew (midSt gp ld (bs ++ [last]) b) (fuel + 2) b.hash [] = (true, last.hash, [b.hash]) := by
  have hnz : b.hash ≠ 0 := L.nz b (by simp)
  unfold calcNew
  simp only [getB_mid_new gp ld _ b L, mkE, Bool.false_eq_true, if_false]
  have : (b.hash == 0) = false := by simpa using hnz
  simp only [this, Bool.false_eq_true, if_false, hprev]
  unfold calcNew
  simp only [getB_mid_old gp ld _ b last L (by simp), mkE, if_true, List.reverse_cons, List.reverse_nil, List.nil_append]

theorem latest_mid (gp : Nat) (ld : Bool) (bs : List ABlock) (last b : ABlock) (L : Lin gp (bs ++ [last] ++ [b])) :
    latest (midSt gp ld (bs ++ [last]) b) = some (last.id, last.hash) := by
  have hne : (b.id % (2 * gp) == last.id % (2 * gp)) = false := by
    have := slot_ne L last (by simp)
    simpa using fun h => this h.symm
  unfold latest
  simp only [midSt, List.getLast?_append, List.getLast?_singleton, Option.map_some, Option.some_or,
    getItem, List.find?_cons, hne, List.reverse_append, List.reverse_cons, List.reverse_nil, List.nil_append,
    List.singleton_append, linRing, beq_self_eq_true, linItem]
  simp

theorem latest_lin (gp : Nat) (ld : Bool) (bs : List ABlock) (last : ABlock) :
    latest (linSt gp ld (bs ++ [last])) = some (last.id, last.hash) := by
  unfold latest
  simp only [linSt, List.getLast?_append, List.getLast?_singleton, Option.map_some, Option.some_or,
    getItem, List.reverse_append, List.reverse_cons, List.reverse_nil, List.nil_append,
    List.singleton_append, linRing, List.find?_cons, beq_self_eq_true, linItem]
  simp

theorem isLongest_mid (gp : Nat) (ld : Bool) (bs : List ABlock) (last b : ABlock) (L : Lin gp (bs ++ [last] ++ [b])) :
    isLongest (midSt gp ld (bs ++ [last]) b) [b.hash] [] last.id = true := by
  have h1 : b.id = (bs ++ [last]).length + 1 := L.last_id
  have h2 : last.id = bs.length + 1 := L.prefix.last_id
  unfold isLongest
  simp only [List.head?_cons, getB_mid_new gp ld _ b L]
  simp [midSt, mkE, h1, h2, sumBf]

/-- the state handed to `validate`: new block stored and marked, ring item not yet on the longest chain -/
def preSt (gp : Nat) (ld : Bool) (cs : List ABlock) (b : ABlock) : State :=
  { gp := gp, ring := (b.id % (2 * gp), ({ lc := none, ents := [(b.hash, b.id)] } : RItem)) :: linRing gp cs.reverse,
    ringLc := cs.getLast?.map (fun b => b.id % (2 * gp)), ringEmpty := false,
    blocks := (cs ++ [b]).map (mkE true), utxo := [], loadingDone := ld, amt := [], initSupply := 0 }

theorem map_setLC_fresh (v : Bool) (cs : List ABlock) (h : Nat) (hf : ∀ x ∈ cs, x.hash ≠ h) :
    (cs.map (mkE true)).map (fun e => if e.b.hash == h then { e with inLC := v } else e) = cs.map (mkE true) := by
  rw [List.map_map]
  apply List.map_congr_left
  intro x hx
  have : x.hash ≠ h := hf x hx
  simp [mkE, this]

theorem setLC_mid (gp : Nat) (ld : Bool) (cs : List ABlock) (b : ABlock) (L : Lin gp (cs ++ [b])) :
    setLC { midSt gp ld cs b with ringEmpty := false } b.hash true = preSt gp ld cs b := by
  unfold setLC
  simp only [midSt, preSt, List.map_append, map_setLC_fresh true cs b.hash L.fresh]
  simp [mkE]

theorem getB_pre_new (gp : Nat) (ld : Bool) (cs : List ABlock) (b : ABlock) (L : Lin gp (cs ++ [b])) :
    getB (preSt gp ld cs b) b.hash = some (mkE true b) := by
  unfold getB
  simp only [preSt]
  exact find_mem true (cs ++ [b]) L.nodup b (by simp)

theorem windBlock_pre (gp : Nat) (ld : Bool) (cs : List ABlock) (b : ABlock) (L : Lin gp (cs ++ [b])) :
    windBlock (preSt gp ld cs b) b = linSt gp ld (cs ++ [b]) := by
  have hpl := L.pl b (by simp)
  have hf := filter_fresh gp cs.reverse _ (slot_ne L)
  unfold windBlock ringReorg slotOf setLC
  simp only [preSt, getItem, List.find?_cons, beq_self_eq_true, RItem.reorg, if_true, findIdx, findIdx.go, setItem,
    List.filter_cons, bne_self_eq_false, Bool.false_eq_true, if_false, hf, windU, hpl.2.2.1, hpl.2.2.2.1, List.foldl_nil]
  simp only [linSt, List.reverse_append, List.reverse_cons, List.reverse_nil, List.nil_append, List.singleton_append,
    linRing, linItem, List.getLast?_append, List.getLast?_singleton, Option.map_some, Option.some_or]
  congr 1
  · simp
  · rw [List.map_map]
    apply List.map_congr_left
    intro x _
    simp only [Function.comp, mkE]
    exact ite_self _

/-- on a one-block candidate the every-block ticket rule is the tip rule -/
theorem gtAllValid_pre (gp : Nat) (ld : Bool) (cs : List ABlock) (b : ABlock) (L : Lin gp (cs ++ [b])) :
    gtAllValid (preSt gp ld cs b) [b.hash] = gtCountValid (preSt gp ld cs b) b.prev b.hasGT := by
  unfold gtAllValid blocksOf
  simp only [List.filterMap_cons, List.filterMap_nil, getB_pre_new gp ld cs b L, Option.map_some, mkE,
    List.all_cons, List.all_nil, Bool.and_true]

/-- `validate` on the one-block candidate over an empty old chain, for EVERY flag vector: the repaired loop
    (`windFailureRestores`) starts in `.wind 0 false` like the pinned one and succeeds in one step; the repaired
    ticket rule (`gtEveryBlock`) ranges over the single candidate block, i.e. it is the tip rule. -/
theorem validate_pre (fl : Flags)
    (gp : Nat) (ld : Bool) (cs : List ABlock) (b : ABlock) (L : Lin gp (cs ++ [b])) :
    validate fl (preSt gp ld cs b) [b.hash] [] = some (linSt gp ld (cs ++ [b]), true) := by
  have hpl := L.pl b (by simp)
  have hall : ∀ e ∈ (preSt gp ld cs b).blocks, e.b.hasGT = true := by
    intro e he
    simp only [preSt] at he
    obtain ⟨x, hx, rfl⟩ := List.mem_map.1 he
    exact (L.pl x hx).2.1
  have hgt : gtCountValid (preSt gp ld cs b) b.prev b.hasGT = true := by
    rw [hpl.2.1]; exact gtCountValid_all _ hall _
  have hgta : gtAllValid (preSt gp ld cs b) [b.hash] = true := by
    rw [gtAllValid_pre gp ld cs b L]; exact hgt
  have hv : validB fl (preSt gp ld cs b) b = true := by
    simp [validB, hpl.1, L.onp b (by simp), hpl.2.2.1]
  have hgtOk : (if fl.gtEveryBlock = true then gtAllValid (preSt gp ld cs b) [b.hash]
      else gtCountValid (preSt gp ld cs b) b.prev b.hasGT) = true := by
    split
    · exact hgta
    · exact hgt
  unfold validate
  simp only [List.head?_cons, getB_pre_new gp ld cs b L, mkE, hgtOk, Bool.not_true, Bool.false_eq_true, if_false,
    List.isEmpty_nil, if_true, List.length_cons, List.length_nil]
  cases hw : fl.windFailureRestores with
  | false =>
    simp only [Bool.false_eq_true, if_false]
    show runWR fl [b.hash] [] (27 + 1) (preSt gp ld cs b) (.wind 0 false) = _
    rw [runWR]
    · simp only [stepWR, Bool.false_and, Bool.false_eq_true, if_false, List.getElem?_cons_zero, getB_pre_new gp ld cs b L, mkE, hv,
        if_true, beq_self_eq_true, windBlock_pre gp ld cs b L]
      rfl
    · intro h; cases h
    · intro h; cases h
  | true =>
    simp only [if_true]
    show runWRF fl [b.hash] [] (5 + 1) (preSt gp ld cs b) (.wind 0 false) = _
    rw [runWRF]
    · simp only [stepWRF, Bool.false_and, Bool.false_eq_true, if_false, List.getElem?_cons_zero, getB_pre_new gp ld cs b L, mkE, hv,
        if_true, beq_self_eq_true, windBlock_pre gp ld cs b L]
      rfl
    · intro h; cases h
    · intro h; cases h

theorem checkSupply_lin (gp : Nat) (ld : Bool) (bs : List ABlock) (last : ABlock) (L : Lin gp (bs ++ [last])) :
    checkSupply (linSt gp ld (bs ++ [last])) = some (linSt gp ld (bs ++ [last])) := by
  have hpl := L.pl last (by simp)
  unfold checkSupply
  split
  · rfl
  · rw [latest_lin]
    have hg : getB (linSt gp ld (bs ++ [last])) last.hash = some (mkE true last) := by
      unfold getB
      simp only [linSt]
      exact find_mem true _ L.nodup last (by simp)
    simp only [hg, mkE, hpl.2.2.2.2]
    simp [linSt]

theorem calcOld_self (st : State) (s fuel : Nat) : calcOld st s (fuel + 1) s [] = [] := by
  unfold calcOld
  simp

/-- **Adoption of the next block of a linear all-valid chain, for every length below `genesis_period`** (every
    flag vector, pinned or repaired): the state stays in closed form and the outcome is `added_lc`, whatever the retry queue holds. -/
theorem addBlock_lin (fl : Flags)
    (gp : Nat) (ld : Bool) (bs : List ABlock) (last b : ABlock) (rq : List Nat)
    (L : Lin gp (bs ++ [last] ++ [b])) (hprev : b.prev = last.hash) :
    addBlock fl (linSt gp ld (bs ++ [last])) b rq = (linSt gp ld (bs ++ [last] ++ [b]), Outcome.addedLc) := by
  have h1 := latest_lin gp ld bs last
  have h2 : getB (linSt gp ld (bs ++ [last])) b.hash = none := by
    unfold getB
    simp only [linSt]
    exact find_fresh true _ b.hash L.fresh
  have hlast : getB (linSt gp ld (bs ++ [last])) last.hash = some (mkE true last) := by
    unfold getB
    simp only [linSt]
    exact find_mem true _ L.prefix.nodup last (by simp)
  have h3 : (!(linSt gp ld (bs ++ [last])).ringEmpty && (getB (linSt gp ld (bs ++ [last])) b.prev).isNone) = false := by
    rw [hprev, hlast]; simp
  have hins := insert_lin gp ld (bs ++ [last]) b L
  have h5 : calcNew (insertBlock (linSt gp ld (bs ++ [last])) b) ((insertBlock (linSt gp ld (bs ++ [last])) b).blocks.length + 2)
      b.hash [] = (true, last.hash, [b.hash]) := by
    rw [hins]; exact calcNew_mid gp ld bs last b L hprev _
  rw [addBlock_found fl _ b rq last.id last.hash last.hash [b.hash] h1 h2 h3 h5, hins]
  have hfuel : (midSt gp ld (bs ++ [last]) b).blocks.length + 2 = ((midSt gp ld (bs ++ [last]) b).blocks.length + 1) + 1 := rfl
  rw [hfuel, calcOld_self]
  unfold adoptTail
  rw [latest_mid gp ld bs last b L]
  have hid : b.id = (bs ++ [last]).length + 1 := L.last_id
  have hlid : last.id = bs.length + 1 := L.prefix.last_id
  have hgt : decide (b.id > last.id - (midSt gp ld (bs ++ [last]) b).gp) = true := by
    simp [hid, hlid]; omega
  simp only [hgt, isLongest_mid gp ld bs last b L, Bool.and_self, if_true, setLC_mid gp ld _ b L,
    validate_pre fl gp ld _ b L]
  rw [checkSupply_lin gp ld (bs ++ [last]) b L]

/-! ### a whole chain: prefixes, the ladder -/
theorem take_snoc (c : List ABlock) (m : Nat) (hm : m < c.length) : c.take (m + 1) = c.take m ++ [c[m]] := by
  rw [List.take_add_one]; simp [hm]

theorem Lin.take {gp : Nat} {c : List ABlock} (L : Lin gp c) (m : Nat) : Lin gp (c.take m) := by
  refine ⟨?_, ?_, ?_, ?_, ?_, ?_⟩
  · intro k hk
    have hk' : k < c.length := by simp at hk; omega
    rw [List.getElem_take]; exact L.ids k hk'
  · intro x hx; exact L.nz x (List.mem_of_mem_take hx)
  · exact L.nodup.sublist (List.take_sublist m c)
  · intro x hx; exact L.pl x (List.mem_of_mem_take hx)
  · intro x hx; exact L.onp x (List.mem_of_mem_take hx)
  · have := L.short; simp; omega

/-- every block but the first names its predecessor -/
def Linked (c : List ABlock) : Prop := ∀ k (hk : k + 1 < c.length), (c[k + 1]).prev = (c[k]'(by omega)).hash

theorem addBlock_chain (fl : Flags)
    (gp : Nat) (ld : Bool) (c : List ABlock) (m : Nat) (rq : List Nat) (L : Lin gp c) (hl : Linked c)
    (hm1 : 1 ≤ m) (hm : m < c.length) :
    addBlock fl (linSt gp ld (c.take m)) c[m] rq = (linSt gp ld (c.take (m + 1)), Outcome.addedLc) := by
  obtain ⟨j, rfl⟩ : ∃ j, m = j + 1 := ⟨m - 1, by omega⟩
  have e1 : c.take (j + 1) = c.take j ++ [c[j]] := take_snoc c j (by omega)
  have e2 : c.take (j + 1 + 1) = c.take j ++ [c[j]] ++ [c[j + 1]] := by rw [take_snoc c (j + 1) hm, e1]
  rw [e1, e2]
  apply addBlock_lin fl
  · rw [← e2]; exact L.take _
  · exact hl j hm

theorem getB_lin_none (gp : Nat) (ld : Bool) (c : List ABlock) (m i : Nat) (L : Lin gp c) (hmi : m ≤ i) (hi : i < c.length) :
    getB (linSt gp ld (c.take m)) (c[i]).hash = none := by
  unfold getB
  simp only [linSt]
  apply find_fresh
  intro x hx
  obtain ⟨k, hk, rfl⟩ := List.getElem_of_mem hx
  have hk' : k < m := by simp at hk; omega
  rw [List.getElem_take]
  have := List.pairwise_iff_getElem.1 L.nodup k i (by omega) hi (by omega)
  exact this

/-- the queue argument of `addBlock` matters only on the retry path -/
theorem addBlock_queue_irrelevant (fl : Flags) (st : State) (b : ABlock) (rq : List Nat)
    (h : (!st.ringEmpty && (getB st b.prev).isNone && (b.prev != 0) && st.loadingDone) = false) :
    addBlock fl st b rq = addBlock fl st b [] := by
  unfold addBlock
  cases hl : latest st with
  | none => rfl
  | some p =>
    obtain ⟨lid, lh⟩ := p
    simp only
    by_cases he : (getB st b.hash).isSome = true
    · simp [he]
    · simp only [he]
      simp only [Bool.and_assoc] at h ⊢
      simp only [h]
      rfl

/-- the retry rule: an unknown block whose parent is unknown is bounced and the state is untouched -/
theorem addBlock_retry (fl : Flags) (st : State) (b : ABlock) (rq : List Nat) (lid lh : Nat)
    (hl : latest st = some (lid, lh)) (hn : getB st b.hash = none) (he : st.ringEmpty = false)
    (hp : getB st b.prev = none) (h0 : b.prev ≠ 0) (hld : st.loadingDone = true)
    (hid : b.id > maxOf 1 (lid - st.gp)) :
    ∃ o, addBlock fl st b rq = (st, o) ∧ isRetry o = true := by
  unfold addBlock
  simp only [hl, hn, he, hp, hld, Option.isSome_none, Option.isNone_none, Bool.not_false, Bool.and_self,
    Bool.true_and, Bool.and_true]
  have h0' : (b.prev != 0) = true := by simpa using h0
  simp only [h0', if_true, Bool.false_eq_true, if_false]
  split
  · exact ⟨_, rfl, rfl⟩
  · generalize (if b.id ≥ lid then b.id - lid else lid - b.id) = d
    by_cases hc : d < (if st.gp < 1000 then st.gp else 1000)
    · exact ⟨Outcome.retryPrev, by simp [hc], rfl⟩
    · exact ⟨Outcome.retryChain, by simp [hc], rfl⟩

theorem retry_chain (fl : Flags) (gp : Nat) (c : List ABlock) (m i : Nat) (rq : List Nat) (L : Lin gp c) (hl : Linked c)
    (hm1 : 1 ≤ m) (hmi : m < i) (hi : i < c.length) :
    ∃ o, addBlock fl (linSt gp true (c.take m)) c[i] rq = (linSt gp true (c.take m), o) ∧ isRetry o = true := by
  obtain ⟨j, rfl⟩ : ∃ j, m = j + 1 := ⟨m - 1, by omega⟩
  obtain ⟨i', rfl⟩ : ∃ i', i = i' + 1 := ⟨i - 1, by omega⟩
  have e1 : c.take (j + 1) = c.take j ++ [c[j]] := take_snoc c j (by omega)
  have hlat : latest (linSt gp true (c.take (j + 1))) = some ((c[j]).id, (c[j]).hash) := by
    rw [e1]; exact latest_lin gp true _ _
  have hprev : (c[i' + 1]).prev = (c[i']).hash := hl i' hi
  apply addBlock_retry fl _ _ rq _ _ hlat
  · exact getB_lin_none gp true c (j + 1) (i' + 1) L (by omega) hi
  · show (List.take (j + 1) c).isEmpty = false
    rw [e1]
    cases List.take j c <;> rfl
  · rw [hprev]; exact getB_lin_none gp true c (j + 1) i' L (by omega) (by omega)
  · rw [hprev]; exact L.nz _ (List.getElem_mem _)
  · rfl
  · have h1 : (c[i' + 1]).id = i' + 1 + 1 := L.ids _ hi
    have h2 : (c[j]).id = j + 1 := L.ids _ (by omega)
    have h3 := L.short
    have h4 : (linSt gp true (c.take (j + 1))).gp = gp := rfl
    rw [h1, h2, h4]
    unfold maxOf
    split <;> omega

/-- suffix blocks and in-order states of a linear chain `c` whose first `m0` blocks the node already holds -/
def linBlk (c : List ABlock) (m0 : Nat) (d : ABlock) (i : Nat) : ABlock := c.getD (m0 + i) d
def linSts (gp : Nat) (c : List ABlock) (m0 : Nat) (k : Nat) : State := linSt gp true (c.take (m0 + k))

theorem linBlk_eq (c : List ABlock) (m0 : Nat) (d : ABlock) (i : Nat) (h : m0 + i < c.length) : linBlk c m0 d i = c[m0 + i] := by
  simp [linBlk, List.getD, h]

/-- **the ladder conditions hold for every linear all-valid chain** (any length below `genesis_period`, retry rule on) -/
theorem ladder_lin (fl : Flags) (gp : Nat) (c : List ABlock) (m0 : Nat) (d : ABlock) (L : Lin gp c) (hl : Linked c)
    (hm1 : 1 ≤ m0) (hm : m0 ≤ c.length) :
    Ladder fl (c.length - m0) (linSts gp c m0) (linBlk c m0 d) := by
  refine ⟨?_, ?_, ?_, ?_, ?_⟩
  · intro k hk rq
    have hlt : m0 + k < c.length := by omega
    refine ⟨Outcome.addedLc, ?_, rfl, rfl⟩
    rw [linBlk_eq c m0 d k hlt]
    exact addBlock_chain fl gp true c (m0 + k) rq L hl (by omega) hlt
  · intro k i hki hi rq
    have hlt : m0 + i < c.length := by omega
    rw [linBlk_eq c m0 d i hlt]
    exact retry_chain fl gp c (m0 + k) (m0 + i) rq L hl (by omega) (by omega) hlt
  · intro k i hki hi
    have hlt : m0 + i < c.length := by omega
    rw [linBlk_eq c m0 d i hlt]
    exact getB_lin_none gp true c (m0 + k) (m0 + i) L (by omega) hlt
  · intro i j hij hj
    rw [linBlk_eq c m0 d i (by omega), linBlk_eq c m0 d j (by omega), L.ids _ (by omega), L.ids _ (by omega)]
    omega
  · intro i j hi hj heq
    rw [linBlk_eq c m0 d i (by omega), linBlk_eq c m0 d j (by omega)] at heq
    rcases Nat.lt_trichotomy i j with h | h | h
    · exact absurd heq (List.pairwise_iff_getElem.1 L.nodup (m0 + i) (m0 + j) (by omega) (by omega) (by omega))
    · exact h
    · exact absurd heq.symm (List.pairwise_iff_getElem.1 L.nodup (m0 + j) (m0 + i) (by omega) (by omega) (by omega))

/-! ### making a ladder checkable on concrete (also forked) chains -/
/-- decidable form of the ladder conditions: (1) in-order delivery never bounces or dies and never needs the queue,
    (2) later blocks meet the premises of the retry rule at every earlier state, (3) ids and hashes increase/differ -/
def ladderChecks (fl : Flags) (n : Nat) (sts : Nat → State) (blk : Nat → ABlock) : Bool :=
  (List.range n).all fun k =>
    (!(sts k).ringEmpty && (getB (sts k) (blk k).prev).isNone && ((blk k).prev != 0) && (sts k).loadingDone) == false &&
    (match addBlock fl (sts k) (blk k) [] with
     | (st', o) => st' == sts (k + 1) && !isRetry o && !isFatal o) &&
    (List.range n).all fun i =>
      (decide (i < k) || (getB (sts k) (blk i).hash).isNone) &&
      (decide (i ≤ k) ||
        (match latest (sts k) with
         | some (lid, _) => !(sts k).ringEmpty && (getB (sts k) (blk i).prev).isNone && ((blk i).prev != 0) &&
                            (sts k).loadingDone && decide ((blk i).id > maxOf 1 (lid - (sts k).gp))
         | none => false)) &&
      (decide (i ≤ k) || decide ((blk k).id < (blk i).id)) &&
      (i == k || (blk i).hash != (blk k).hash)

theorem ladder_of_checks (fl : Flags) (n : Nat) (sts : Nat → State) (blk : Nat → ABlock)
    (h : ladderChecks fl n sts blk = true) : Ladder fl n sts blk := by
  unfold ladderChecks at h
  rw [List.all_eq_true] at h
  have hk : ∀ k, k < n → _ := fun k hk => h k (List.mem_range.2 hk)
  refine ⟨?_, ?_, ?_, ?_, ?_⟩
  · intro k hkn rq
    have := hk k hkn
    simp only [Bool.and_eq_true, beq_iff_eq] at this
    obtain ⟨⟨hq, had⟩, _⟩ := this
    rw [addBlock_queue_irrelevant fl (sts k) (blk k) rq hq]
    cases hr : addBlock fl (sts k) (blk k) [] with
    | mk st' o =>
      simp only [hr, Bool.not_eq_true'] at had
      exact ⟨o, by rw [had.1.1], had.1.2, had.2⟩
  · intro k i hki hin rq
    have := hk k (by omega)
    simp only [Bool.and_eq_true] at this
    have hall := this.2
    rw [List.all_eq_true] at hall
    have hi := hall i (List.mem_range.2 hin)
    simp only [Bool.and_eq_true, Bool.or_eq_true, decide_eq_true_eq] at hi
    obtain ⟨⟨⟨hfr, hre⟩, _⟩, _⟩ := hi
    have hfr' : getB (sts k) (blk i).hash = none := by
      rcases hfr with h1 | h1
      · omega
      · simpa using h1
    rcases hre with h1 | h1
    · omega
    · cases hl : latest (sts k) with
      | none => simp [hl] at h1
      | some p =>
        obtain ⟨lid, lh⟩ := p
        simp only [hl, Bool.and_eq_true, Bool.not_eq_true', decide_eq_true_eq, bne_iff_ne, ne_eq] at h1
        obtain ⟨⟨⟨⟨e1, e2⟩, e3⟩, e4⟩, e5⟩ := h1
        exact addBlock_retry fl (sts k) (blk i) rq lid lh hl hfr' e1 (by simpa using e2) e3 e4 e5
  · intro k i hki hin
    rcases Nat.lt_or_ge k n with hkn | hkn
    · have := hk k hkn
      simp only [Bool.and_eq_true] at this
      have hall := this.2
      rw [List.all_eq_true] at hall
      have hi := hall i (List.mem_range.2 hin)
      simp only [Bool.and_eq_true, Bool.or_eq_true, decide_eq_true_eq] at hi
      rcases hi.1.1.1 with h1 | h1
      · omega
      · simpa using h1
    · omega
  · intro i j hij hjn
    have := hk i (by omega)
    simp only [Bool.and_eq_true] at this
    have hall := this.2
    rw [List.all_eq_true] at hall
    have hi := hall j (List.mem_range.2 hjn)
    simp only [Bool.and_eq_true, Bool.or_eq_true, decide_eq_true_eq] at hi
    rcases hi.1.2 with h1 | h1
    · omega
    · exact h1
  · intro i j hin hjn heq
    have := hk j hjn
    simp only [Bool.and_eq_true] at this
    have hall := this.2
    rw [List.all_eq_true] at hall
    have hi := hall i (List.mem_range.2 hin)
    simp only [Bool.and_eq_true, Bool.or_eq_true] at hi
    rcases hi.2 with h1 | h1
    · simpa using h1
    · simp [heq] at h1


end Saito.SyncDelivery
