import Saito.Model.Atr
/-! Helper lemmas for C13: selection, numbering, cap branch and the set algebra of winding ATR transactions. -/
namespace Saito.Atr

/-! ### spendable-set algebra -/
theorem mem_uInsert (u : List Slip) (k x : Slip) : x ∈ uInsert u k ↔ (x = k ∧ k.amt ≠ 0) ∨ x ∈ u := by
  unfold uInsert
  by_cases h0 : k.amt = 0
  · simp [h0]
  · by_cases hc : u.contains k = true
    · have hk : k ∈ u := by simpa using hc
      simp only [hc, Bool.or_true, if_true]
      constructor
      · intro h; exact Or.inr h
      · rintro (⟨h, _⟩ | h)
        · subst h; exact hk
        · exact h
    · have hb : (k.amt == 0) = false := by simpa using h0
      have hk : k ∉ u := by simpa using hc
      simp [hb, hk, h0]

theorem mem_uRemove (u : List Slip) (k x : Slip) : x ∈ uRemove u k ↔ x ∈ u ∧ x ≠ k := by
  simp [uRemove]

theorem mem_foldl_uInsert (ks u : List Slip) (x : Slip) :
    x ∈ ks.foldl uInsert u ↔ (x ∈ ks ∧ x.amt ≠ 0) ∨ x ∈ u := by
  induction ks generalizing u with
  | nil => simp
  | cons k ks ih =>
    simp only [List.foldl_cons, ih, mem_uInsert, List.mem_cons]
    constructor
    · rintro (⟨h, h0⟩ | ⟨h, h0⟩ | h)
      · exact Or.inl ⟨Or.inr h, h0⟩
      · subst h; exact Or.inl ⟨Or.inl rfl, h0⟩
      · exact Or.inr h
    · rintro (⟨h | h, h0⟩ | h)
      · subst h; exact Or.inr (Or.inl ⟨rfl, h0⟩)
      · exact Or.inl ⟨h, h0⟩
      · exact Or.inr (Or.inr h)

theorem mem_foldl_uRemove (ks u : List Slip) (x : Slip) : x ∈ ks.foldl uRemove u ↔ x ∈ u ∧ x ∉ ks := by
  induction ks generalizing u with
  | nil => simp
  | cons k ks ih =>
    simp only [List.foldl_cons, ih, mem_uRemove, List.mem_cons, not_or]
    constructor
    · rintro ⟨⟨h1, h2⟩, h3⟩; exact ⟨h1, h2, h3⟩
    · rintro ⟨h1, h2, h3⟩; exact ⟨⟨h1, h2⟩, h3⟩

theorem mem_windIO (ins outs u : List Slip) (x : Slip) :
    x ∈ windIO ins outs u ↔ (x ∈ outs ∧ x.amt ≠ 0) ∨ (x ∈ u ∧ x ∉ ins) := by
  simp [windIO, mem_foldl_uInsert, mem_foldl_uRemove]

/-! ### selection -/
theorem dispOf_rb {fl : Flags} {p : Params} {u : List Slip} {o : Out} {r : Rb} (h : dispOf fl p u o = .rb r) :
    eligible u o.s = true ∧ feeOf p o < o.s.amt * mult p ∧
    r = { inp := inputOf fl p o.s,
          out := { owner := o.s.owner, blk := 0, ord := 0, idx := 0, amt := o.s.amt * mult p - feeOf p o, typ := typATR },
          src := o.s, fee := feeOf p o } := by
  unfold dispOf at h
  by_cases he : eligible u o.s = true
  · by_cases hf : o.s.amt * mult p > feeOf p o
    · simp only [he, hf, Bool.not_true, Bool.false_eq_true, if_false, if_true, Disp.rb.injEq] at h
      exact ⟨he, hf, h.symm⟩
    · simp [he, hf] at h
  · simp [he] at h

theorem dispOf_dust {fl : Flags} {p : Params} {u : List Slip} {o : Out} (h : dispOf fl p u o = .dust) :
    eligible u o.s = true ∧ o.s.amt * mult p ≤ feeOf p o := by
  unfold dispOf at h
  by_cases he : eligible u o.s = true
  · by_cases hf : o.s.amt * mult p > feeOf p o
    · simp [he, hf] at h
    · exact ⟨he, Nat.le_of_not_gt hf⟩
  · simp [he] at h

theorem dispOf_skip {fl : Flags} {p : Params} {u : List Slip} {o : Out} (h : dispOf fl p u o = .skip) :
    eligible u o.s = false := by
  unfold dispOf at h
  by_cases he : eligible u o.s = true
  · by_cases hf : o.s.amt * mult p > feeOf p o
    · simp [he, hf] at h
    · simp [he, hf] at h
  · simpa using he

theorem mem_rbsPre {fl : Flags} {p : Params} {u : List Slip} {outs : List Out} {r : Rb} :
    r ∈ rbsPre fl p u outs ↔ ∃ o ∈ outs, dispOf fl p u o = .rb r := by
  induction outs with
  | nil => simp [rbsPre]
  | cons o os ih =>
    unfold rbsPre
    cases hd : dispOf fl p u o with
    | rb r' =>
      simp only [List.mem_cons, ih, exists_eq_or_imp, hd, Disp.rb.injEq]
      constructor
      · rintro (h | h)
        · exact Or.inl h.symm
        · exact Or.inr h
      · rintro (h | h)
        · exact Or.inl h.symm
        · exact Or.inr h
    | skip => simp [ih, hd]
    | dust => simp [ih, hd]

theorem mem_dustOf {fl : Flags} {p : Params} {u : List Slip} {outs : List Out} {s : Slip} :
    s ∈ dustOf fl p u outs ↔ ∃ o ∈ outs, dispOf fl p u o = .dust ∧ o.s = s := by
  induction outs with
  | nil => simp [dustOf]
  | cons o os ih =>
    unfold dustOf
    cases hd : dispOf fl p u o with
    | dust =>
      simp only [List.mem_cons, ih, exists_eq_or_imp, hd, true_and]
      constructor
      · rintro (h | h)
        · exact Or.inl h.symm
        · exact Or.inr h
      · rintro (h | h)
        · exact Or.inl h.symm
        · exact Or.inr h
    | skip => simp [ih, hd]
    | rb r' => simp [ih, hd]

theorem rbsPre_src_sublist (fl : Flags) (p : Params) (u : List Slip) (outs : List Out) :
    List.Sublist ((rbsPre fl p u outs).map (·.src)) (outs.map (·.s)) := by
  induction outs with
  | nil => simp [rbsPre]
  | cons o os ih =>
    unfold rbsPre
    cases hd : dispOf fl p u o with
    | rb r' =>
      have := (dispOf_rb hd).2.2
      have hs : r'.src = o.s := by rw [this]
      simp only [List.map_cons, hs]
      exact List.Sublist.cons_cons o.s ih
    | skip => simpa using List.Sublist.cons o.s ih
    | dust => simpa using List.Sublist.cons o.s ih

theorem dustOf_sublist (fl : Flags) (p : Params) (u : List Slip) (outs : List Out) :
    List.Sublist (dustOf fl p u outs) (outs.map (·.s)) := by
  induction outs with
  | nil => simp [dustOf]
  | cons o os ih =>
    unfold dustOf
    cases hd : dispOf fl p u o with
    | dust => simpa using List.Sublist.cons_cons o.s ih
    | skip => simpa using List.Sublist.cons o.s ih
    | rb r' => simpa using List.Sublist.cons o.s ih

/-- distinct outputs have distinct slips -/
theorem eq_of_nodup_map_s {l : List Out} (h : (l.map (·.s)).Nodup) {a b : Out} (ha : a ∈ l) (hb : b ∈ l)
    (hs : a.s = b.s) : a = b := by
  induction l with
  | nil => cases ha
  | cons x xs ih =>
    simp only [List.map_cons, List.nodup_cons, List.mem_map, not_exists, not_and] at h
    rcases List.mem_cons.1 ha with rfl | ha'
    · rcases List.mem_cons.1 hb with rfl | hb'
      · rfl
      · exact absurd hs.symm (h.1 b hb')
    · rcases List.mem_cons.1 hb with rfl | hb'
      · exact absurd hs (h.1 a ha')
      · exact ih h.2 ha' hb'

/-! ### numbering and the cap branch keep inputs, sources, fees and owners -/
theorem number_map_inp (n : Nat) (k : Nat) (l : List Rb) : (number n k l).map (·.inp) = l.map (·.inp) := by
  induction l generalizing k with
  | nil => rfl
  | cons r rs ih => simp [number, ih]

theorem number_map_src (n : Nat) (k : Nat) (l : List Rb) : (number n k l).map (·.src) = l.map (·.src) := by
  induction l generalizing k with
  | nil => rfl
  | cons r rs ih => simp [number, ih]

theorem number_length (n : Nat) (k : Nat) (l : List Rb) : (number n k l).length = l.length := by
  induction l generalizing k with
  | nil => rfl
  | cons r rs ih => simp [number, ih]

theorem mem_number {n : Nat} {k : Nat} {l : List Rb} {r : Rb} (h : r ∈ number n k l) :
    ∃ r0 ∈ l, r.inp = r0.inp ∧ r.src = r0.src ∧ r.fee = r0.fee ∧ r.out.owner = r0.out.owner ∧
      r.out.amt = r0.out.amt ∧ r.out.typ = r0.out.typ ∧ r.out.blk = n := by
  induction l generalizing k with
  | nil => cases h
  | cons x xs ih =>
    simp only [number, List.mem_cons] at h
    rcases h with rfl | h
    · exact ⟨x, List.mem_cons_self, rfl, rfl, rfl, rfl, rfl, rfl, rfl⟩
    · obtain ⟨r0, h0, rest⟩ := ih h
      exact ⟨r0, List.mem_cons_of_mem _ h0, rest⟩

theorem sumBy_number_out (n k : Nat) (l : List Rb) : sumBy (·.out.amt) (number n k l) = sumBy (·.out.amt) l := by
  induction l generalizing k with
  | nil => rfl
  | cons r rs ih => simp [number, sumBy, ih]

theorem finalRbs_map_inp (fl : Flags) (p : Params) (u : List Slip) (outs : List Out) :
    (finalRbs fl p u outs).map (·.inp) = (rbsPre fl p u outs).map (·.inp) := by
  unfold finalRbs
  split
  · simp [List.map_map, Function.comp_def, capRb]
  · rfl

theorem finalRbs_map_src (fl : Flags) (p : Params) (u : List Slip) (outs : List Out) :
    (finalRbs fl p u outs).map (·.src) = (rbsPre fl p u outs).map (·.src) := by
  unfold finalRbs
  split
  · simp [List.map_map, Function.comp_def, capRb]
  · rfl

theorem mem_finalRbs {fl : Flags} {p : Params} {u : List Slip} {outs : List Out} {r : Rb}
    (h : r ∈ finalRbs fl p u outs) :
    ∃ r0 ∈ rbsPre fl p u outs, r.inp = r0.inp ∧ r.src = r0.src ∧ r.fee = r0.fee ∧ r.out.owner = r0.out.owner ∧
      r.out.typ = r0.out.typ ∧
      r.out.amt = (if isCapped fl p u outs then r0.inp.amt * (1 + adjOf fl p u outs) else r0.out.amt) := by
  unfold finalRbs at h
  by_cases hc : isCapped fl p u outs = true
  · simp only [hc, if_true, List.mem_map] at h
    obtain ⟨r0, h0, rfl⟩ := h
    exact ⟨r0, h0, rfl, rfl, rfl, rfl, rfl, by simp [capRb, hc]⟩
  · simp only [hc, Bool.false_eq_true, if_false] at h
    exact ⟨r, h, rfl, rfl, rfl, rfl, rfl, by simp [hc]⟩

/-- every ATR transaction of the step comes from one disposition `.rb` of an output of `e` -/
theorem mem_atrStep_rbs {fl : Flags} {p : Params} {u : List Slip} {outs : List Out} {r : Rb}
    (h : r ∈ (atrStep fl p u outs).rbs) :
    ∃ o ∈ outs, eligible u o.s = true ∧ feeOf p o < o.s.amt * mult p ∧ r.src = o.s ∧ r.inp = inputOf fl p o.s ∧
      r.fee = feeOf p o ∧ r.out.owner = o.s.owner ∧ r.out.typ = typATR ∧ r.out.blk = p.n ∧
      r.out.amt = (if isCapped fl p u outs then (inputOf fl p o.s).amt * (1 + adjOf fl p u outs)
                   else o.s.amt * mult p - feeOf p o) := by
  simp only [atrStep] at h
  obtain ⟨r1, h1, e1, e2, e3, e4, e5, e6, e7⟩ := mem_number h
  obtain ⟨r0, h0, f1, f2, f3, f4, f5, f6⟩ := mem_finalRbs h1
  obtain ⟨o, ho, hd⟩ := mem_rbsPre.1 h0
  obtain ⟨hel, hfee, hr0⟩ := dispOf_rb hd
  refine ⟨o, ho, hel, hfee, ?_, ?_, ?_, ?_, ?_, e7, ?_⟩
  · rw [e2, f2, hr0]
  · rw [e1, f1, hr0]
  · rw [e3, f3, hr0]
  · rw [e4, f4, hr0]
  · rw [e6, f5, hr0]
  · rw [e5, f6, hr0]

theorem atrStep_map_inp (fl : Flags) (p : Params) (u : List Slip) (outs : List Out) :
    (atrStep fl p u outs).rbs.map (·.inp) = (rbsPre fl p u outs).map (·.inp) := by
  simp [atrStep, number_map_inp, finalRbs_map_inp]

theorem atrStep_map_src (fl : Flags) (p : Params) (u : List Slip) (outs : List Out) :
    (atrStep fl p u outs).rbs.map (·.src) = (rbsPre fl p u outs).map (·.src) := by
  simp [atrStep, number_map_src, finalRbs_map_src]

/-- with the repaired input slip (or with multiplier 1) the input of every ATR transaction IS its source output -/
theorem rbsPre_inp_eq_src {fl : Flags} {p : Params} (h : fl.atrSpendsOriginalKey = true ∨ mult p = 1)
    (u : List Slip) (outs : List Out) :
    (rbsPre fl p u outs).map (·.inp) = (rbsPre fl p u outs).map (·.src) := by
  apply List.map_congr_left
  intro r hr
  obtain ⟨o, _, hd⟩ := mem_rbsPre.1 hr
  obtain ⟨_, _, hr0⟩ := dispOf_rb hd
  rw [hr0]
  rcases h with h | h
  · simp [inputOf, h]
  · simp only [inputOf, h, Nat.mul_one]
    split <;> rfl

theorem inputOf_eq {fl : Flags} {p : Params} (h : fl.atrSpendsOriginalKey = true ∨ mult p = 1) (s : Slip) :
    inputOf fl p s = s := by
  rcases h with h | h
  · simp [inputOf, h]
  · simp only [inputOf, h, Nat.mul_one]
    split <;> rfl

/-! ### core statements of C13, parameterised by `KeyOk` -/

/-- the input slip of an ATR transaction carries the utxo key of the output it rebroadcasts: true with the repaired
    flag, and on the pinned tree exactly when the payout multiplier is 1 -/
def KeyOk (fl : Flags) (p : Params) : Prop := fl.atrSpendsOriginalKey = true ∨ mult p = 1


theorem count_nodup {l : List Slip} (h : l.Nodup) (a : Slip) : l.count a = if a ∈ l then 1 else 0 := by
  induction l with
  | nil => simp
  | cons x xs ih =>
    rw [List.nodup_cons] at h
    by_cases hx : x = a
    · subst hx
      have : xs.count x = 0 := by rw [ih h.2]; simp [h.1]
      simp [this]
    · have hxa : (x == a) = false := by simpa using hx
      rw [List.count_cons, ih h.2, hxa]
      have : (a = x) = False := by simp; exact fun h => hx h.symm
      simp [List.mem_cons, this]

/-- selection is exact for ANY flags: every eligible output of `e` is the SOURCE of exactly one ATR transaction or is
    dust-collected exactly once, never both (what holds on the pinned tree whatever the multiplier) -/
theorem exactly_once_src (fl : Flags) (p : Params) (u : List Slip) (outs : List Out)
    (hnd : (outs.map (·.s)).Nodup) (o : Out) (ho : o ∈ outs) (hel : eligible u o.s = true) :
    ((atrStep fl p u outs).rbs.map (·.src)).count o.s + (atrStep fl p u outs).dust.count o.s = 1 := by
  rw [atrStep_map_src]
  have hA : ((rbsPre fl p u outs).map (·.src)).Nodup := List.Nodup.sublist (rbsPre_src_sublist fl p u outs) hnd
  have hD : (dustOf fl p u outs).Nodup := List.Nodup.sublist (dustOf_sublist fl p u outs) hnd
  show ((rbsPre fl p u outs).map (·.src)).count o.s + (dustOf fl p u outs).count o.s = 1
  rw [count_nodup hA, count_nodup hD]
  cases hd : dispOf fl p u o with
  | skip => rw [dispOf_skip hd] at hel; cases hel
  | rb r =>
    have hr : r ∈ rbsPre fl p u outs := mem_rbsPre.2 ⟨o, ho, hd⟩
    have hsrc : r.src = o.s := by rw [(dispOf_rb hd).2.2]
    have h1 : o.s ∈ (rbsPre fl p u outs).map (·.src) := List.mem_map.2 ⟨r, hr, hsrc⟩
    have h2 : o.s ∉ dustOf fl p u outs := by
      intro hmem
      obtain ⟨o', ho', hd', hs'⟩ := mem_dustOf.1 hmem
      have := eq_of_nodup_map_s hnd ho' ho hs'
      subst this
      rw [hd] at hd'; cases hd'
    simp [h1, h2]
  | dust =>
    have h2 : o.s ∈ dustOf fl p u outs := mem_dustOf.2 ⟨o, ho, hd, rfl⟩
    have h1 : o.s ∉ (rbsPre fl p u outs).map (·.src) := by
      intro hmem
      obtain ⟨r, hr, hsrc⟩ := List.mem_map.1 hmem
      obtain ⟨o', ho', hd'⟩ := mem_rbsPre.1 hr
      have hs' : o'.s = o.s := by rw [← hsrc, (dispOf_rb hd').2.2]
      have := eq_of_nodup_map_s hnd ho' ho hs'
      subst this
      rw [hd] at hd'; cases hd'
    simp [h1, h2]

theorem exactly_once_core {fl : Flags} {p : Params} (hk : KeyOk fl p) (u : List Slip) (outs : List Out)
    (hnd : (outs.map (·.s)).Nodup) (o : Out) (ho : o ∈ outs) (hel : eligible u o.s = true) :
    ((atrStep fl p u outs).rbs.map (·.inp)).count o.s + (atrStep fl p u outs).dust.count o.s = 1 := by
  have := exactly_once_src fl p u outs hnd o ho hel
  rw [atrStep_map_src] at this
  rw [atrStep_map_inp, rbsPre_inp_eq_src hk]
  exact this

theorem same_owner_value_core {fl : Flags} {p : Params} (hk : KeyOk fl p) (u : List Slip) (outs : List Out)
    (r : Rb) (hr : r ∈ (atrStep fl p u outs).rbs) :
    r.inp = r.src ∧ r.out.owner = r.inp.owner ∧ r.out.typ = typATR ∧
    ((atrStep fl p u outs).capped = false →
        r.out.amt + r.fee = r.inp.amt + r.inp.amt * (mult p - 1) ∧ r.fee < r.inp.amt * mult p) ∧
    ((atrStep fl p u outs).capped = true → r.out.amt = r.inp.amt + r.inp.amt * adjOf fl p u outs) := by
  obtain ⟨o, _, _, hfee, hsrc, hinp, hf, hown, htyp, _, hamt⟩ := mem_atrStep_rbs hr
  rw [inputOf_eq hk] at hinp hamt
  have hm : 1 ≤ mult p := by unfold mult; omega
  refine ⟨by rw [hinp, hsrc], by rw [hown, hinp], htyp, ?_, ?_⟩
  · intro hc
    have hc' : isCapped fl p u outs = false := hc
    rw [hc'] at hamt
    simp only [Bool.false_eq_true, if_false] at hamt
    rw [hamt, hf, hinp]
    constructor
    · obtain ⟨k, hk'⟩ : ∃ k, mult p = k + 1 := ⟨mult p - 1, by omega⟩
      rw [hk'] at hfee ⊢
      rw [Nat.mul_succ] at hfee ⊢
      simp only [Nat.add_sub_cancel]
      omega
    · exact hfee
  · intro hc
    have hc' : isCapped fl p u outs = true := hc
    rw [hc'] at hamt
    simp only [if_true] at hamt
    rw [hamt, hinp, Nat.mul_add, Nat.mul_one]

theorem original_unspendable_core {fl : Flags} {p : Params} (hk : KeyOk fl p) (u : List Slip) (outs : List Out)
    (hblk : ∀ o ∈ outs, o.s.blk < p.n) (r : Rb) (hr : r ∈ (atrStep fl p u outs).rbs) :
    r.src ∉ windAtr (atrStep fl p u outs).rbs u := by
  intro hmem
  obtain ⟨o, ho, _, _, hsrc, hinp, _⟩ := mem_atrStep_rbs hr
  rw [inputOf_eq hk] at hinp
  rcases (mem_windIO _ _ _ _).1 hmem with ⟨h, _⟩ | ⟨_, h⟩
  · obtain ⟨r', hr', he⟩ := List.mem_map.1 h
    obtain ⟨_, _, _, _, _, _, _, _, _, hb, _⟩ := mem_atrStep_rbs hr'
    have : r.src.blk = p.n := by rw [← he]; exact hb
    have h2 := hblk o ho
    rw [hsrc] at this
    omega
  · exact h (List.mem_map.2 ⟨r, hr, by rw [hinp, hsrc]⟩)

theorem nothing_else_core {fl : Flags} {p : Params} (hk : KeyOk fl p) (u : List Slip) (outs : List Out)
    (r : Rb) (hr : r ∈ (atrStep fl p u outs).rbs) :
    ∃ o ∈ outs, eligible u o.s = true ∧ feeOf p o < o.s.amt * mult p ∧ r.inp = o.s := by
  obtain ⟨o, ho, hel, hfee, _, hinp, _⟩ := mem_atrStep_rbs hr
  rw [inputOf_eq hk] at hinp
  exact ⟨o, ho, hel, hfee, hinp⟩

theorem not_twice_core {fl : Flags} {p : Params} (hk : KeyOk fl p) (u : List Slip) (outs : List Out)
    (hnd : (outs.map (·.s)).Nodup) : ((atrStep fl p u outs).rbs.map (·.inp)).Nodup := by
  rw [atrStep_map_inp, rbsPre_inp_eq_src hk]
  exact List.Nodup.sublist (rbsPre_src_sublist fl p u outs) hnd

/-- an output rebroadcast by block `n` is not selected again (neither rebroadcast nor dust-collected) by any later
    evaluation of the ATR section against the ledger after block `n`, whatever the later parameters -/
theorem not_twice_later_core {fl : Flags} {p : Params} (hk : KeyOk fl p) (u : List Slip) (outs : List Out)
    (hblk : ∀ o ∈ outs, o.s.blk < p.n) (p' : Params) (o : Out)
    (hsrc : o.s ∈ (atrStep fl p u outs).rbs.map (·.src)) :
    dispOf fl p' (windAtr (atrStep fl p u outs).rbs u) o = .skip := by
  obtain ⟨r, hr, hrs⟩ := List.mem_map.1 hsrc
  have hgone := original_unspendable_core hk u outs hblk r hr
  rw [hrs] at hgone
  obtain ⟨o', _, _, hfee, hsrc', _⟩ := mem_atrStep_rbs hr
  have hpos : o.s.amt ≠ 0 := by
    intro h0
    rw [hrs] at hsrc'
    rw [← hsrc', h0] at hfee
    simp at hfee
  have hne : eligible (windAtr (atrStep fl p u outs).rbs u) o.s = false := by
    unfold eligible
    have h1 : (o.s.amt == 0) = false := by simpa using hpos
    have h2 : (windAtr (atrStep fl p u outs).rbs u).contains o.s = false := by
      rw [Bool.eq_false_iff]; intro hc; exact hgone (by simpa using hc)
    rw [h1, h2]; rfl
  unfold dispOf
  simp [hne]



/-- under `KeyOk` every ATR transaction of the produced block spends a slip that passes `Slip::validate`, so
    propagating the transaction verdict never rejects an honestly produced block -/
theorem atrInputsValid_of_keyOk {fl : Flags} {p : Params} (hk : KeyOk fl p) (u : List Slip) (outs : List Out) :
    atrInputsValid fl p u outs = true := by
  have hk' : KeyOk fl { p with selfTreasury := 0 } := by
    rcases hk with h | h
    · exact Or.inl h
    · exact Or.inr (by simpa [mult] using h)
  unfold atrInputsValid produce
  rw [List.all_eq_true]
  intro r hr
  obtain ⟨o, _, hel, _, hinp⟩ := nothing_else_core hk' u outs r hr
  rw [hinp]; exact hel

end Saito.Atr
