import Saito.Model.Handshake
/-!
# Invariants of the handshake model (C17)

`Inv H st` = `LogInv` (facts about the history: freshness of nonces, every `accepted` preceded by its `issued` and `signed`,
at most one acceptance per (connection, nonce), origin of signatures) ∧ `PInv` (every peer entry is consistent with the
history) ∧ `AInv` (every `address_to_peers` entry is backed by an acceptance). `inv_step` : preserved by every operation.
-/
namespace Saito.Hs
variable {fx : Bool}

/-! ## association lists -/

theorem mget_mset {β : Type} (m : List ((Nat × Nat) × β)) (a a' : Nat × Nat) (b : β) :
    mget (mset m a b) a' = if a = a' then some b else mget m a' := by
  induction m with
  | nil => simp [mset, mget]
  | cons x r ih =>
    obtain ⟨x1, x2⟩ := x
    simp only [mset]
    by_cases h : x1 = a
    · subst h
      by_cases h' : x1 = a' <;> simp [mget, h']
    · by_cases h' : a = a'
      · subst h'
        simp [mget, h, ih]
      · simp [mget, h, h', ih]

theorem mget_merase {β : Type} (m : List ((Nat × Nat) × β)) (a a' : Nat × Nat) :
    mget (merase m a) a' = if a = a' then none else mget m a' := by
  induction m with
  | nil => simp [merase, mget]
  | cons x r ih =>
    obtain ⟨x1, x2⟩ := x
    simp only [merase]
    by_cases h : x1 = a
    · subst h
      simp only [if_true]
      rw [ih]
      by_cases h' : x1 = a'
      · simp [h']
      · simp [mget, h']
    · by_cases h' : a = a'
      · subst h'
        simp [mget, h, ih]
      · simp [mget, h, h', ih]

/-! ## history -/

/-- `e` is an acceptance on connection `(node, c)` against nonce `n` (under any key) -/
def accOn (node c n : Nat) : Event → Bool
  | .accepted node' c' _ n' => node' == node && c' == c && n' == n
  | _ => false

/-- what must already be in the history when `e` is appended -/
def EvOK (rest : List Event) : Event → Prop
  | .accepted node c k n => .issued node c n ∈ rest ∧ ∃ src, .signed k n src ∈ rest
  | .signed _ n _ => n = 0 ∨ ∃ node c, .issued node c n ∈ rest
  | .issued _ _ _ => True

/-- the history (newest first) is well-founded: every event's prerequisites occur strictly earlier -/
def LogOK : List Event → Prop
  | [] => True
  | e :: rest => EvOK rest e ∧ LogOK rest

theorem LogOK_split {pre post : List Event} {e : Event} (h : LogOK (pre ++ e :: post)) : EvOK post e := by
  induction pre with
  | nil => exact h.1
  | cons x r ih => exact ih h.2

theorem EvOK_of_mem {log : List Event} {e : Event} (h : LogOK log) (he : e ∈ log) :
    ∃ pre post, log = pre ++ e :: post ∧ EvOK post e := by
  obtain ⟨pre, post, hs⟩ := List.append_of_mem he
  exact ⟨pre, post, hs, LogOK_split (hs ▸ h)⟩

theorem acc_issued {log : List Event} (h : LogOK log) {node c k n : Nat} (he : Event.accepted node c k n ∈ log) :
    Event.issued node c n ∈ log := by
  obtain ⟨pre, post, hs, hok⟩ := EvOK_of_mem h he
  rw [hs]
  exact List.mem_append_right _ (List.mem_cons_of_mem _ hok.1)

theorem countP_accOn_zero {log : List Event} {node c n : Nat}
    (h : ∀ k, Event.accepted node c k n ∉ log) : log.countP (accOn node c n) = 0 := by
  rw [List.countP_eq_zero]
  intro e he
  cases e with
  | accepted node' c' k' n' =>
    simp only [accOn, Bool.and_eq_true, beq_iff_eq, not_and]
    intro h1 h3
    obtain ⟨rfl, rfl⟩ := h1
    subst h3
    exact h k' he
  | issued _ _ _ => simp [accOn]
  | signed _ _ _ => simp [accOn]

structure LogInv (H next : Nat) (sigs : List (Nat × Nat)) (log : List Event) : Prop where
  nextPos : 0 < next
  issuedLt : ∀ node c n, Event.issued node c n ∈ log → 0 < n ∧ n < next
  allIssued : ∀ n, 0 < n → n < next → ∃ node c, Event.issued node c n ∈ log
  issuedUnique : ∀ node c node' c' n, Event.issued node c n ∈ log → Event.issued node' c' n ∈ log → node = node' ∧ c = c'
  sigSigned : ∀ k n, (k, n) ∈ sigs → ∃ src, Event.signed k n src ∈ log
  logOK : LogOK log
  accOnce : ∀ node c n, log.countP (accOn node c n) ≤ 1
  attSig : ∀ k n, Event.signed k n none ∈ log → H ≤ k
  honSig : ∀ k n c, Event.signed k n (some c) ∈ log → k < H

theorem LogInv.signed {H next : Nat} {sigs : List (Nat × Nat)} {log : List Event}
    (h : LogInv H next sigs log) (k n : Nat) (src : Option Nat) (hn : n < next)
    (hsrc : match src with | none => H ≤ k | some _ => k < H) :
    LogInv H next ((k, n) :: sigs) (.signed k n src :: log) := by
  refine ⟨h.nextPos, ?_, ?_, ?_, ?_, ?_, ?_, ?_, ?_⟩
  · intro node c m hm
    simp only [List.mem_cons, reduceCtorEq, false_or] at hm
    exact h.issuedLt node c m hm
  · intro m h0 h1
    obtain ⟨node, c, hm⟩ := h.allIssued m h0 h1
    exact ⟨node, c, List.mem_cons_of_mem _ hm⟩
  · intro node c node' c' m h1 h2
    simp only [List.mem_cons, reduceCtorEq, false_or] at h1 h2
    exact h.issuedUnique node c node' c' m h1 h2
  · intro k' n' hm
    simp only [List.mem_cons, Prod.mk.injEq] at hm
    rcases hm with ⟨rfl, rfl⟩ | hm
    · exact ⟨src, List.mem_cons_self⟩
    · obtain ⟨s, hs⟩ := h.sigSigned k' n' hm
      exact ⟨s, List.mem_cons_of_mem _ hs⟩
  · refine ⟨?_, h.logOK⟩
    show n = 0 ∨ ∃ node c, Event.issued node c n ∈ log
    by_cases h0 : n = 0
    · exact Or.inl h0
    · exact Or.inr (h.allIssued n (Nat.pos_of_ne_zero h0) hn)
  · intro node c m
    rw [List.countP_cons]
    simpa [accOn] using h.accOnce node c m
  · intro k' n' hm
    simp only [List.mem_cons, Event.signed.injEq] at hm
    rcases hm with ⟨rfl, rfl, hs⟩ | hm
    · subst hs; exact hsrc
    · exact h.attSig k' n' hm
  · intro k' n' c hm
    simp only [List.mem_cons, Event.signed.injEq] at hm
    rcases hm with ⟨rfl, rfl, hs⟩ | hm
    · subst hs; exact hsrc
    · exact h.honSig k' n' c hm

theorem LogInv.issued {H next : Nat} {sigs : List (Nat × Nat)} {log : List Event}
    (h : LogInv H next sigs log) (node c : Nat) :
    LogInv H (next + 1) sigs (.issued node c next :: log) := by
  refine ⟨Nat.succ_pos _, ?_, ?_, ?_, ?_, ?_, ?_, ?_, ?_⟩
  · intro node' c' m hm
    simp only [List.mem_cons, Event.issued.injEq] at hm
    rcases hm with ⟨_, _, rfl⟩ | hm
    · exact ⟨h.nextPos, Nat.lt_succ_self _⟩
    · have := h.issuedLt node' c' m hm
      exact ⟨this.1, Nat.lt_succ_of_lt this.2⟩
  · intro m h0 h1
    by_cases hm : m = next
    · subst hm; exact ⟨node, c, List.mem_cons_self⟩
    · obtain ⟨node', c', hm'⟩ := h.allIssued m h0 (by omega)
      exact ⟨node', c', List.mem_cons_of_mem _ hm'⟩
  · intro n1 c1 n2 c2 m h1 h2
    simp only [List.mem_cons, Event.issued.injEq] at h1 h2
    rcases h1 with ⟨rfl, rfl, rfl⟩ | h1 <;> rcases h2 with ⟨rfl, rfl, h2e⟩ | h2
    · exact ⟨rfl, rfl⟩
    · have := (h.issuedLt _ _ _ h2).2; omega
    · have := (h.issuedLt _ _ _ h1).2; omega
    · exact h.issuedUnique _ _ _ _ _ h1 h2
  · intro k n hm
    obtain ⟨s, hs⟩ := h.sigSigned k n hm
    exact ⟨s, List.mem_cons_of_mem _ hs⟩
  · exact ⟨trivial, h.logOK⟩
  · intro node' c' m
    rw [List.countP_cons]
    simpa [accOn] using h.accOnce node' c' m
  · intro k n hm
    simp only [List.mem_cons, reduceCtorEq, false_or] at hm
    exact h.attSig k n hm
  · intro k n c' hm
    simp only [List.mem_cons, reduceCtorEq, false_or] at hm
    exact h.honSig k n c' hm

theorem LogInv.accepted {H next : Nat} {sigs : List (Nat × Nat)} {log : List Event}
    (h : LogInv H next sigs log) (node c k n : Nat)
    (hi : Event.issued node c n ∈ log) (hs : (k, n) ∈ sigs)
    (hnew : ∀ k', Event.accepted node c k' n ∉ log) :
    LogInv H next sigs (.accepted node c k n :: log) := by
  refine ⟨h.nextPos, ?_, ?_, ?_, ?_, ?_, ?_, ?_, ?_⟩
  · intro node' c' m hm
    simp only [List.mem_cons, reduceCtorEq, false_or] at hm
    exact h.issuedLt node' c' m hm
  · intro m h0 h1
    obtain ⟨node', c', hm⟩ := h.allIssued m h0 h1
    exact ⟨node', c', List.mem_cons_of_mem _ hm⟩
  · intro n1 c1 n2 c2 m h1 h2
    simp only [List.mem_cons, reduceCtorEq, false_or] at h1 h2
    exact h.issuedUnique _ _ _ _ _ h1 h2
  · intro k' n' hm
    obtain ⟨s, hs'⟩ := h.sigSigned k' n' hm
    exact ⟨s, List.mem_cons_of_mem _ hs'⟩
  · exact ⟨⟨hi, h.sigSigned k n hs⟩, h.logOK⟩
  · intro node' c' m
    rw [List.countP_cons]
    by_cases hsame : accOn node' c' m (.accepted node c k n) = true
    · simp only [accOn, Bool.and_eq_true, beq_iff_eq] at hsame
      obtain ⟨⟨rfl, rfl⟩, rfl⟩ := hsame
      rw [countP_accOn_zero hnew]
      simp [accOn]
    · simp only [hsame, Bool.false_eq_true, if_false, Nat.add_zero]
      exact h.accOnce node' c' m
  · intro k' n' hm
    simp only [List.mem_cons, reduceCtorEq, false_or] at hm
    exact h.attSig k' n' hm
  · intro k' n' c' hm
    simp only [List.mem_cons, reduceCtorEq, false_or] at hm
    exact h.honSig k' n' c' hm

/-! ## peer entries and `address_to_peers` against the history -/

/-- a peer entry of connection `(node, c)` agrees with the history -/
structure PeerOK (log : List Event) (node c : Nat) (p : Peer) : Prop where
  /-- a stored challenge was issued on this very connection -/
  chIssued : ∀ n, p.challenge = some n → Event.issued node c n ∈ log
  /-- a challenge that was accepted is not stored any more -/
  accCleared : ∀ k n, Event.accepted node c k n ∈ log → p.challenge ≠ some n
  /-- Connected ⇒ a key is set and an acceptance under that key on this connection is in the history -/
  connAcc : p.status = .connected → ∃ k n, p.key = some k ∧ Event.accepted node c k n ∈ log

def PInv (peers : List ((Nat × Nat) × Peer)) (log : List Event) : Prop :=
  ∀ node c p, mget peers (node, c) = some p → PeerOK log node c p

def AInv (addr : List ((Nat × Nat) × Nat)) (log : List Event) : Prop :=
  ∀ node k c, mget addr (node, k) = some c → ∃ n, Event.accepted node c k n ∈ log

/-- the history grew by events none of which is an acceptance on `(node, c)` -/
theorem PeerOK.mono {log log' : List Event} {node c : Nat} {p : Peer} (h : PeerOK log node c p)
    (hsub : ∀ e, e ∈ log → e ∈ log')
    (hacc : ∀ k n, Event.accepted node c k n ∈ log' → Event.accepted node c k n ∈ log) : PeerOK log' node c p :=
  ⟨fun n hn => hsub _ (h.chIssued n hn), fun k n ha => h.accCleared k n (hacc k n ha),
   fun hc => by
     obtain ⟨k, n, hk, ha⟩ := h.connAcc hc
     exact ⟨k, n, hk, hsub _ ha⟩⟩

theorem PInv.mset {peers : List ((Nat × Nat) × Peer)} {log' : List Event} {node c : Nat} {p' : Peer}
    (hothers : ∀ node' c' p, mget peers (node', c') = some p → (node, c) ≠ (node', c') → PeerOK log' node' c' p)
    (hp : PeerOK log' node c p') : PInv (Hs.mset peers (node, c) p') log' := by
  intro node' c' p hget
  rw [mget_mset] at hget
  by_cases heq : (node, c) = (node', c')
  · simp only [heq, if_true, Option.some.injEq] at hget
    obtain ⟨rfl, rfl⟩ := Prod.mk.inj heq
    exact hget ▸ hp
  · simp only [heq, if_false] at hget
    exact hothers node' c' p hget heq

theorem PInv.merase {peers : List ((Nat × Nat) × Peer)} {log : List Event} (h : PInv peers log) (a : Nat × Nat) :
    PInv (Hs.merase peers a) log := by
  intro node' c' p hget
  rw [mget_merase] at hget
  by_cases heq : a = (node', c')
  · simp [heq] at hget
  · simp only [heq, if_false] at hget
    exact h node' c' p hget

theorem AInv.mono {addr : List ((Nat × Nat) × Nat)} {log log' : List Event} (h : AInv addr log)
    (hsub : ∀ e, e ∈ log → e ∈ log') : AInv addr log' := by
  intro node k c hget
  obtain ⟨n, hn⟩ := h node k c hget
  exact ⟨n, hsub _ hn⟩

theorem AInv.merase {addr : List ((Nat × Nat) × Nat)} {log : List Event} (h : AInv addr log) (a : Nat × Nat) :
    AInv (Hs.merase addr a) log := by
  intro node k c hget
  rw [mget_merase] at hget
  by_cases heq : a = (node, k)
  · simp [heq] at hget
  · simp only [heq, if_false] at hget
    exact h node k c hget

theorem AInv.mset {addr : List ((Nat × Nat) × Nat)} {log : List Event} (h : AInv addr log) (node k c n : Nat)
    (ha : Event.accepted node c k n ∈ log) : AInv (Hs.mset addr (node, k) c) log := by
  intro node' k' c' hget
  rw [mget_mset] at hget
  by_cases heq : (node, k) = (node', k')
  · simp only [heq, if_true, Option.some.injEq] at hget
    obtain ⟨rfl, rfl⟩ := Prod.mk.inj heq
    exact ⟨n, hget ▸ ha⟩
  · simp only [heq, if_false] at hget
    exact h node' k' c' hget

/-! ## the invariant -/

structure Inv (H : Nat) (st : State) : Prop where
  log : LogInv H st.next st.sigs st.log
  peers : PInv st.peers st.log
  addr : AInv st.addr st.log

theorem inv_init (H : Nat) : Inv H init := by
  refine ⟨⟨by decide, ?_, ?_, ?_, ?_, trivial, ?_, ?_, ?_⟩, ?_, ?_⟩
  all_goals simp [init, PInv, AInv, mget]
  intro n h0 h1
  omega

/-- replacing one peer entry without touching the history -/
theorem Inv.setPeer {H : Nat} {st : State} (h : Inv H st) (node c : Nat) (p' : Peer)
    (hp : PeerOK st.log node c p') : Inv H { st with peers := Hs.mset st.peers (node, c) p' } :=
  ⟨h.log, PInv.mset (fun node' c' p hg _ => h.peers node' c' p hg) hp, h.addr⟩

theorem PeerOK.markDisconnected {log : List Event} {node c : Nat} {p : Peer} :
    PeerOK log node c (markDisconnected p) :=
  ⟨by simp [Hs.markDisconnected], by simp [Hs.markDisconnected], by simp [Hs.markDisconnected]⟩

theorem inv_addStatic {H : Nat} {st : State} (h : Inv H st) (node c : Nat) : Inv H (addStatic st node c).1 := by
  unfold addStatic
  split
  · exact h
  · exact h.setPeer node c _ ⟨by simp, by simp, by simp⟩

theorem inv_disconnect {H : Nat} {st : State} (h : Inv H st) (node c : Nat) : Inv H (disconnect st node c).1 := by
  unfold disconnect
  split
  · exact h
  · exact h.setPeer node c _ PeerOK.markDisconnected

theorem inv_failResponse {H : Nat} {st : State} (h : Inv H st) (node c : Nat) (p : Peer) :
    Inv H (failResponse st node c p).1 :=
  h.setPeer node c _ PeerOK.markDisconnected

/-- storing a fresh challenge on `(node, c)`: `q` is the entry before (if any) with status/key possibly changed to a
    non-Connected status -/
theorem inv_issue {H : Nat} {st : State} (h : Inv H st) (node c : Nat) (q : Peer)
    (hq : q.status = .connected → ∃ k n, q.key = some k ∧ Event.accepted node c k n ∈ st.log) :
    Inv H { st with peers := Hs.mset st.peers (node, c) { q with challenge := some st.next },
                    next := st.next + 1,
                    log := .issued node c st.next :: st.log } := by
  refine ⟨h.log.issued node c, ?_, h.addr.mono fun e he => List.mem_cons_of_mem _ he⟩
  apply PInv.mset
  · intro node' c' p hg _
    exact (h.peers node' c' p hg).mono (fun e he => List.mem_cons_of_mem _ he)
      (fun k n ha => by simpa using ha)
  · refine ⟨?_, ?_, ?_⟩
    · intro n hn
      simp only [Option.some.injEq] at hn
      subst hn
      exact List.mem_cons_self
    · intro k n ha hn
      simp only [Option.some.injEq] at hn
      subst hn
      simp only [List.mem_cons, reduceCtorEq, false_or] at ha
      have := (h.log.issuedLt _ _ _ (acc_issued h.log.logOK ha)).2
      omega
    · intro hc
      obtain ⟨k, n, hk, ha⟩ := hq hc
      exact ⟨k, n, hk, List.mem_cons_of_mem _ ha⟩

theorem inv_connect {H : Nat} {st : State} (h : Inv H st) (node c : Nat) : Inv H (connect st node c).1 := by
  unfold connect
  split
  · rename_i p hg
    simp only
    split
    · refine h.setPeer node c _ ⟨?_, ?_, by simp⟩
      · exact (h.peers node c p hg).chIssued
      · exact (h.peers node c p hg).accCleared
    · exact inv_issue h node c _ (by simp)
  · simp only
    split
    · exact h.setPeer node c _ ⟨by simp, by simp, by simp⟩
    · exact inv_issue h node c _ (by simp)

/-- appending a signature by an honest node or the attacker -/
theorem Inv.sign {H : Nat} {st : State} (h : Inv H st) (k n : Nat) (src : Option Nat) (hn : n < st.next)
    (hsrc : match src with | none => H ≤ k | some _ => k < H) :
    Inv H { st with sigs := (k, n) :: st.sigs, log := .signed k n src :: st.log } :=
  ⟨h.log.signed k n src hn hsrc,
   fun node c p hg => (h.peers node c p hg).mono (fun e he => List.mem_cons_of_mem _ he) (fun k n ha => by simpa using ha),
   h.addr.mono fun e he => List.mem_cons_of_mem _ he⟩

theorem inv_deliverChallenge {H : Nat} {st : State} (h : Inv H st) (node c n : Nat) (hnode : node < H)
    (hn : n < st.next) : Inv H (deliverChallenge st node c n).1 := by
  unfold deliverChallenge
  split
  · exact h
  · rename_i p hg
    have h1 := h.sign node n (some c) hn hnode
    have hg' : mget ({ st with sigs := (node, n) :: st.sigs, log := Event.signed node n (some c) :: st.log } : State).peers (node, c) = some p := hg
    have := inv_issue h1 node c p (fun hc => by
      obtain ⟨k, m, hk, ha⟩ := (h1.peers node c p hg').connAcc hc
      exact ⟨k, m, hk, ha⟩)
    exact this

theorem inv_attackerSign {H : Nat} {st : State} (h : Inv H st) (k n : Nat) : Inv H (attackerSign H st k n).1 := by
  unfold attackerSign
  split
  · rename_i hc
    exact h.sign k n none hc.2 hc.1
  · exact h

theorem PeerOK.withStatic {log : List Event} {node c : Nat} {p : Peer} (h : PeerOK log node c p) (b : Bool) :
    PeerOK log node c { p with isStatic := b } := ⟨h.chIssued, h.accCleared, h.connAcc⟩

theorem inv_reconnect {H : Nat} {st : State} (h : Inv H st) (node c : Nat) (p1 : Peer) (k pick n : Nat)
    (hp : PeerOK st.log node c p1) (ha : Event.accepted node c k n ∈ st.log) :
    Inv H (reconnect st node c p1 k pick) := by
  unfold reconnect
  simp only
  split
  · refine ⟨h.log, ?_, h.addr.merase _⟩
    apply PInv.mset
    · intro node' c' p hg _
      exact h.peers.merase _ node' c' p hg
    · exact hp.withStatic _
  · exact ⟨h.log, h.peers, h.addr.mset node k c n ha⟩

/-- the state after the peer-level success exit satisfies the invariant, the new entry agrees with the new history and the
    acceptance is recorded -/
theorem inv_peerAccept {H : Nat} {st : State} (h : Inv H st) (node c : Nat) (p : Peer) (r : Response) (n : Nat)
    (hnode : node < H) (hg : mget st.peers (node, c) = some p) (hch : p.challenge = some n)
    (hsig : (r.key, n) ∈ st.sigs) (hrc : r.challenge < st.next) :
    Inv H (peerAccept st node c p r n).2.1 ∧
    PeerOK (peerAccept st node c p r n).2.1.log node c (peerAccept st node c p r n).1 ∧
    Event.accepted node c r.key n ∈ (peerAccept st node c p r n).2.1.log := by
  have hpok := h.peers node c p hg
  have hnew : ∀ k', Event.accepted node c k' n ∉ st.log := fun k' ha => hpok.accCleared k' n ha hch
  have hlogA := h.log.accepted node c r.key n (hpok.chIssued n hch) hsig hnew
  -- the state after the acceptance event
  have hp1 : PeerOK (Event.accepted node c r.key n :: st.log) node c
      { p with status := .connected, key := some r.key, challenge := none } :=
    ⟨by simp, by simp, fun _ => ⟨r.key, n, rfl, List.mem_cons_self⟩⟩
  have hA : Inv H { st with peers := Hs.mset st.peers (node, c) { p with status := .connected, key := some r.key, challenge := none },
                            log := .accepted node c r.key n :: st.log } := by
    refine ⟨hlogA, ?_, h.addr.mono fun e he => List.mem_cons_of_mem _ he⟩
    apply PInv.mset
    · intro node' c' p' hg' hne
      refine (h.peers node' c' p' hg').mono (fun e he => List.mem_cons_of_mem _ he) ?_
      intro k m ha
      simp only [List.mem_cons, Event.accepted.injEq] at ha
      rcases ha with ⟨rfl, rfl, _, _⟩ | ha
      · exact absurd rfl hne
      · exact ha
    · exact hp1
  unfold peerAccept
  simp only
  split
  · exact ⟨hA, hp1, List.mem_cons_self⟩
  · refine ⟨hA.sign node r.challenge (some c) hrc hnode, ?_, ?_⟩
    · exact hp1.mono (fun e he => List.mem_cons_of_mem _ he) (fun k m ha => by simpa using ha)
    · exact List.mem_cons_of_mem _ List.mem_cons_self

theorem inv_acceptResponse {H : Nat} {st : State} (h : Inv H st) (node c : Nat) (p : Peer) (r : Response) (n pick : Nat)
    (hnode : node < H) (hg : mget st.peers (node, c) = some p) (hch : p.challenge = some n)
    (hsig : (r.key, n) ∈ st.sigs) (hrc : r.challenge < st.next) :
    Inv H (acceptResponse st node c p r n pick).1 := by
  obtain ⟨h1, h2, h3⟩ := inv_peerAccept h node c p r n hnode hg hch hsig hrc
  exact inv_reconnect h1 node c _ r.key pick n h2 h3

theorem inv_deliverResponse {H : Nat} {st : State} (h : Inv H st) (node c : Nat) (r : Response) (pick : Nat)
    (hnode : node < H) (hrc : r.challenge < st.next) (hs : ∀ s, r.sig = some s → s ∈ st.sigs) :
    Inv H (deliverResponse fx st node c r pick).1 := by
  unfold deliverResponse
  split
  · exact h
  · rename_i p hg
    split
    · exact inv_failResponse h node c p
    · split
      · exact inv_failResponse h node c p
      · rename_i n hch
        split
        · exact inv_failResponse h node c p
        · rename_i hsig
          have hsig' : r.sig = some (r.key, n) := Decidable.not_not.mp hsig
          split
          · exact inv_failResponse h node c p
          · split
            · split
              · split
                · exact inv_failResponse h node c p
                · exact h
              · exact inv_acceptResponse h node c p r n pick hnode hg hch (hs _ hsig') hrc
            · exact inv_acceptResponse h node c p r n pick hnode hg hch (hs _ hsig') hrc

theorem inv_step {H : Nat} {st : State} (h : Inv H st) (op : Op) : Inv H (step fx H st op).1 := by
  cases op with
  | addStatic node c => simp only [step]; split; exact inv_addStatic h node c; exact h
  | connect node c => simp only [step]; split; exact inv_connect h node c; exact h
  | disconnect node c => simp only [step]; split; exact inv_disconnect h node c; exact h
  | deliverChallenge node c n =>
    simp only [step]; split
    · rename_i hc; exact inv_deliverChallenge h node c n hc.1 hc.2
    · exact h
  | deliverResponse node c r pick =>
    simp only [step]; split
    · rename_i hc; exact inv_deliverResponse h node c r pick hc.1 hc.2.1 hc.2.2
    · exact h
  | attackerSign k n => exact inv_attackerSign h k n

theorem inv_foldl {H : Nat} (ops : List Op) {st : State} (h : Inv H st) :
    Inv H (ops.foldl (fun st op => (step fx H st op).1) st) := by
  induction ops generalizing st with
  | nil => exact h
  | cons op rest ih => exact ih (inv_step h op)

theorem inv_run (H : Nat) (ops : List Op) : Inv H (run fx H ops) := inv_foldl ops (inv_init H)

/-! ## one-step effects (used by the frame theorems of C17) -/

/-- the connection an operation is delivered to -/
def target : Op → Option (Nat × Nat)
  | .addStatic node c | .connect node c | .disconnect node c | .deliverChallenge node c _ | .deliverResponse node c _ _ =>
    some (node, c)
  | .attackerSign _ _ => none

/-- every operation other than the delivery of a response: never panics, never touches `address_to_peers`, and only touches the
    peer entry of the connection it is delivered to -/
theorem simple_effect (H : Nat) (st : State) (op : Op) (hop : ∀ node c r pick, op ≠ .deliverResponse node c r pick) :
    (step fx H st op).2 ≠ .panic ∧ (step fx H st op).1.addr = st.addr ∧
    ∀ a, target op ≠ some a → mget (step fx H st op).1.peers a = mget st.peers a := by
  have hset : ∀ (node c : Nat) (q : Peer) (a : Nat × Nat), some (node, c) ≠ some a →
      mget (mset st.peers (node, c) q) a = mget st.peers a := fun node c q a hne => by
    rw [mget_mset, if_neg (fun h => hne (by rw [h]))]
  cases op with
  | deliverResponse node c r pick => exact absurd rfl (hop node c r pick)
  | attackerSign k n =>
    simp only [step, attackerSign]
    split <;> exact ⟨by simp, rfl, fun _ _ => rfl⟩
  | addStatic node c =>
    simp only [step, addStatic, target]
    repeat' split
    all_goals exact ⟨by simp, rfl, fun a ha => by first | rfl | exact hset _ _ _ a ha⟩
  | connect node c =>
    simp only [step, connect, initiate, target]
    repeat' split
    all_goals exact ⟨by simp, rfl, fun a ha => by first | rfl | exact hset _ _ _ a ha⟩
  | disconnect node c =>
    simp only [step, disconnect, target]
    repeat' split
    all_goals exact ⟨by simp, rfl, fun a ha => by first | rfl | exact hset _ _ _ a ha⟩
  | deliverChallenge node c n =>
    simp only [step, deliverChallenge, target]
    repeat' split
    all_goals exact ⟨by simp, rfl, fun a ha => by first | rfl | exact hset _ _ _ a ha⟩

theorem mem_candidates {peers : List ((Nat × Nat) × Peer)} {node k j : Nat} {old : Peer}
    (h : (j, old) ∈ candidates peers node k) :
    mget peers (node, j) = some old ∧ old.key = some k ∧ old.status ≠ .connected := by
  unfold candidates at h
  rw [List.mem_filterMap] at h
  obtain ⟨⟨⟨n1, j1⟩, p1⟩, _, he⟩ := h
  simp only at he
  split at he
  · rename_i hn
    subst hn
    split at he
    · rename_i q hq
      split at he
      · rename_i hc
        simp only [Option.some.injEq, Prod.mk.injEq] at he
        obtain ⟨rfl, rfl⟩ := he
        exact ⟨hq, hc.1, hc.2⟩
      · cases he
    · cases he
  · cases he

/-- what `reconnect` does to the peer entries of other connections and to `address_to_peers` -/
theorem reconnect_effect (st : State) (node c : Nat) (p1 : Peer) (k pick : Nat) :
    (∀ a q, a ≠ (node, c) → mget st.peers a = some q → q.status = .connected →
        mget (reconnect st node c p1 k pick).peers a = some q) ∧
    (∀ node' k', (node', k') ≠ (node, k) → mget (reconnect st node c p1 k pick).addr (node', k') = mget st.addr (node', k')) := by
  unfold reconnect
  simp only
  split
  · rename_i j old hc
    have hm := mem_candidates (List.mem_of_getElem? hc)
    refine ⟨?_, ?_⟩
    · intro a q ha hq hconn
      rw [mget_mset, if_neg (fun h => ha h.symm), mget_merase]
      split
      · rename_i hj
        subst hj
        rw [hm.1] at hq
        cases hq
        exact absurd hconn hm.2.2
      · exact hq
    · intro node' k' hne
      rw [mget_merase, if_neg (fun h => hne h.symm)]
  · refine ⟨fun a q _ hq _ => hq, ?_⟩
    intro node' k' hne
    rw [mget_mset, if_neg (fun h => hne h.symm)]

theorem peerAccept_effect (st : State) (node c : Nat) (p : Peer) (r : Response) (n : Nat) :
    (∀ a, a ≠ (node, c) → mget (peerAccept st node c p r n).2.1.peers a = mget st.peers a) ∧
    (peerAccept st node c p r n).2.1.addr = st.addr := by
  unfold peerAccept
  simp only
  split <;> exact ⟨fun a ha => by simp only [mget_mset]; rw [if_neg (fun h => ha h.symm)], rfl⟩

end Saito.Hs
