import Saito.Model.LockOrder
/-!
# Lemmas for C20: a waits-for cycle is impossible under the rank discipline / under the gate discipline

Both proofs exhibit a measure on blocked tasks that strictly decreases (resp. increases) along every waits-for step.
-/
namespace Saito.LockOrder

/-- the first task of a chain is blocked -/
theorem Path.start_waits {s : State} {i k : Nat} (p : Path s i k) :
    ∃ ti li, s[i]? = some ti ∧ ti.waits = some li := by
  cases p with
  | single h => obtain ⟨ti, _, l, hi, _, hw, _⟩ := h; exact ⟨ti, l, hi, hw⟩
  | cons h _ => obtain ⟨ti, _, l, hi, _, hw, _⟩ := h; exact ⟨ti, l, hi, hw⟩

/-- rank discipline: along a chain that ends in a blocked task, (awaited rank, then queue position) moves strictly:
the awaited rank increases, or it stays and the ticket decreases -/
theorem Path.rank_increases {s : State} (hr : Ranked s) {i k : Nat} (p : Path s i k) :
    ∀ tk lk, s[k]? = some tk → tk.waits = some lk →
      ∃ ti li, s[i]? = some ti ∧ ti.waits = some li ∧ (li < lk ∨ (li = lk ∧ tk.ticket < ti.ticket)) := by
  induction p with
  | single h =>
    intro tk lk hk hwk
    obtain ⟨ti, tj, l, hi, hj, hw, hc⟩ := h
    have e : tj = tk := by rw [hj] at hk; exact Option.some.inj hk
    subst e
    refine ⟨ti, l, hi, hw, ?_⟩
    cases hc with
    | inl hheld => exact Or.inl (hr _ tj hj lk hwk l hheld)
    | inr hq =>
      have : l = lk := by rw [hq.1] at hwk; exact Option.some.inj hwk
      exact Or.inr ⟨this, hq.2⟩
  | cons h _ ih =>
    intro tk lk hk hwk
    obtain ⟨tj', lj, hj', hwj, hcmp⟩ := ih tk lk hk hwk
    obtain ⟨ti, tj, l, hi, hj, hw, hc⟩ := h
    have e : tj = tj' := by rw [hj] at hj'; exact Option.some.inj hj'
    subst e
    refine ⟨ti, l, hi, hw, ?_⟩
    cases hc with
    | inl hheld =>
      have h1 : l < lj := hr _ tj hj lj hwj l hheld
      cases hcmp with
      | inl h2 => exact Or.inl (Nat.lt_trans h1 h2)
      | inr h2 => exact Or.inl (h2.1 ▸ h1)
    | inr hq =>
      have e2 : l = lj := by rw [hq.1] at hwj; exact Option.some.inj hwj
      cases hcmp with
      | inl h2 => exact Or.inl (e2 ▸ h2)
      | inr h2 => exact Or.inr ⟨e2.trans h2.1, Nat.lt_trans h2.2 hq.2⟩

/-- some blocked task holds lock `l` -/
def HeldByBlocked (s : State) (l : Nat) : Prop :=
  ∃ (k : Nat) (tk : Task), s[k]? = some tk ∧ tk.waits ≠ none ∧ l ∈ tk.held

/-- at most one blocked task holds anything (consequence of the gate discipline) -/
def OneBlockedHolder (s : State) : Prop :=
  ∀ (i j : Nat) (ti tj : Task), s[i]? = some ti → s[j]? = some tj → ti.waits ≠ none → tj.waits ≠ none →
    ti.held ≠ [] → tj.held ≠ [] → i = j

theorem oneBlockedHolder_of_gated {g : Nat} {s : State} (hg : Gated g s) (hx : Exclusive g s) :
    OneBlockedHolder s := by
  intro i j ti tj hi hj hwi hwj hni hnj
  have gi : g ∈ ti.held := by
    cases hg i ti hi hwi with
    | inl h => exact absurd h hni
    | inr h => exact h
  have gj : g ∈ tj.held := by
    cases hg j tj hj hwj with
    | inl h => exact absurd h hnj
    | inr h => exact h
  exact hx i j ti tj hi hj gi gj

/-- the order used for the gate discipline: the awaited lock stops being "held by a blocked task", or that status is
unchanged and the ticket decreases -/
def GateLt (s : State) (lk tk li ti : Nat) : Prop :=
  (¬ HeldByBlocked s lk ∧ HeldByBlocked s li) ∨ ((HeldByBlocked s lk ↔ HeldByBlocked s li) ∧ tk < ti)

theorem GateLt.trans {s : State} {l1 t1 l2 t2 l3 t3 : Nat}
    (a : GateLt s l1 t1 l2 t2) (b : GateLt s l2 t2 l3 t3) : GateLt s l1 t1 l3 t3 := by
  cases a with
  | inl a =>
    cases b with
    | inl b => exact absurd a.2 b.1
    | inr b => exact Or.inl ⟨a.1, b.1.mp a.2⟩
  | inr a =>
    cases b with
    | inl b => exact Or.inl ⟨fun h => b.1 (a.1.mp h), b.2⟩
    | inr b => exact Or.inr ⟨a.1.trans b.1, Nat.lt_trans a.2 b.2⟩

theorem GateLt.irrefl {s : State} {l t : Nat} : ¬ GateLt s l t l t := by
  intro h
  cases h with
  | inl h => exact h.1 h.2
  | inr h => exact Nat.lt_irrefl _ h.2

/-- one waits-for step under the gate discipline -/
theorem WaitsFor.gate_step {s : State} (h1 : OneBlockedHolder s) (h2 : NoSelfWait s) {i j : Nat}
    (h : WaitsFor s i j) : ∀ tj lj, s[j]? = some tj → tj.waits = some lj →
      ∃ ti li, s[i]? = some ti ∧ ti.waits = some li ∧ GateLt s lj tj.ticket li ti.ticket := by
  intro tj' lj hj' hwj
  obtain ⟨ti, tj, l, hi, hj, hw, hc⟩ := h
  have e : tj = tj' := by rw [hj] at hj'; exact Option.some.inj hj'
  subst e
  refine ⟨ti, l, hi, hw, ?_⟩
  have hjw : tj.waits ≠ none := by rw [hwj]; exact Option.some_ne_none _
  cases hc with
  | inl hheld =>
    refine Or.inl ⟨?_, ⟨j, tj, hj, hjw, hheld⟩⟩
    rintro ⟨k, tk, hk, hkw, hkh⟩
    have hjne : tj.held ≠ [] := List.ne_nil_of_mem hheld
    have hkne : tk.held ≠ [] := List.ne_nil_of_mem hkh
    have ejk : j = k := h1 j k tj tk hj hk hjw hkw hjne hkne
    subst ejk
    have : tj = tk := by rw [hj] at hk; exact Option.some.inj hk
    subst this
    exact h2 j tj hj lj hwj hkh
  | inr hq =>
    have e2 : l = lj := by rw [hq.1] at hwj; exact Option.some.inj hwj
    subst e2
    exact Or.inr ⟨Iff.rfl, hq.2⟩

theorem Path.gate_decreases {s : State} (h1 : OneBlockedHolder s) (h2 : NoSelfWait s) {i k : Nat}
    (p : Path s i k) : ∀ tk lk, s[k]? = some tk → tk.waits = some lk →
      ∃ ti li, s[i]? = some ti ∧ ti.waits = some li ∧ GateLt s lk tk.ticket li ti.ticket := by
  induction p with
  | single h => exact h.gate_step h1 h2
  | cons h _ ih =>
    intro tk lk hk hwk
    obtain ⟨tj, lj, hj, hwj, hlt⟩ := ih tk lk hk hwk
    obtain ⟨ti, li, hi, hwi, hlt2⟩ := h.gate_step h1 h2 tj lj hj hwj
    exact ⟨ti, li, hi, hwi, hlt.trans hlt2⟩

/-- a table all of whose edges ascend forces the rank discipline on every state it covers -/
theorem ranked_of_conforms {edges : List Edge} (ha : ∀ e ∈ edges, e.held < e.acquired) {s : State}
    (hc : Conforms edges s) : Ranked s := by
  intro i t hi l hw h hh
  exact ha ⟨h, l⟩ (hc i t hi l hw h hh)

theorem conforms_mono {e1 e2 : List Edge} (hsub : ∀ e ∈ e1, e ∈ e2) {s : State} (hc : Conforms e1 s) :
    Conforms e2 s := by
  intro i t hi l hw h hh
  exact hsub _ (hc i t hi l hw h hh)

end Saito.LockOrder
