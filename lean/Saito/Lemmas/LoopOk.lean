import Saito.Lemmas.Loop
/-! The pinned Wind/Unwind loop terminates successfully whenever every candidate block validates. -/
namespace Saito.Chain

/-- the block stored under hash `h` (ignoring its on-chain flag) -/
def blkOf (st : State) (h : Nat) : Option ABlock := (getB st h).map (·.b)

theorem find_map_flag (l : List BEntry) (x h : Nat) (v : Bool) :
    ((l.map fun e => if e.b.hash == h then { e with inLC := v } else e).find? (·.b.hash == x)).map (·.b) =
      (l.find? (·.b.hash == x)).map (·.b) := by
  induction l with
  | nil => rfl
  | cons e l ih =>
    have hb : (if e.b.hash == h then { e with inLC := v } else e).b = e.b := by split <;> rfl
    simp only [List.map_cons, List.find?_cons, hb]
    cases hx : (e.b.hash == x)
    · exact ih
    · simp only [Option.map_some, hb]

theorem iter_succ (fl : Flags) (newC oldC : List Nat) (n : Nat) (p : State × WR) :
    iter fl newC oldC (n + 1) p = iter fl newC oldC n (stepWR fl newC oldC p.1 p.2) := rfl

@[simp] theorem blkOf_setLC (st : State) (h x : Nat) (v : Bool) : blkOf (setLC st h v) x = blkOf st x := by
  unfold blkOf getB setLC
  exact find_map_flag st.blocks x h v

@[simp] theorem ringReorg_blocks (st : State) (id h : Nat) (lc : Bool) : (ringReorg st id h lc).blocks = st.blocks := by
  unfold ringReorg
  dsimp only
  split
  · rfl
  · split
    · split <;> rfl
    · rfl

@[simp] theorem blkOf_ringReorg (st : State) (id h x : Nat) (lc : Bool) : blkOf (ringReorg st id h lc) x = blkOf st x := by
  unfold blkOf getB; rw [ringReorg_blocks]

@[simp] theorem blkOf_utxo (st : State) (u : List Nat) (x : Nat) : blkOf { st with utxo := u } x = blkOf st x := rfl

@[simp] theorem blkOf_windBlock (st : State) (b : ABlock) (x : Nat) : blkOf (windBlock st b) x = blkOf st x := by
  unfold windBlock
  rw [blkOf_setLC]
  show blkOf (ringReorg st b.id b.hash true) x = _
  simp

@[simp] theorem blkOf_unwindBlock (st : State) (b : ABlock) (x : Nat) : blkOf (unwindBlock st b) x = blkOf st x := by
  unfold unwindBlock
  rw [blkOf_ringReorg, blkOf_setLC]
  rfl

theorem getB_of_blkOf (st : State) (h : Nat) (b : ABlock) (hb : blkOf st h = some b) :
    ∃ e, getB st h = some e ∧ e.b = b := by
  unfold blkOf at hb
  cases hg : getB st h with
  | none => simp [hg] at hb
  | some e => simp [hg] at hb; exact ⟨e, rfl, hb⟩

/-- unwind phase: from `Unwind(i, f, chain)` the loop reaches `Wind(n−1, f)` in `|chain| − i` steps -/
theorem unwind_phase (fl : Flags) (newC oldC chain : List Nat) (f : Bool) :
    ∀ k i st, i + k = chain.length → 0 < k → (∀ h ∈ chain, (blkOf st h).isSome) →
      ∃ st', iter fl newC oldC k (st, .unwind i f chain) = (st', .wind (newC.length - 1) f) ∧
        (∀ x, blkOf st' x = blkOf st x) ∧
        (∀ j < k, (iter fl newC oldC j (st, .unwind i f chain)).2.terminal = false) := by
  intro k
  induction k with
  | zero => intro i st _ hk; omega
  | succ k ih =>
    intro i st hik _ hpres
    have hi : i < chain.length := by omega
    have hmem : chain[i] ∈ chain := List.getElem_mem hi
    obtain ⟨b, hb⟩ := Option.isSome_iff_exists.1 (hpres _ hmem)
    obtain ⟨e, he, heb⟩ := getB_of_blkOf st _ b hb
    have hstep : stepWR fl newC oldC st (.unwind i f chain) =
        (unwindBlock st e.b, if i + 1 == chain.length then .wind (newC.length - 1) f else .unwind (i + 1) f chain) := by
      simp only [stepWR, List.getElem?_eq_getElem hi, he]
      split <;> simp_all
    by_cases hlast : k = 0
    · subst hlast
      refine ⟨unwindBlock st e.b, ?_, fun x => by simp, ?_⟩
      · rw [iter_succ, hstep]
        have : (i + 1 == chain.length) = true := by simp; omega
        simp [this, iter]
      · intro j hj
        have : j = 0 := by omega
        subst this; simp [iter, WR.terminal]
    · have hnl : (i + 1 == chain.length) = false := by simp; omega
      obtain ⟨st', h1, h2, h3⟩ := ih (i + 1) (unwindBlock st e.b) (by omega) (by omega)
        (fun h hh => by simpa using hpres h hh)
      refine ⟨st', ?_, fun x => by rw [h2 x]; simp, ?_⟩
      · rw [iter_succ, hstep, hnl]
        simpa using h1
      · intro j hj
        cases j with
        | zero => simp [iter, WR.terminal]
        | succ j =>
          rw [iter_succ, hstep, hnl]
          simpa using h3 j (by omega)

/-- wind phase: from `Wind(i, false)` with every candidate block present and valid the loop succeeds in `i+1` steps -/
theorem wind_phase (fl : Flags) (hfl : fl.txVerdict = false) (newC oldC : List Nat) :
    ∀ i st, i < newC.length → (∀ h ∈ newC, ∃ b, blkOf st h = some b ∧ b.ok = true ∧ b.okNoParent = true) →
      ∃ st', iter fl newC oldC (i + 1) (st, .wind i false) = (st', .success) ∧
        (∀ j < i + 1, (iter fl newC oldC j (st, .wind i false)).2.terminal = false) := by
  intro i
  induction i with
  | zero =>
    intro st hi hpres
    have hmem : newC[0] ∈ newC := List.getElem_mem hi
    obtain ⟨b, hb, hok, hokn⟩ := hpres _ hmem
    obtain ⟨e, he, heb⟩ := getB_of_blkOf st _ b hb
    have hv : validB fl st e.b = true := by simp [validB, hfl, heb, hok, hokn]
    have hne : newC.isEmpty = false := by
      cases newC with
      | nil => simp at hi
      | cons _ _ => rfl
    refine ⟨windBlock st e.b, ?_, ?_⟩
    · simp [iter, stepWR, List.getElem?_eq_getElem hi, he, hv, hne]
    · intro j hj
      have : j = 0 := by omega
      subst this; simp [iter, WR.terminal]
  | succ i ih =>
    intro st hi hpres
    have hmem : newC[i + 1] ∈ newC := List.getElem_mem hi
    obtain ⟨b, hb, hok, hokn⟩ := hpres _ hmem
    obtain ⟨e, he, heb⟩ := getB_of_blkOf st _ b hb
    have hv : validB fl st e.b = true := by simp [validB, hfl, heb, hok, hokn]
    have hstep : stepWR fl newC oldC st (.wind (i + 1) false) = (windBlock st e.b, .wind i false) := by
      simp [stepWR, List.getElem?_eq_getElem hi, he, hv]
    obtain ⟨st', h1, h2⟩ := ih (windBlock st e.b) (by omega) (fun h hh => by
      obtain ⟨b', hb', hok', hokn'⟩ := hpres h hh
      exact ⟨b', by simpa using hb', hok', hokn'⟩)
    refine ⟨st', ?_, ?_⟩
    · rw [iter_succ, hstep]; exact h1
    · intro j hj
      cases j with
      | zero => simp [iter, WR.terminal]
      | succ j => rw [iter_succ, hstep]; exact h2 j (by omega)

end Saito.Chain

namespace Saito.Chain

theorem iter_add (fl : Flags) (newC oldC : List Nat) : ∀ a b q,
    iter fl newC oldC (a + b) q = iter fl newC oldC b (iter fl newC oldC a q) := by
  intro a
  induction a with
  | zero => intro b q; simp [iter]
  | succ a ih => intro b q; rw [show a + 1 + b = (a + b) + 1 by omega]; simp only [iter]; exact ih b _

/-- composition of two non-terminal runs -/
theorem nonterminal_add (fl : Flags) (newC oldC : List Nat) (a b : Nat) (q : State × WR)
    (h1 : ∀ j < a, (iter fl newC oldC j q).2.terminal = false)
    (h2 : ∀ j < b, (iter fl newC oldC j (iter fl newC oldC a q)).2.terminal = false) :
    ∀ j < a + b, (iter fl newC oldC j q).2.terminal = false := by
  intro j hj
  by_cases hja : j < a
  · exact h1 j hja
  · have : j = a + (j - a) := by omega
    rw [this, iter_add]
    exact h2 (j - a) (by omega)

/-- The pinned loop on an all-valid candidate with an empty competitor: success after exactly `|new|` steps. -/
theorem pinned_extend_succeeds (fl : Flags) (hfl : fl.txVerdict = false) (st : State) (newC : List Nat)
    (hne : newC ≠ []) (hnew : ∀ h ∈ newC, ∃ b, blkOf st h = some b ∧ b.ok = true ∧ b.okNoParent = true) :
    ∃ st', runWR fl newC [] (newC.length + 1) st (.wind (newC.length - 1) false) = some (st', true) := by
  have hpos : 0 < newC.length := List.length_pos_iff.2 hne
  obtain ⟨st', h1, h2⟩ := wind_phase fl hfl newC [] (newC.length - 1) st (by omega) hnew
  have hlen : newC.length - 1 + 1 = newC.length := by omega
  rw [hlen] at h1 h2
  refine ⟨st', ?_⟩
  have := runWR_iter fl newC [] newC.length 1 (st, .wind (newC.length - 1) false) h2
  rw [Nat.add_comm] at this
  rw [this, h1]
  rfl

/-- The pinned loop on an all-valid reorganisation (non-empty competitor, candidate strictly longer — what the
    longest-chain test guarantees): success after exactly `|old| + |new|` steps. -/
theorem pinned_reorg_succeeds (fl : Flags) (hfl : fl.txVerdict = false) (st : State) (newC oldC : List Nat)
    (hold : ∀ h ∈ oldC, (blkOf st h).isSome) (hnew : ∀ h ∈ newC, ∃ b, blkOf st h = some b ∧ b.ok = true ∧ b.okNoParent = true)
    (hne : oldC ≠ []) (hlen : oldC.length < newC.length) :
    ∃ st', runWR fl newC oldC (oldC.length + newC.length + 1) st (.unwind 0 true oldC) = some (st', true) := by
  have hopos : 0 < oldC.length := List.length_pos_iff.2 hne
  obtain ⟨st1, u1, u2, u3⟩ := unwind_phase fl newC oldC oldC true oldC.length 0 st (by omega) hopos hold
  -- first wind step: index n-1 ≥ 1, flag true, block valid → Wind(n-2, false)
  have hn2 : newC.length - 1 < newC.length := by omega
  have hmem : newC[newC.length - 1] ∈ newC := List.getElem_mem hn2
  have hnew1 : ∀ h ∈ newC, ∃ b, blkOf st1 h = some b ∧ b.ok = true ∧ b.okNoParent = true := fun h hh => by
    obtain ⟨b, hb, hok, hokn⟩ := hnew h hh
    exact ⟨b, by rw [u2]; exact hb, hok, hokn⟩
  obtain ⟨b, hb, hok, hokn⟩ := hnew1 _ hmem
  obtain ⟨e, he, heb⟩ := getB_of_blkOf st1 _ b hb
  have hv : validB fl st1 e.b = true := by simp [validB, hfl, heb, hok, hokn]
  have hemp : newC.isEmpty = false := by
    cases newC with
    | nil => simp at hlen
    | cons _ _ => rfl
  have hnz : (newC.length - 1 == 0) = false := by simp; omega
  have hstep : stepWR fl newC oldC st1 (.wind (newC.length - 1) true) =
      (windBlock st1 e.b, .wind (newC.length - 1 - 1) false) := by
    simp [stepWR, List.getElem?_eq_getElem hn2, he, hv, hemp, hnz]
  have hnew2 : ∀ h ∈ newC, ∃ b, blkOf (windBlock st1 e.b) h = some b ∧ b.ok = true ∧ b.okNoParent = true := fun h hh => by
    obtain ⟨b', hb', hok', hokn'⟩ := hnew1 h hh
    exact ⟨b', by simpa using hb', hok', hokn'⟩
  obtain ⟨st3, w1, w2⟩ := wind_phase fl hfl newC oldC (newC.length - 1 - 1) (windBlock st1 e.b) (by omega) hnew2
  have hsteps : newC.length - 1 - 1 + 1 = newC.length - 1 := by omega
  rw [hsteps] at w1 w2
  -- total: |old| + 1 + (n-1) = |old| + n steps
  let p : State × WR := (st, .unwind 0 true oldC)
  have e1 : iter fl newC oldC (oldC.length + (1 + (newC.length - 1))) p = (st3, .success) := by
    rw [iter_add, u1, iter_add]
    simp only [iter, hstep]
    exact w1
  have nt : ∀ j < oldC.length + (1 + (newC.length - 1)), (iter fl newC oldC j p).2.terminal = false := by
    apply nonterminal_add _ _ _ _ _ _ u3
    rw [u1]
    apply nonterminal_add
    · intro j hj
      have : j = 0 := by omega
      subst this; simp [iter, WR.terminal]
    · simp only [iter, hstep]
      exact w2
  have htot : oldC.length + (1 + (newC.length - 1)) = oldC.length + newC.length := by omega
  rw [htot] at e1 nt
  refine ⟨st3, ?_⟩
  have := runWR_iter fl newC oldC (oldC.length + newC.length) 1 p nt
  rw [Nat.add_comm] at this
  rw [this, e1]
  rfl

end Saito.Chain
