import Saito.Model.Storage
/-! Lemmas about the disk / journal / loading model (helpers of `Props/C12.lean`). -/
namespace Saito.Storage
open Saito.Chain

/-! ### the order on file names -/
theorem Name.lt_iff (a b : Name) : a.lt b = true ↔ (a.ts < b.ts ∨ (a.ts = b.ts ∧ a.hk < b.hk)) := by
  simp [Name.lt]

theorem Name.le_iff (a b : Name) : a.le b = true ↔ (a.ts < b.ts ∨ (a.ts = b.ts ∧ a.hk ≤ b.hk)) := by
  simp only [Name.le, Bool.not_eq_true', Bool.eq_false_iff, ne_eq, Name.lt_iff]
  omega

theorem Name.le_of_lt {a b : Name} (h : a.lt b = true) : a.le b = true := by
  rw [Name.lt_iff] at h; rw [Name.le_iff]; omega

theorem Name.le_trans {a b c : Name} (h1 : a.le b = true) (h2 : b.le c = true) : a.le c = true := by
  rw [Name.le_iff] at *; omega

theorem Name.le_total (a b : Name) : a.le b = true ∨ b.le a = true := by
  simp only [Name.le_iff]; omega

theorem Name.le_of_not_le {a b : Name} (h : ¬ a.le b = true) : b.le a = true := by
  rcases Name.le_total a b with h' | h'
  · exact absurd h' h
  · exact h'

theorem Name.ne_of_lt {a b : Name} (h : a.lt b = true) : a ≠ b := by
  intro e; subst e; rw [Name.lt_iff] at h; omega

/-! ### sorted disks -/
/-- every element is ≤ every later one -/
def SortedN : Disk → Prop
  | [] => True
  | x :: l => (∀ y ∈ l, x.1.le y.1 = true) ∧ SortedN l

theorem mem_insName (x : Name × Content) (l : Disk) (y : Name × Content) :
    y ∈ insName x l ↔ y = x ∨ y ∈ l := by
  induction l with
  | nil => simp [insName]
  | cons z l ih =>
    unfold insName
    split
    · simp
    · simp only [List.mem_cons, ih]
      constructor
      · rintro (h | h | h)
        · exact Or.inr (Or.inl h)
        · exact Or.inl h
        · exact Or.inr (Or.inr h)
      · rintro (h | h | h)
        · exact Or.inr (Or.inl h)
        · exact Or.inl h
        · exact Or.inr (Or.inr h)

theorem sorted_insName (x : Name × Content) (l : Disk) (h : SortedN l) : SortedN (insName x l) := by
  induction l with
  | nil => simp [insName, SortedN]
  | cons z l ih =>
    obtain ⟨hz, hl⟩ := h
    unfold insName
    split
    · rename_i hle
      refine ⟨?_, hz, hl⟩
      intro y hy
      rcases List.mem_cons.1 hy with rfl | hy
      · exact hle
      · exact Name.le_trans hle (hz y hy)
    · rename_i hle
      refine ⟨?_, ih hl⟩
      intro y hy
      rcases (mem_insName x l y).1 hy with rfl | hy
      · exact Name.le_of_not_le hle
      · exact hz y hy

theorem sorted_sortDisk (d : Disk) : SortedN (sortDisk d) := by
  induction d with
  | nil => trivial
  | cons x d ih => exact sorted_insName x _ ih

theorem mem_sortDisk (d : Disk) (y : Name × Content) : y ∈ sortDisk d ↔ y ∈ d := by
  induction d with
  | nil => simp [sortDisk]
  | cons x d ih =>
    show y ∈ insName x (sortDisk d) ↔ _
    rw [mem_insName, ih]; simp

@[simp] theorem length_insName (x : Name × Content) (l : Disk) : (insName x l).length = l.length + 1 := by
  induction l with
  | nil => rfl
  | cons z l ih => unfold insName; split <;> simp [ih]

@[simp] theorem length_sortDisk (d : Disk) : (sortDisk d).length = d.length := by
  induction d with
  | nil => rfl
  | cons x d ih => show (insName x (sortDisk d)).length = _; simp [ih]

/-- strictly ascending file names -/
def AscN : Disk → Prop
  | [] => True
  | x :: l => (∀ y ∈ l, x.1.lt y.1 = true) ∧ AscN l

theorem insName_head (x : Name × Content) (l : Disk) (h : ∀ y ∈ l, x.1.le y.1 = true) : insName x l = x :: l := by
  cases l with
  | nil => rfl
  | cons z l => simp [insName, h z (List.mem_cons_self ..)]

/-- sorting a disk whose names are already ascending changes nothing -/
theorem sortDisk_asc (d : Disk) (h : AscN d) : sortDisk d = d := by
  induction d with
  | nil => rfl
  | cons x d ih =>
    show insName x (sortDisk d) = _
    rw [ih h.2]
    exact insName_head x d (fun y hy => Name.le_of_lt (h.1 y hy))

/-- a file whose name is greater than every other name sorts last -/
theorem foldr_insName_last (d : Disk) (t : Name × Content) (h : AscN d) (ht : ∀ y ∈ d, y.1.lt t.1 = true) :
    d.foldr insName [t] = d ++ [t] := by
  induction d with
  | nil => rfl
  | cons x d ih =>
    simp only [List.foldr_cons]
    rw [ih h.2 (fun y hy => ht y (List.mem_cons_of_mem _ hy))]
    apply insName_head
    intro y hy
    rcases List.mem_append.1 hy with hy | hy
    · exact Name.le_of_lt (h.1 y hy)
    · simp at hy; subst hy; exact Name.le_of_lt (ht x (List.mem_cons_self ..))

theorem sortDisk_append_last (d : Disk) (t : Name × Content) (h : AscN d) (ht : ∀ y ∈ d, y.1.lt t.1 = true) :
    sortDisk (d ++ [t]) = d ++ [t] := by
  unfold sortDisk
  rw [List.foldr_append]
  exact foldr_insName_last d t h ht

/-! ### the good files of a disk, in order -/
def goods : Disk → List (Name × ABlock)
  | [] => []
  | (n, .good b) :: r => (n, b) :: goods r
  | (_, .torn) :: r => goods r

theorem loadBatch_fixed (sf : Flags) (hf : sf.loadSkipsBadFile = true) (d : Disk) : loadBatch sf d = goods d := by
  induction d with
  | nil => rfl
  | cons x d ih =>
    obtain ⟨n, c⟩ := x
    cases c with
    | good b => simp [loadBatch, goods, ih]
    | torn => simp [loadBatch, goods, ih, hf]

def AllGood (d : Disk) : Prop := ∀ e ∈ d, e.2 ≠ .torn

theorem loadBatch_allGood (sf : Flags) (d : Disk) (h : AllGood d) : loadBatch sf d = goods d := by
  induction d with
  | nil => rfl
  | cons x d ih =>
    obtain ⟨n, c⟩ := x
    have hd : AllGood d := fun e he => h e (List.mem_cons_of_mem _ he)
    cases c with
    | good b => simp [loadBatch, goods, ih hd]
    | torn => exact absurd rfl (h (n, .torn) (List.mem_cons_self ..))

/-- whatever the flag: a torn file at the very end costs nothing -/
theorem loadBatch_torn_last (sf : Flags) (d : Disk) (n : Name) (h : AllGood d) :
    loadBatch sf (d ++ [(n, .torn)]) = goods d := by
  induction d with
  | nil => cases hs : sf.loadSkipsBadFile <;> simp [loadBatch, goods, hs]
  | cons x d ih =>
    obtain ⟨m, c⟩ := x
    have hd : AllGood d := fun e he => h e (List.mem_cons_of_mem _ he)
    cases c with
    | good b => simp [loadBatch, goods, ih hd]
    | torn => exact absurd rfl (h (m, .torn) (List.mem_cons_self ..))

/-- the disk image of a list of (name, block) pairs -/
def asDisk (h : History) : Disk := h.map fun p => (p.1, Content.good p.2)

@[simp] theorem goods_asDisk (h : History) : goods (asDisk h) = h := by
  induction h with
  | nil => rfl
  | cons p h ih => obtain ⟨n, b⟩ := p; simp [asDisk, goods] at *; exact ih

theorem allGood_asDisk (h : History) : AllGood (asDisk h) := by
  intro e he
  simp [asDisk] at he
  obtain ⟨a, b, _, rfl⟩ := he
  simp

/-! ### goods commutes with sorting (needed when a torn file sorts into the middle) -/
def insG (x : Name × ABlock) : List (Name × ABlock) → List (Name × ABlock)
  | [] => [x]
  | y :: ys => if x.1.le y.1 then x :: y :: ys else y :: insG x ys

theorem mem_goods (d : Disk) (n : Name) (b : ABlock) : (n, b) ∈ goods d ↔ (n, Content.good b) ∈ d := by
  induction d with
  | nil => simp [goods]
  | cons x d ih =>
    obtain ⟨m, c⟩ := x
    cases c with
    | good b' => simp [goods, ih]
    | torn => simp [goods, ih]

theorem insG_head (x : Name × ABlock) (l : List (Name × ABlock)) (h : ∀ y ∈ l, x.1.le y.1 = true) : insG x l = x :: l := by
  cases l with
  | nil => rfl
  | cons z l => simp [insG, h z (List.mem_cons_self ..)]

theorem goods_insName_good (n : Name) (b : ABlock) (l : Disk) (h : SortedN l) :
    goods (insName (n, .good b) l) = insG (n, b) (goods l) := by
  induction l with
  | nil => rfl
  | cons z l ih =>
    obtain ⟨hz, hl⟩ := h
    obtain ⟨m, c⟩ := z
    unfold insName
    split
    · rename_i hle
      -- x goes to the front; in `goods` it must also go to the front
      have hall : ∀ y ∈ goods ((m, c) :: l), n.le y.1 = true := by
        intro y hy
        obtain ⟨yn, yb⟩ := y
        have := (mem_goods _ yn yb).1 hy
        rcases List.mem_cons.1 this with e | e
        · cases e; exact hle
        · exact Name.le_trans hle (hz _ e)
      rw [insG_head _ _ hall]
      simp [goods]
    · rename_i hle
      cases c with
      | good b' =>
        simp only [goods, ih hl]
        simp only [insG]
        simp at hle
        simp [hle]
      | torn =>
        simp only [goods, ih hl]

theorem goods_insName_torn (n : Name) (l : Disk) : goods (insName (n, .torn) l) = goods l := by
  induction l with
  | nil => rfl
  | cons z l ih =>
    obtain ⟨m, c⟩ := z
    unfold insName
    split
    · simp [goods]
    · cases c <;> simp [goods, ih]

/-- the good files of the sorted disk = the insertion sort of the good files -/
theorem goods_sortDisk (d : Disk) : goods (sortDisk d) = (goods d).foldr insG [] := by
  induction d with
  | nil => rfl
  | cons x d ih =>
    obtain ⟨n, c⟩ := x
    show goods (insName (n, c) (sortDisk d)) = _
    cases c with
    | good b => rw [goods_insName_good n b _ (sorted_sortDisk d), ih]; rfl
    | torn => rw [goods_insName_torn, ih]; rfl

theorem goods_append (a b : Disk) : goods (a ++ b) = goods a ++ goods b := by
  induction a with
  | nil => rfl
  | cons x a ih =>
    obtain ⟨n, c⟩ := x
    cases c <;> simp [goods, ih]

/-! ### sorting by id -/
def AscId : List (Name × ABlock) → Prop
  | [] => True
  | x :: l => (∀ y ∈ l, x.2.id ≤ y.2.id) ∧ AscId l

theorem sortById_asc (l : List (Name × ABlock)) (h : AscId l) : sortById l = l := by
  induction l with
  | nil => rfl
  | cons x l ih =>
    show insId x (sortById l) = _
    rw [ih h.2]
    cases l with
    | nil => rfl
    | cons z l => simp [insId, h.1 z (List.mem_cons_self ..)]

/-! ### adding a list of blocks -/
/-- the chain state after offering the blocks of `h` in order -/
def run (cf : Chain.Flags) (st : State) (h : History) : State :=
  h.foldl (fun s p => (addBlock cf s p.2 []).1) st

/-- every block of `h` is accepted (onto the longest chain or as a side block) when offered in order -/
def Accepted (cf : Chain.Flags) : State → History → Prop
  | _, [] => True
  | st, p :: r =>
    ((addBlock cf st p.2 []).2 = .addedLc ∨ (addBlock cf st p.2 []).2 = .addedSide) ∧
      Accepted cf (addBlock cf st p.2 []).1 r

theorem addAll_accepted (cf : Chain.Flags) (a : Acc) (h : History) (hb : a.bad = none) (hacc : Accepted cf a.st h) :
    addAll cf a h = { st := run cf a.st h, bad := none, written := a.written ++ h } := by
  induction h generalizing a with
  | nil => cases a; simp_all [addAll, run]
  | cons p h ih =>
    obtain ⟨n, b⟩ := p
    obtain ⟨ho, hr⟩ := hacc
    unfold addAll
    simp only [hb]
    generalize hab : addBlock cf a.st b [] = r at ho hr
    obtain ⟨st', o⟩ := r
    simp only at ho hr
    rcases ho with ho | ho <;> subst ho <;> simp only
    all_goals
      rw [ih _ (by simp) (by simpa using hr)]
      simp [run, hab]

theorem accepted_take (cf : Chain.Flags) (st : State) (h : History) (k : Nat) (hacc : Accepted cf st h) :
    Accepted cf st (h.take k) := by
  induction h generalizing st k with
  | nil => simp [Accepted]
  | cons p h ih =>
    cases k with
    | zero => simp [Accepted]
    | succ k => exact ⟨hacc.1, ih _ k hacc.2⟩

theorem run_append (cf : Chain.Flags) (st : State) (a b : History) : run cf st (a ++ b) = run cf (run cf st a) b := by
  simp [run, List.foldl_append]

/-- after the first `k` blocks the `(k+1)`-th is accepted again -/
theorem accepted_next (cf : Chain.Flags) (st : State) (h : History) (k : Nat) (p : Name × ABlock)
    (hacc : Accepted cf st h) (hk : h[k]? = some p) :
    (addBlock cf (run cf st (h.take k)) p.2 []).2 = .addedLc ∨ (addBlock cf (run cf st (h.take k)) p.2 []).2 = .addedSide := by
  induction h generalizing st k with
  | nil => simp at hk
  | cons q h ih =>
    cases k with
    | zero => simp at hk; subst hk; simpa [run] using hacc.1
    | succ k =>
      simp at hk
      have := ih (addBlock cf st q.2 []).1 k hacc.2 hk
      simpa [run] using this

/-! ### the loading loop on a single batch -/
theorem loadLoop_single (sf : Flags) (cf : Chain.Flags) (batch : Nat) (l : Disk) (a : Acc)
    (hl : l.length ≤ batch) :
    loadLoop sf cf batch l.length l a = if l.isEmpty then a else addAll cf a (sortById (loadBatch sf l)) := by
  cases l with
  | nil => simp [loadLoop]
  | cons x l =>
    simp only [List.length_cons, loadLoop, List.isEmpty_cons, Bool.false_eq_true, ↓reduceIte]
    have h1 : (x :: l).take batch = x :: l := List.take_of_length_le (by simpa using hl)
    have h2 : (x :: l).drop batch = [] := List.drop_of_length_le (by simpa using hl)
    rw [h1, h2]
    cases l.length <;> simp [loadLoop]

/-! ### journals of writes -/
def names (d : Disk) : List Name := d.map (·.1)

theorem put_fresh (d : Disk) (n : Name) (c : Content) (h : n ∉ names d) : put d n c = d ++ [(n, c)] := by
  unfold put
  congr 1
  apply List.filter_eq_self.2
  intro e he
  simp only [bne_iff_ne, ne_eq]
  intro e'
  exact h (by simp [names]; exact ⟨e.2, by rw [← e']; exact he⟩)

theorem applyAll_writes_asc (h : History) (hn : AscN (asDisk h)) :
    applyAll [] (h.map fun p => Op.write p.1 p.2) = asDisk h := by
  -- generalise: starting from a disk whose names are all below those of `h`
  suffices H : ∀ (d : Disk), (∀ e ∈ d, ∀ p ∈ h, e.1.lt p.1 = true) →
      applyAll d (h.map fun p => Op.write p.1 p.2) = d ++ asDisk h by
    simpa using H [] (by simp)
  induction h with
  | nil => intro d _; simp [applyAll, asDisk]
  | cons p h ih =>
    intro d hd
    obtain ⟨n, b⟩ := p
    simp only [List.map_cons, applyAll, List.foldl_cons, applyOp]
    have hfresh : n ∉ names d := by
      intro hm
      simp [names] at hm
      obtain ⟨c, hc⟩ := hm
      exact Name.ne_of_lt (hd _ hc (n, b) (List.mem_cons_self ..)) rfl
    rw [put_fresh d n _ hfresh]
    have := ih hn.2 (d ++ [(n, .good b)]) (by
      intro e he q hq
      rcases List.mem_append.1 he with he | he
      · exact hd e he q (List.mem_cons_of_mem _ hq)
      · simp at he; subst he
        have := hn.1 (q.1, .good q.2) (by simp; exact hq)
        simpa using this)
    simp only [applyAll] at this
    rw [this]
    simp [asDisk]

theorem asDisk_take (h : History) (k : Nat) : asDisk (h.take k) = (asDisk h).take k := by
  simp [asDisk, List.map_take]

theorem ascN_take (d : Disk) (k : Nat) (h : AscN d) : AscN (d.take k) := by
  induction d generalizing k with
  | nil => simp [AscN]
  | cons x d ih =>
    cases k with
    | zero => simp [AscN]
    | succ k => exact ⟨fun y hy => h.1 y (List.mem_of_mem_take hy), ih k h.2⟩

theorem ascId_take (l : List (Name × ABlock)) (k : Nat) (h : AscId l) : AscId (l.take k) := by
  induction l generalizing k with
  | nil => simp [AscId]
  | cons x l ih =>
    cases k with
    | zero => simp [AscId]
    | succ k => exact ⟨fun y hy => h.1 y (List.mem_of_mem_take hy), ih k h.2⟩

/-- in an ascending list the `k`-th element is above the first `k` -/
theorem ascN_getElem_above (d : Disk) (k : Nat) (t : Name × Content) (h : AscN d) (hk : d[k]? = some t) :
    ∀ y ∈ d.take k, y.1.lt t.1 = true := by
  induction d generalizing k with
  | nil => simp at hk
  | cons x d ih =>
    cases k with
    | zero => simp
    | succ k =>
      simp at hk
      intro y hy
      simp only [List.take_succ_cons, List.mem_cons] at hy
      rcases hy with rfl | hy
      · exact h.1 t (List.mem_of_getElem? hk)
      · exact ih k h.2 hk y hy

/-! ### restart in terms of the list of loaded blocks -/

theorem loadLoop_eq (sf : Flags) (cf : Chain.Flags) (l : Disk) (a : Acc) (hl : l.length ≤ 1000) :
    loadLoop sf cf 1000 l.length l a = addAll cf a (sortById (loadBatch sf l)) := by
  rw [loadLoop_single sf cf 1000 l a hl]
  cases l with
  | nil => simp [loadBatch, sortById, addAll]
  | cons x l => simp

/-- the restarted chain state depends only on the list of blocks that the loader hands to `add_block` -/
theorem restart_loaded (sf : Flags) (cf : Chain.Flags) (gp : Nat) (del : Bool) (d : Disk) (hlen : d.length ≤ 1000) :
    (restart sf cf gp del d).st = (addAll cf { st := { gp := gp } } (sortById (loadBatch sf (sortDisk d)))).st ∧
    (restart sf cf gp del d).bad = (addAll cf { st := { gp := gp } } (sortById (loadBatch sf (sortDisk d)))).bad := by
  unfold restart
  simp only
  rw [loadLoop_eq sf cf (sortDisk d) _ (by simpa using hlen)]
  generalize addAll cf { st := { gp := gp } } (sortById (loadBatch sf (sortDisk d))) = a
  cases hb : a.bad <;> simp

theorem restart_accepted (sf : Flags) (cf : Chain.Flags) (gp : Nat) (del : Bool) (d : Disk) (g : History)
    (hlen : d.length ≤ 1000) (hg : sortById (loadBatch sf (sortDisk d)) = g) (hacc : Accepted cf { gp := gp } g) :
    (restart sf cf gp del d).bad = none ∧ (restart sf cf gp del d).st = run cf { gp := gp } g := by
  obtain ⟨h1, h2⟩ := restart_loaded sf cf gp del d hlen
  rw [hg, addAll_accepted cf _ g rfl hacc] at h1 h2
  exact ⟨h2, h1⟩

/-- the live node on an accepted history -/
theorem live_accepted (cf : Chain.Flags) (gp : Nat) (h : History) (hacc : Accepted cf { gp := gp } h) :
    live cf gp h = { st := run cf { gp := gp } h, bad := none, written := h } := by
  unfold live
  rw [addAll_accepted cf _ h rfl hacc]
  simp

theorem journalOf_accepted (cf : Chain.Flags) (gp : Nat) (h : History) (hacc : Accepted cf { gp := gp } h) :
    journalOf cf gp h = h.map fun p => Op.write p.1 p.2 := by
  unfold journalOf
  rw [live_accepted cf gp h hacc]

theorem loaded_torn_irrelevant (sf : Flags) (hf : sf.loadSkipsBadFile = true) (d : Disk) (n : Name) :
    loadBatch sf (sortDisk (d ++ [(n, .torn)])) = loadBatch sf (sortDisk d) := by
  rw [loadBatch_fixed sf hf, loadBatch_fixed sf hf, goods_sortDisk, goods_sortDisk, goods_append]
  simp [goods]

/-- a linear history: each block is the child of the previous one, one id higher, with a later timestamp -/
def Linear : History → Prop
  | [] => True
  | [_] => True
  | p :: q :: r => q.2.prev = p.2.hash ∧ q.2.id = p.2.id + 1 ∧ p.1.ts < q.1.ts ∧ Linear (q :: r)

theorem linear_loading_order (h : History) (hl : Linear h) : AscN (asDisk h) ∧ AscId h := by
  -- strengthened: every later element has a larger timestamp and id than the head
  suffices H : ∀ h : History, Linear h →
      (AscN (asDisk h) ∧ AscId h) ∧ ∀ p, h.head? = some p → ∀ y ∈ h.tail, p.1.ts < y.1.ts ∧ p.2.id ≤ y.2.id from (H h hl).1
  intro h
  induction h with
  | nil => intro _; simp [AscN, AscId, asDisk]
  | cons p h ih =>
    intro hl
    cases h with
    | nil => simp [AscN, AscId, asDisk]
    | cons q r =>
      obtain ⟨_, hid, hts, hrest⟩ := hl
      obtain ⟨⟨ha, hb⟩, hc⟩ := ih hrest
      have hc' := hc q rfl
      have hall : ∀ y ∈ q :: r, p.1.ts < y.1.ts ∧ p.2.id ≤ y.2.id := by
        intro y hy
        rcases List.mem_cons.1 hy with rfl | hy
        · exact ⟨hts, by omega⟩
        · have := hc' y hy; exact ⟨by omega, by omega⟩
      refine ⟨⟨⟨?_, ha⟩, ⟨fun y hy => (hall y hy).2, hb⟩⟩, ?_⟩
      · intro y hy
        simp only [List.map_cons, List.mem_cons, List.mem_map] at hy
        have : ∃ z ∈ q :: r, y.1 = z.1 := by
          rcases hy with rfl | ⟨z, hz, rfl⟩
          · exact ⟨q, List.mem_cons_self .., rfl⟩
          · exact ⟨z, List.mem_cons_of_mem _ hz, rfl⟩
        obtain ⟨z, hz, e⟩ := this
        rw [e, Name.lt_iff]
        exact Or.inl (hall z hz).1
      · intro p' hp' y hy
        simp at hp'; subst hp'
        exact hall y hy


end Saito.Storage
