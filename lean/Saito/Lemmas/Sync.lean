import Saito.Model.Sync
namespace Saito.Sync

theorem keyLt_irrefl (a : Nat × Nat) : keyLt a a = false := by
  simp [keyLt]

/-- `a ≤ b` in the (id, hash) order -/
def KeyLe (a b : Nat × Nat) : Prop := keyLt b a = false

theorem keyLe_iff (a b : Nat × Nat) : KeyLe a b ↔ a.1 < b.1 ∨ (a.1 = b.1 ∧ a.2 ≤ b.2) := by
  unfold KeyLe keyLt
  simp only [Bool.or_eq_false_iff, decide_eq_false_iff_not, Bool.and_eq_false_iff, beq_eq_false_iff_ne, ne_eq]
  omega

theorem keyLe_trans {a b c : Nat × Nat} (h1 : KeyLe a b) (h2 : KeyLe b c) : KeyLe a c := by
  rw [keyLe_iff] at *; omega

theorem keyLe_of_lt {a b : Nat × Nat} (h : keyLt a b = true) : KeyLe a b := by
  rw [keyLe_iff]; unfold keyLt at h
  simp only [Bool.or_eq_true, decide_eq_true_eq, Bool.and_eq_true, beq_iff_eq] at h
  omega

variable {α : Type}

theorem insBy_perm (k : α → Nat × Nat) (a : α) (l : List α) : (insBy k a l).Perm (a :: l) := by
  induction l with
  | nil => exact List.Perm.refl _
  | cons b l ih =>
    unfold insBy
    split
    · exact ((List.Perm.cons b ih).trans (List.Perm.swap a b l))
    · exact List.Perm.refl _

theorem sortBy_perm (k : α → Nat × Nat) (l : List α) : (sortBy k l).Perm l := by
  induction l with
  | nil => exact List.Perm.refl _
  | cons a l ih =>
    show (insBy k a (sortBy k l)).Perm (a :: l)
    exact (insBy_perm k a _).trans (List.Perm.cons a ih)

/-- sorted by key, non-decreasing -/
def SortedBy (k : α → Nat × Nat) (l : List α) : Prop := l.Pairwise (fun a b => KeyLe (k a) (k b))

theorem insBy_sorted (k : α → Nat × Nat) (a : α) (l : List α) (h : SortedBy k l) : SortedBy k (insBy k a l) := by
  induction l with
  | nil => simp [insBy, SortedBy]
  | cons b l ih =>
    unfold insBy
    have hb := List.pairwise_cons.mp h
    split
    · rename_i hlt
      refine List.pairwise_cons.mpr ⟨?_, ih hb.2⟩
      intro c hc
      have := (insBy_perm k a l).mem_iff.mp hc
      rcases List.mem_cons.mp this with rfl | hcl
      · exact keyLe_of_lt hlt
      · exact hb.1 c hcl
    · rename_i hnlt
      have hab : KeyLe (k a) (k b) := by simpa [KeyLe] using hnlt
      refine List.pairwise_cons.mpr ⟨?_, h⟩
      intro c hc
      rcases List.mem_cons.mp hc with rfl | hcl
      · exact hab
      · exact keyLe_trans hab (hb.1 c hcl)

theorem sortBy_sorted (k : α → Nat × Nat) (l : List α) : SortedBy k (sortBy k l) := by
  induction l with
  | nil => simp [sortBy, SortedBy]
  | cons a l ih => exact insBy_sorted k a _ ih

theorem insBy_of_le (k : α → Nat × Nat) (a : α) (l : List α) (h : ∀ b ∈ l, KeyLe (k a) (k b)) :
    insBy k a l = a :: l := by
  cases l with
  | nil => rfl
  | cons b l =>
    unfold insBy
    have : keyLt (k b) (k a) = false := h b (List.mem_cons_self ..)
    simp [this]

theorem sortBy_of_sorted (k : α → Nat × Nat) (l : List α) (h : SortedBy k l) : sortBy k l = l := by
  induction l with
  | nil => rfl
  | cons a l ih =>
    have hb := List.pairwise_cons.mp h
    show insBy k a (sortBy k l) = a :: l
    rw [ih hb.2]
    exact insBy_of_le k a l hb.1

/-! ## counting -/

theorem countFetching_eq_countP (q : List Entry) :
    countFetching q = q.countP (fun e => e.status == .fetching) := by
  induction q with
  | nil => rfl
  | cons e q ih =>
    simp only [countFetching, ih, List.countP_cons]
    by_cases h : e.status = .fetching <;> simp [h] <;> omega

theorem countFetching_perm {l l' : List Entry} (h : l.Perm l') : countFetching l = countFetching l' := by
  rw [countFetching_eq_countP, countFetching_eq_countP]; exact h.countP_eq _

theorem countFetching_sublist {l l' : List Entry} (h : l.Sublist l') : countFetching l ≤ countFetching l' := by
  rw [countFetching_eq_countP, countFetching_eq_countP]; exact h.countP_le

theorem countFetching_append (l l' : List Entry) :
    countFetching (l ++ l') = countFetching l + countFetching l' := by
  rw [countFetching_eq_countP, countFetching_eq_countP, countFetching_eq_countP, List.countP_append]

/-! ## the per-queue invariant -/

def NoDupKey (q : List Entry) : Prop := q.Pairwise (fun a b => a.key ≠ b.key)
def NoDupHash (q : List Entry) : Prop := q.Pairwise (fun a b => a.hash ≠ b.hash)

theorem noDupKey_iff_map (q : List Entry) : NoDupKey q ↔ (q.map Entry.key).Pairwise (· ≠ ·) := by
  unfold NoDupKey; rw [List.pairwise_map]

theorem noDupHash_iff_map (q : List Entry) : NoDupHash q ↔ (q.map Entry.hash).Pairwise (· ≠ ·) := by
  unfold NoDupHash; rw [List.pairwise_map]

theorem NoDupHash.noDupKey {q : List Entry} (h : NoDupHash q) : NoDupKey q :=
  List.Pairwise.imp (fun {a b} hab hk => hab (by simpa [Entry.key] using congrArg Prod.snd hk)) h

structure QInv (cfg : Cfg) (q : List Entry) : Prop where
  /-- (a) the number of entries in flight never exceeds the batch size -/
  fetching : countFetching q ≤ cfg.batch
  /-- (c) no (id, hash) pair twice in the queue -/
  nodup : NoDupKey q
  /-- (d) retry counters are bounded -/
  retry : ∀ e ∈ q, e.retry ≤ cfg.maxRetries + 1
  /-- `Fetched` entries never survive an operation -/
  nofetched : ∀ e ∈ q, e.status ≠ .fetched
  /-- (c, repaired dedup rule) no hash twice in the queue -/
  nodupHash : cfg.fl.dedupByHash = true → NoDupHash q

theorem QInv.nil (cfg : Cfg) : QInv cfg [] :=
  ⟨Nat.zero_le _, List.Pairwise.nil, by simp, by simp, fun _ => List.Pairwise.nil⟩

theorem QInv.of_sublist {cfg : Cfg} {q q' : List Entry} (h : QInv cfg q) (hs : q'.Sublist q) : QInv cfg q' :=
  ⟨Nat.le_trans (countFetching_sublist hs) h.fetching, h.nodup.sublist hs,
   fun e he => h.retry e (hs.subset he), fun e he => h.nofetched e (hs.subset he),
   fun hf => (h.nodupHash hf).sublist hs⟩

theorem QInv.of_perm {cfg : Cfg} {q q' : List Entry} (h : QInv cfg q) (hp : q'.Perm q) : QInv cfg q' :=
  ⟨by rw [countFetching_perm hp]; exact h.fetching,
   (hp.pairwise_iff (fun hab => Ne.symm hab)).mpr h.nodup,
   fun e he => h.retry e (hp.mem_iff.mp he), fun e he => h.nofetched e (hp.mem_iff.mp he),
   fun hf => (hp.pairwise_iff (fun hab => Ne.symm hab)).mpr (h.nodupHash hf)⟩

theorem QInv.sort {cfg : Cfg} {q : List Entry} (h : QInv cfg q) : QInv cfg (sortBy Entry.key q) :=
  h.of_perm (sortBy_perm _ _)

/-! ## select -/

/-- what the selection loop may do to one entry -/
def SelRel (maxR : Nat) (e e' : Entry) : Prop :=
  e'.hash = e.hash ∧ e'.id = e.id ∧
  (e' = e ∨ (e.status = .queued ∧ e'.status = .fetching ∧ e'.retry = e.retry)
    ∨ (e.status = .failed ∧ e.retry < maxR ∧ e'.status = .queued ∧ e'.retry = e.retry + 1)
    ∨ (e.status = .failed ∧ e.retry = maxR ∧ e'.status = .failed ∧ e'.retry = e.retry + 1))

theorem selLoop_keys (maxR n : Nat) (q : List Entry) :
    (selLoop maxR n q).1.map Entry.key = q.map Entry.key := by
  fun_induction selLoop maxR n q <;> simp_all +zetaDelta [Entry.key]

theorem selLoop_hashes (maxR n : Nat) (q : List Entry) :
    (selLoop maxR n q).1.map Entry.hash = q.map Entry.hash := by
  fun_induction selLoop maxR n q <;> simp_all +zetaDelta

theorem selLoop_count (maxR n : Nat) (q : List Entry) :
    countFetching (selLoop maxR n q).1 ≤ countFetching q + n := by
  fun_induction selLoop maxR n q <;> simp_all +zetaDelta [countFetching] <;> omega

theorem selLoop_rel (maxR n : Nat) (q : List Entry) :
    ∀ e' ∈ (selLoop maxR n q).1, ∃ e ∈ q, SelRel maxR e e' := by
  fun_induction selLoop maxR n q
  case case2 => intro e' h; exact ⟨e', h, rfl, rfl, Or.inl rfl⟩
  all_goals simp_all +zetaDelta [SelRel]

/-- the selected list is a sublist of the keys of the (sorted) queue, in queue order -/
theorem selLoop_sel_sublist (maxR n : Nat) (q : List Entry) :
    (selLoop maxR n q).2.Sublist (q.map Entry.key) := by
  fun_induction selLoop maxR n q <;> simp_all +zetaDelta [Entry.key]

/-- every selected key belongs to an entry that was `Queued` and is now `Fetching` -/
theorem selLoop_sel_mem (maxR n : Nat) (q : List Entry) :
    ∀ k ∈ (selLoop maxR n q).2, ∃ e ∈ q, e.key = k ∧ e.status = .queued ∧
      { e with status := .fetching } ∈ (selLoop maxR n q).1 := by
  fun_induction selLoop maxR n q
  case case1 => simp
  case case2 => simp
  case case3 quota e q hst r ih =>
    intro k hk
    rcases List.mem_cons.mp hk with rfl | hk
    · exact ⟨e, List.mem_cons_self .., rfl, hst, List.mem_cons_self ..⟩
    · obtain ⟨e0, h0, h1, h2, h3⟩ := ih k hk
      exact ⟨e0, List.mem_cons_of_mem _ h0, h1, h2, List.mem_cons_of_mem _ h3⟩
  all_goals
    rename_i ih
    intro k hk
    obtain ⟨e0, h0, h1, h2, h3⟩ := ih k hk
    exact ⟨e0, List.mem_cons_of_mem _ h0, h1, h2, List.mem_cons_of_mem _ h3⟩

theorem qSelect_isSome {cfg : Cfg} {q : List Entry} (h : countFetching q ≤ cfg.batch) :
    ∃ r, qSelect cfg q = some r := by
  unfold qSelect
  have : ¬ cfg.batch < countFetching (sortBy Entry.key q) := by
    rw [countFetching_perm (sortBy_perm _ _)]; omega
  simp [this]

theorem qSelect_eq {cfg : Cfg} {q : List Entry} {r} (h : qSelect cfg q = some r) :
    r = selLoop cfg.maxRetries (cfg.batch - countFetching (sortBy Entry.key q)) (sortBy Entry.key q)
      ∧ countFetching (sortBy Entry.key q) ≤ cfg.batch := by
  unfold qSelect at h
  by_cases hlt : cfg.batch < countFetching (sortBy Entry.key q)
  · simp [hlt] at h
  · simp [hlt] at h; exact ⟨h.symm, by omega⟩

theorem QInv.select {cfg : Cfg} {q : List Entry} {r} (h : QInv cfg q) (hs : qSelect cfg q = some r) :
    QInv cfg r.1 := by
  obtain ⟨rfl, hle⟩ := qSelect_eq hs
  have hq := h.sort
  refine ⟨?_, ?_, ?_, ?_, ?_⟩
  · have := selLoop_count cfg.maxRetries (cfg.batch - countFetching (sortBy Entry.key q)) (sortBy Entry.key q)
    omega
  · rw [noDupKey_iff_map, selLoop_keys]; exact (noDupKey_iff_map _).mp hq.nodup
  · intro e' he'
    obtain ⟨e, he, _, _, hr⟩ := selLoop_rel _ _ _ e' he'
    have := hq.retry e he
    rcases hr with rfl | ⟨_, _, hr⟩ | ⟨_, hlt, _, hr⟩ | ⟨_, heq, _, hr⟩ <;> omega
  · intro e' he'
    obtain ⟨e, he, _, _, hr⟩ := selLoop_rel _ _ _ e' he'
    have := hq.nofetched e he
    rcases hr with rfl | ⟨_, hst, _⟩ | ⟨_, _, hst, _⟩ | ⟨_, _, hst, _⟩
    · exact this
    all_goals (rw [hst]; decide)
  · intro hf
    rw [noDupHash_iff_map, selLoop_hashes]; exact (noDupHash_iff_map _).mp (hq.nodupHash hf)

/-! ## fetched / remove / failed -/

theorem markFirst_cons (h : Nat) (e : Entry) (q : List Entry) :
    markFirst h (e :: q) = if e.hash == h then { e with status := .fetched } :: q else e :: markFirst h q := rfl

theorem qFetched_cons (h : Nat) (e : Entry) (q : List Entry) :
    qFetched h (e :: q) =
      if e.hash == h then q.filter (fun e => e.status != .fetched)
      else if e.status != .fetched then e :: qFetched h q else qFetched h q := by
  simp only [qFetched, markFirst_cons]
  split
  · simp
  · simp [List.filter_cons]

theorem qFetched_sublist (h : Nat) (q : List Entry) : (qFetched h q).Sublist q := by
  induction q with
  | nil => exact List.Sublist.refl _
  | cons e q ih =>
    rw [qFetched_cons]
    split
    · exact (List.filter_sublist).trans (List.sublist_cons_self _ _)
    · split
      · exact List.Sublist.cons_cons _ ih
      · exact List.Sublist.cons _ ih

theorem qFetched_nofetched (h : Nat) (q : List Entry) : ∀ e ∈ qFetched h q, e.status ≠ .fetched := by
  intro e he
  have := (List.mem_filter.mp he).2
  simpa using this

theorem QInv.fetched {cfg : Cfg} {q : List Entry} (hq : QInv cfg q) (h : Nat) : QInv cfg (qFetched h q) :=
  hq.of_sublist (qFetched_sublist h q)

theorem QInv.remove {cfg : Cfg} {q : List Entry} (hq : QInv cfg q) (h : Nat) : QInv cfg (qRemove h q) :=
  hq.of_sublist List.filter_sublist

theorem qFailed_keys (id h : Nat) (q : List Entry) : (qFailed id h q).map Entry.key = q.map Entry.key := by
  induction q with
  | nil => rfl
  | cons e q ih => unfold qFailed; split <;> simp_all [Entry.key]

theorem qFailed_hashes (id h : Nat) (q : List Entry) : (qFailed id h q).map Entry.hash = q.map Entry.hash := by
  induction q with
  | nil => rfl
  | cons e q ih => unfold qFailed; split <;> simp_all

theorem qFailed_count (id h : Nat) (q : List Entry) : countFetching (qFailed id h q) ≤ countFetching q := by
  induction q with
  | nil => exact Nat.le_refl _
  | cons e q ih => unfold qFailed; split <;> simp_all [countFetching] <;> omega

theorem qFailed_rel (id h : Nat) (q : List Entry) :
    ∀ e' ∈ qFailed id h q, ∃ e ∈ q, e'.hash = e.hash ∧ e'.id = e.id ∧ e'.retry = e.retry ∧
      (e' = e ∨ e'.status = .failed) := by
  induction q with
  | nil => simp [qFailed]
  | cons e q ih =>
    unfold qFailed
    split
    · intro e' he'
      rcases List.mem_cons.mp he' with rfl | hm
      · exact ⟨e, List.mem_cons_self .., rfl, rfl, rfl, Or.inr rfl⟩
      · exact ⟨e', List.mem_cons_of_mem _ hm, rfl, rfl, rfl, Or.inl rfl⟩
    · intro e' he'
      rcases List.mem_cons.mp he' with rfl | hm
      · exact ⟨e', List.mem_cons_self .., rfl, rfl, rfl, Or.inl rfl⟩
      · obtain ⟨e0, h0, h1⟩ := ih e' hm
        exact ⟨e0, List.mem_cons_of_mem _ h0, h1⟩

theorem QInv.failed {cfg : Cfg} {q : List Entry} (hq : QInv cfg q) (id h : Nat) : QInv cfg (qFailed id h q) := by
  refine ⟨Nat.le_trans (qFailed_count id h q) hq.fetching, ?_, ?_, ?_, ?_⟩
  · rw [noDupKey_iff_map, qFailed_keys]; exact (noDupKey_iff_map _).mp hq.nodup
  · intro e' he'
    obtain ⟨e, he, _, _, hr, _⟩ := qFailed_rel id h q e' he'
    rw [hr]; exact hq.retry e he
  · intro e' he'
    obtain ⟨e, he, _, _, _, hs⟩ := qFailed_rel id h q e' he'
    rcases hs with rfl | hs
    · exact hq.nofetched _ he
    · rw [hs]; decide
  · intro hf
    rw [noDupHash_iff_map, qFailed_hashes]; exact (noDupHash_iff_map _).mp (hq.nodupHash hf)

/-! ## build -/

theorem existsIn_false {fl : Flags} {h id : Nat} {q : List Entry} (hx : existsIn fl h id q = false) :
    ∀ b ∈ q, ¬ (b.hash = h ∧ (fl.dedupByHash = true ∨ b.id = id)) := by
  intro b hb hc
  unfold existsIn at hx
  have := List.any_eq_false.mp hx b hb
  simp [hc.1] at this
  rcases hc.2 with h1 | h2
  · simp [h1] at this
  · exact this.2 h2

theorem QInv.push {cfg : Cfg} {q : List Entry} (hq : QInv cfg q) {h id : Nat}
    (hx : existsIn cfg.fl h id q = false) : QInv cfg (q ++ [⟨h, id, .queued, 0⟩]) := by
  have hn := existsIn_false hx
  refine ⟨?_, ?_, ?_, ?_, ?_⟩
  · rw [countFetching_append]; simp [countFetching]; exact hq.fetching
  · refine List.pairwise_append.mpr ⟨hq.nodup, List.pairwise_singleton _ _, ?_⟩
    intro a ha b hb
    rcases List.mem_singleton.mp hb with rfl
    intro hk
    simp only [Entry.key, Prod.mk.injEq] at hk
    exact hn a ha ⟨hk.2, Or.inr hk.1⟩
  · intro e he
    rcases List.mem_append.mp he with he | he
    · exact hq.retry e he
    · rcases List.mem_singleton.mp he with rfl; exact Nat.zero_le _
  · intro e he
    rcases List.mem_append.mp he with he | he
    · exact hq.nofetched e he
    · rcases List.mem_singleton.mp he with rfl; simp
  · intro hf
    refine List.pairwise_append.mpr ⟨hq.nodupHash hf, List.pairwise_singleton _ _, ?_⟩
    intro a ha b hb
    rcases List.mem_singleton.mp hb with rfl
    intro hk
    exact hn a ha ⟨hk, Or.inl hf⟩

theorem QInv.build {cfg : Cfg} (have_ : Nat → Bool) (rcv : List (Nat × Nat)) :
    ∀ {q : List Entry}, QInv cfg q → QInv cfg (qBuild cfg.fl have_ rcv q) := by
  induction rcv with
  | nil => intro q hq; exact hq
  | cons ih_ rest ih =>
    intro q hq
    obtain ⟨id, h⟩ := ih_
    unfold qBuild
    split
    · exact ih hq
    · split
      · exact ih hq
      · rename_i hx
        exact ih (hq.push (by simpa using hx))

/-! ## association lists and the state invariant -/

theorem mem_upsert {β : Type} {p : Nat} {f : List β → List β} {m : List (Nat × List β)} {x : Nat × List β}
    (hx : x ∈ upsert p f m) : x ∈ m ∨ (x.1 = p ∧ ∃ v, x.2 = f v ∧ (v = [] ∨ (p, v) ∈ m)) := by
  induction m with
  | nil =>
    simp only [upsert, List.mem_singleton] at hx
    subst hx
    exact Or.inr ⟨rfl, [], rfl, Or.inl rfl⟩
  | cons pv m ih =>
    obtain ⟨p', v⟩ := pv
    unfold upsert at hx
    split at hx
    · rename_i hp
      have hpp : p' = p := by simpa using hp
      rcases List.mem_cons.mp hx with rfl | hm
      · subst hpp
        exact Or.inr ⟨rfl, v, rfl, Or.inr (List.mem_cons_self ..)⟩
      · exact Or.inl (List.mem_cons_of_mem _ hm)
    · rcases List.mem_cons.mp hx with rfl | hm
      · exact Or.inl (List.mem_cons_self ..)
      · rcases ih hm with h1 | ⟨h1, v', h2, h3⟩
        · exact Or.inl (List.mem_cons_of_mem _ h1)
        · exact Or.inr ⟨h1, v', h2, h3.imp id (List.mem_cons_of_mem _)⟩

theorem upsert_keys_ne_zero {β : Type} {p : Nat} (hp : p ≠ 0) {f : List β → List β} {m : List (Nat × List β)}
    (hm : ∀ x ∈ m, x.1 ≠ 0) : ∀ x ∈ upsert p f m, x.1 ≠ 0 := by
  intro x hx
  rcases mem_upsert hx with h | ⟨h, _⟩
  · exact hm x h
  · rw [h]; exact hp

def QsInv (cfg : Cfg) (qs : List (Nat × List Entry)) : Prop := ∀ pq ∈ qs, pq.1 ≠ 0 ∧ QInv cfg pq.2

/-- the invariant of the scheduler state -/
structure Inv (cfg : Cfg) (s : State) : Prop where
  queues : QsInv cfg s.queues
  received : ∀ pr ∈ s.received, pr.1 ≠ 0

theorem Inv.init (cfg : Cfg) : Inv cfg init := ⟨by simp [QsInv, Saito.Sync.init], by simp [Saito.Sync.init]⟩

theorem foldl_upsert_keys {β : Type} (g : Nat → List β → List β) (us : List Nat) (hu : ∀ u ∈ us, u ≠ 0) :
    ∀ (r : List (Nat × List β)), (∀ x ∈ r, x.1 ≠ 0) →
      ∀ x ∈ us.foldl (fun r u => upsert u (g u) r) r, x.1 ≠ 0 := by
  induction us with
  | nil => intro r hr; exact hr
  | cons u us ih =>
    intro r hr
    exact ih (fun v hv => hu v (List.mem_cons_of_mem _ hv)) _
      (upsert_keys_ne_zero (hu u (List.mem_cons_self ..)) hr)

theorem Inv.add {cfg : Cfg} {s : State} (h : Inv cfg s) (h0 : 0 ∉ cfg.urlPeers) (p id hash : Nat) :
    Inv cfg (addEntry cfg s p id hash) := by
  unfold addEntry
  split
  · refine ⟨h.queues, ?_⟩
    exact foldl_upsert_keys (fun _ => (· ++ [(id, hash)])) cfg.urlPeers
      (fun u hu hz => h0 (hz ▸ hu)) s.received h.received
  · rename_i hp
    exact ⟨h.queues, upsert_keys_ne_zero (by simpa using hp) h.received⟩

theorem QsInv.dropEmpty {cfg : Cfg} {qs : List (Nat × List Entry)} (h : QsInv cfg qs) :
    QsInv cfg (dropEmpty qs) :=
  fun pq hpq => h pq (List.mem_filter.mp hpq).1

theorem QsInv.buildQueues {cfg : Cfg} (hv : Nat → Bool) (rcvs : List (Nat × List (Nat × Nat))) :
    ∀ {qs : List (Nat × List Entry)}, (∀ pr ∈ rcvs, pr.1 ≠ 0) → QsInv cfg qs →
      QsInv cfg (buildQueues cfg.fl hv rcvs qs) := by
  induction rcvs with
  | nil => intro qs _ h; exact h
  | cons pr rest ih =>
    intro qs hr h
    obtain ⟨p, rcv⟩ := pr
    unfold Saito.Sync.buildQueues
    refine ih (fun x hx => hr x (List.mem_cons_of_mem _ hx)) ?_
    intro pq hpq
    rcases mem_upsert hpq with hm | ⟨hp, v, hv2, hv3⟩
    · exact h pq hm
    · refine ⟨by rw [hp]; exact hr (p, rcv) (List.mem_cons_self ..), ?_⟩
      rw [hv2]
      rcases hv3 with rfl | hv3
      · exact QInv.build hv _ (QInv.nil cfg)
      · exact QInv.build hv _ (h _ hv3).2

theorem Inv.build {cfg : Cfg} {s : State} (h : Inv cfg s) (hv : Nat → Bool) : Inv cfg (build cfg hv s) :=
  ⟨(QsInv.buildQueues hv s.received h.received h.queues).dropEmpty, by simp [Saito.Sync.build]⟩

theorem QsInv.select {cfg : Cfg} : ∀ {qs : List (Nat × List Entry)}, QsInv cfg qs →
    ∃ r, selectQueues cfg qs = some r ∧ QsInv cfg r.1 := by
  intro qs
  induction qs with
  | nil => intro _; exact ⟨([], []), rfl, by simp [QsInv]⟩
  | cons pq rest ih =>
    intro h
    obtain ⟨p, q⟩ := pq
    have hpq := h (p, q) (List.mem_cons_self ..)
    obtain ⟨r1, hr1⟩ := qSelect_isSome hpq.2.fetching
    obtain ⟨r2, hr2, hr2i⟩ := ih (fun x hx => h x (List.mem_cons_of_mem _ hx))
    have hp0 : (p == 0) = false := by simpa using hpq.1
    refine ⟨((p, r1.1) :: r2.1, if r1.2.isEmpty then r2.2 else (p, r1.2) :: r2.2), ?_, ?_⟩
    · simp [selectQueues, hp0, hr1, hr2]
    · intro x hx
      rcases List.mem_cons.mp hx with rfl | hx
      · exact ⟨hpq.1, hpq.2.select hr1⟩
      · exact hr2i x hx

theorem Inv.select {cfg : Cfg} {s : State} (h : Inv cfg s) :
    ∃ r, Saito.Sync.select cfg s = some r ∧ Inv cfg r.1 := by
  obtain ⟨r, hr, hri⟩ := h.queues.select
  exact ⟨({ s with queues := r.1 }, r.2), by simp [Saito.Sync.select, hr], ⟨hri, h.received⟩⟩

theorem QsInv.map {cfg : Cfg} {qs : List (Nat × List Entry)} (h : QsInv cfg qs) (g : List Entry → List Entry)
    (hg : ∀ q, QInv cfg q → QInv cfg (g q)) : QsInv cfg (qs.map (fun pq => (pq.1, g pq.2))) := by
  intro pq hpq
  obtain ⟨pq0, h0, rfl⟩ := List.mem_map.mp hpq
  exact ⟨(h pq0 h0).1, hg _ (h pq0 h0).2⟩

theorem Inv.fetched {cfg : Cfg} {s : State} (h : Inv cfg s) (hash : Nat) : Inv cfg (markFetched s hash) :=
  ⟨(h.queues.map (qFetched hash) (fun _ hq => hq.fetched hash)).dropEmpty, h.received⟩

theorem Inv.remove {cfg : Cfg} {s : State} (h : Inv cfg s) (hash : Nat) : Inv cfg (removeEntry s hash) :=
  ⟨(h.queues.map (qRemove hash) (fun _ hq => hq.remove hash)).dropEmpty, h.received⟩

theorem QsInv.failQueues {cfg : Cfg} (id hash peer : Nat) : ∀ {qs : List (Nat × List Entry)}, QsInv cfg qs →
    QsInv cfg (failQueues id hash peer qs) := by
  intro qs
  induction qs with
  | nil => intro h; exact h
  | cons pq rest ih =>
    intro h
    obtain ⟨p, q⟩ := pq
    unfold Saito.Sync.failQueues
    have hpq := h (p, q) (List.mem_cons_self ..)
    split
    · intro x hx
      rcases List.mem_cons.mp hx with rfl | hx
      · exact ⟨hpq.1, hpq.2.failed id hash⟩
      · exact h x (List.mem_cons_of_mem _ hx)
    · intro x hx
      rcases List.mem_cons.mp hx with rfl | hx
      · exact hpq
      · exact ih (fun y hy => h y (List.mem_cons_of_mem _ hy)) x hx

theorem Inv.failed {cfg : Cfg} {s : State} (h : Inv cfg s) (id hash peer : Nat) :
    Inv cfg (markFailed s id hash peer) :=
  ⟨h.queues.failQueues id hash peer, h.received⟩

/-- every public operation keeps the invariant and does not panic -/
theorem step_inv {cfg : Cfg} (h0 : 0 ∉ cfg.urlPeers) {s : State} (h : Inv cfg s) (op : Op) :
    ∃ s', step cfg s op = some s' ∧ Inv cfg s' := by
  cases op with
  | add p i hs => exact ⟨_, rfl, h.add h0 p i hs⟩
  | build hv => exact ⟨_, rfl, h.build _⟩
  | select =>
    obtain ⟨r, hr, hri⟩ := h.select
    exact ⟨r.1, by simp [step, hr], hri⟩
  | fetched hs => exact ⟨_, rfl, h.fetched hs⟩
  | failed i hs p => exact ⟨_, rfl, h.failed i hs p⟩
  | remove hs => exact ⟨_, rfl, h.remove hs⟩

theorem run_inv {cfg : Cfg} (h0 : 0 ∉ cfg.urlPeers) (ops : List Op) : ∀ {s : State}, Inv cfg s →
    ∃ s', run cfg s ops = some s' ∧ Inv cfg s' := by
  induction ops with
  | nil => intro s h; exact ⟨s, rfl, h⟩
  | cons op ops ih =>
    intro s h
    obtain ⟨s1, hs1, hi1⟩ := step_inv h0 h op
    obtain ⟨s2, hs2, hi2⟩ := ih hi1
    exact ⟨s2, by simp [run, hs1, hs2], hi2⟩

/-! ## what `select` returns -/

theorem selectQueues_spec {cfg : Cfg} : ∀ {qs : List (Nat × List Entry)} {qs' sels},
    selectQueues cfg qs = some (qs', sels) →
    (∀ pq' ∈ qs', ∃ q r, (pq'.1, q) ∈ qs ∧ qSelect cfg q = some r ∧ pq'.2 = r.1) ∧
    (∀ ps ∈ sels, ∃ q r, (ps.1, q) ∈ qs ∧ qSelect cfg q = some r ∧ ps.2 = r.2 ∧ ps.2 ≠ []) := by
  intro qs
  induction qs with
  | nil =>
    intro qs' sels h
    simp only [selectQueues, Option.some.injEq, Prod.mk.injEq] at h
    obtain ⟨rfl, rfl⟩ := h
    simp
  | cons pq rest ih =>
    intro qs' sels h
    obtain ⟨p, q⟩ := pq
    unfold selectQueues at h
    split at h
    · exact absurd h (by simp)
    · split at h
      · exact absurd h (by simp)
      · rename_i q1 sel1 hq1
        split at h
        · exact absurd h (by simp)
        · rename_i qs2 sels2 hq2
          simp only [Option.some.injEq, Prod.mk.injEq] at h
          obtain ⟨rfl, rfl⟩ := h
          obtain ⟨ih1, ih2⟩ := ih hq2
          constructor
          · intro pq' hpq'
            rcases List.mem_cons.mp hpq' with rfl | hm
            · exact ⟨q, (q1, sel1), List.mem_cons_self .., hq1, rfl⟩
            · obtain ⟨q0, r0, h1, h2, h3⟩ := ih1 pq' hm
              exact ⟨q0, r0, List.mem_cons_of_mem _ h1, h2, h3⟩
          · intro ps hps
            by_cases he : sel1.isEmpty = true
            · simp only [he, if_true] at hps
              obtain ⟨q0, r0, h1, h2, h3⟩ := ih2 ps hps
              exact ⟨q0, r0, List.mem_cons_of_mem _ h1, h2, h3⟩
            · simp only [he] at hps
              rcases List.mem_cons.mp hps with rfl | hm
              · refine ⟨q, (q1, sel1), List.mem_cons_self .., hq1, rfl, ?_⟩
                intro hnil; apply he; simp at hnil; simp [hnil]
              · obtain ⟨q0, r0, h1, h2, h3⟩ := ih2 ps hm
                exact ⟨q0, r0, List.mem_cons_of_mem _ h1, h2, h3⟩

theorem sortedBy_map {α : Type} (k : α → Nat × Nat) (l : List α) (h : SortedBy k l) :
    (l.map k).Pairwise KeyLe := by
  rw [List.pairwise_map]; exact h

theorem qSelect_sorted {cfg : Cfg} {q : List Entry} {r} (h : qSelect cfg q = some r) :
    r.2.Pairwise KeyLe := by
  obtain ⟨rfl, _⟩ := qSelect_eq h
  exact (sortedBy_map _ _ (sortBy_sorted Entry.key q)).sublist (selLoop_sel_sublist _ _ _)

/-- strict order on (id, hash) as a proposition -/
def KeyLtP (a b : Nat × Nat) : Prop := keyLt a b = true

theorem keyLt_of_le_ne {a b : Nat × Nat} (h : KeyLe a b) (hne : a ≠ b) : KeyLtP a b := by
  rw [keyLe_iff] at h
  unfold KeyLtP keyLt
  simp only [Bool.or_eq_true, decide_eq_true_eq, Bool.and_eq_true, beq_iff_eq]
  have : a.1 ≠ b.1 ∨ a.2 ≠ b.2 := by
    by_cases h1 : a.1 = b.1
    · right; intro h2; exact hne (Prod.ext h1 h2)
    · left; exact h1
  omega

theorem qSelect_strictly_sorted {cfg : Cfg} {q : List Entry} {r} (hn : NoDupKey q) (h : qSelect cfg q = some r) :
    r.2.Pairwise KeyLtP := by
  obtain ⟨rfl, _⟩ := qSelect_eq h
  have hs := sortedBy_map _ _ (sortBy_sorted Entry.key q)
  have hd : ((sortBy Entry.key q).map Entry.key).Pairwise (· ≠ ·) :=
    (noDupKey_iff_map _).mp ((sortBy_perm Entry.key q).pairwise_iff (fun hab => Ne.symm hab) |>.mpr hn)
  have : ((sortBy Entry.key q).map Entry.key).Pairwise KeyLtP :=
    (hs.and hd).imp (fun {a b} hab => keyLt_of_le_ne hab.1 hab.2)
  exact this.sublist (selLoop_sel_sublist _ _ _)

/-! ## completeness under the fair schedule -/

/-- `mark_as_fetched` for every hash of `hs`, in order -/
def completeAll (hs : List Nat) (q : List Entry) : List Entry := hs.foldl (fun q h => qFetched h q) q

/-- every fetch in flight is among the completed hashes -/
def Covers (hs : List Nat) (q : List Entry) : Prop := ∀ e ∈ q, e.status = .fetching → hs.contains e.hash = true

/-- fair schedule for one peer's queue: in every round everything in flight completes (further blocks may arrive by
    other routes — `hs` may contain more hashes), then `select` runs; no announcements in between -/
def Fair (cfg : Cfg) : List (List Nat) → List Entry → Prop
  | [], _ => True
  | hs :: rest, q => Covers hs q ∧ ∀ r, qSelect cfg (completeAll hs q) = some r → Fair cfg rest r.1

/-- within the rounds of the schedule the entry with key `k` is requested from the peer, or it left the queue
    because its block arrived by another route -/
def Served (cfg : Cfg) (k : Nat × Nat) : List (List Nat) → List Entry → Prop
  | [], _ => False
  | hs :: rest, q =>
    (∀ e ∈ completeAll hs q, e.key ≠ k) ∨
    ∃ r, qSelect cfg (completeAll hs q) = some r ∧ (k ∈ r.2 ∨ Served cfg k rest r.1)

/-- service units an entry still needs: a queued entry one round, a failed entry that will be retried two -/
def weight (maxR : Nat) (e : Entry) : Nat :=
  match e.status with
  | .queued => 1
  | .failed => if e.retry < maxR then 2 else 0
  | _ => 0

def wsum (maxR : Nat) : List Entry → Nat
  | [] => 0
  | e :: l => weight maxR e + wsum maxR l

theorem wsum_append (maxR : Nat) (l l' : List Entry) : wsum maxR (l ++ l') = wsum maxR l + wsum maxR l' := by
  induction l with
  | nil => simp [wsum]
  | cons a l ih => simp [wsum, ih]; omega

theorem wsum_filter_le (maxR : Nat) (p : Entry → Bool) (l : List Entry) : wsum maxR (l.filter p) ≤ wsum maxR l := by
  induction l with
  | nil => simp [wsum]
  | cons a l ih =>
    rw [List.filter_cons]; split <;> simp [wsum] <;> omega

theorem weight_le_two (maxR : Nat) (e : Entry) : weight maxR e ≤ 2 := by
  unfold weight; split <;> (try split) <;> omega

theorem wsum_le (maxR : Nat) (l : List Entry) : wsum maxR l ≤ 2 * l.length := by
  induction l with
  | nil => simp [wsum]
  | cons a l ih => have := weight_le_two maxR a; simp [wsum]; omega

theorem wsum_le_length (maxR : Nat) (l : List Entry) (h : ∀ e ∈ l, e.status ≠ .failed) : wsum maxR l ≤ l.length := by
  induction l with
  | nil => simp [wsum]
  | cons a l ih =>
    have h1 := ih (fun e he => h e (List.mem_cons_of_mem _ he))
    have h2 : weight maxR a ≤ 1 := by
      have := h a (List.mem_cons_self ..)
      unfold weight; split <;> simp_all
    simp [wsum]; omega

theorem qFetched_eq_filter (h : Nat) (q : List Entry) (hd : NoDupHash q) (hn : ∀ e ∈ q, e.status ≠ .fetched) :
    qFetched h q = q.filter (fun e => e.hash != h) := by
  induction q with
  | nil => rfl
  | cons e q ih =>
    have hp := List.pairwise_cons.mp hd
    have hn' : ∀ x ∈ q, x.status ≠ .fetched := fun x hx => hn x (List.mem_cons_of_mem _ hx)
    rw [qFetched_cons, List.filter_cons]
    by_cases he : (e.hash == h) = true
    · have heq : e.hash = h := by simpa using he
      simp only [he, if_true]
      have h1 : q.filter (fun e => e.status != .fetched) = q :=
        List.filter_eq_self.mpr (fun x hx => by simpa using hn' x hx)
      have h2 : q.filter (fun e => e.hash != h) = q :=
        List.filter_eq_self.mpr (fun x hx => by
          have := hp.1 x hx
          simp only [bne_iff_ne, ne_eq]
          intro hc; exact this (by rw [heq, hc]))
      simp [h1, h2, heq]
    · have hs : (e.status != Status.fetched) = true := by simpa using hn e (List.mem_cons_self ..)
      have hne : (e.hash != h) = true := by simpa using he
      simp only [he, hs, hne, if_true]
      rw [ih hp.2 hn']
      simp

theorem completeAll_eq_filter (hs : List Nat) : ∀ (q : List Entry), NoDupHash q → (∀ e ∈ q, e.status ≠ .fetched) →
    completeAll hs q = q.filter (fun e => !hs.contains e.hash) := by
  induction hs with
  | nil =>
    intro q _ _
    simp only [completeAll, List.foldl_nil]
    exact (List.filter_eq_self.mpr (fun x _ => by simp)).symm
  | cons h hs ih =>
    intro q hd hn
    show completeAll hs (qFetched h q) = _
    rw [qFetched_eq_filter h q hd hn]
    rw [ih _ (List.Pairwise.filter _ hd) (fun e he => hn e (List.mem_filter.mp he).1)]
    rw [List.filter_filter]
    apply List.filter_congr
    intro x _
    simp only [List.contains_cons]
    cases hc : (x.hash == h) <;> simp [bne, hc]

theorem selLoop_zero (maxR : Nat) (q : List Entry) : selLoop maxR 0 q = (q, []) := by
  cases q <;> simp [selLoop]

theorem countFetching_eq_zero (q : List Entry) (h : ∀ e ∈ q, e.status ≠ .fetching) : countFetching q = 0 := by
  induction q with
  | nil => rfl
  | cons e q ih =>
    have := h e (List.mem_cons_self ..)
    simp [countFetching, this, ih (fun x hx => h x (List.mem_cons_of_mem _ hx))]

/-- the loop on `pre ++ rest`: it works through `pre` with the quota `b`, every processed entry costs one unit of quota
    and loses one unit of weight; what is left of the quota (`b'`) continues on `rest` -/
theorem selLoop_append (maxR : Nat) (rest : List Entry) : ∀ (pre : List Entry) (b : Nat),
    ∃ pre2 sel1 b', b' ≤ b ∧
      selLoop maxR b (pre ++ rest) = (pre2 ++ (selLoop maxR b' rest).1, sel1 ++ (selLoop maxR b' rest).2) ∧
      wsum maxR pre2 + (b - b') = wsum maxR pre := by
  intro pre
  induction pre with
  | nil => intro b; exact ⟨[], [], b, Nat.le_refl _, by simp, by simp [wsum]⟩
  | cons a pre ih =>
    intro b
    cases b with
    | zero =>
      refine ⟨a :: pre, [], 0, Nat.le_refl _, ?_, by simp⟩
      rw [selLoop_zero, selLoop_zero]; simp
    | succ k =>
      cases hst : a.status with
      | queued =>
        obtain ⟨pre2, sel1, b', hb, heq, hw⟩ := ih k
        refine ⟨{ a with status := .fetching } :: pre2, (a.id, a.hash) :: sel1, b', by omega, ?_, ?_⟩
        · simp [selLoop, hst, heq]
        · simp [wsum, weight, hst]; omega
      | fetching =>
        obtain ⟨pre2, sel1, b', hb, heq, hw⟩ := ih (k + 1)
        refine ⟨a :: pre2, sel1, b', hb, ?_, ?_⟩
        · simp [selLoop, hst, heq]
        · simp [wsum, weight, hst]; omega
      | fetched =>
        obtain ⟨pre2, sel1, b', hb, heq, hw⟩ := ih (k + 1)
        refine ⟨a :: pre2, sel1, b', hb, ?_, ?_⟩
        · simp [selLoop, hst, heq]
        · simp [wsum, weight, hst]; omega
      | failed =>
        by_cases h1 : a.retry < maxR
        · obtain ⟨pre2, sel1, b', hb, heq, hw⟩ := ih k
          refine ⟨{ a with retry := a.retry + 1, status := .queued } :: pre2, sel1, b', by omega, ?_, ?_⟩
          · simp [selLoop, hst, h1, heq]
          · simp [wsum, weight, hst, h1]; omega
        · by_cases h2 : a.retry = maxR
          · obtain ⟨pre2, sel1, b', hb, heq, hw⟩ := ih (k + 1)
            refine ⟨{ a with retry := a.retry + 1 } :: pre2, sel1, b', hb, ?_, ?_⟩
            · simp [selLoop, hst, h2, heq]
            · have h3 : ¬ (maxR + 1 < maxR) := by omega
              simp [wsum, weight, hst, h2, h3]; omega
          · obtain ⟨pre2, sel1, b', hb, heq, hw⟩ := ih (k + 1)
            refine ⟨a :: pre2, sel1, b', hb, ?_, ?_⟩
            · simp [selLoop, hst, h1, h2, heq]
            · simp [wsum, weight, hst, h1]; omega

theorem qSelect_of_sorted_nofetching {cfg : Cfg} {q : List Entry} (hs : SortedBy Entry.key q)
    (hf : ∀ e ∈ q, e.status ≠ .fetching) : qSelect cfg q = some (selLoop cfg.maxRetries cfg.batch q) := by
  simp only [qSelect, sortBy_of_sorted _ _ hs, countFetching_eq_zero q hf]
  simp

theorem sortedBy_iff_map (l : List Entry) : SortedBy Entry.key l ↔ (l.map Entry.key).Pairwise KeyLe := by
  unfold SortedBy; rw [List.pairwise_map]

theorem selLoop_nofetched (maxR n : Nat) (q : List Entry) (h : ∀ x ∈ q, x.status ≠ .fetched) :
    ∀ x ∈ (selLoop maxR n q).1, x.status ≠ .fetched := by
  intro x hx
  obtain ⟨x0, hx0, _, _, hrel⟩ := selLoop_rel _ _ _ x hx
  rcases hrel with rfl | ⟨_, hst, _⟩ | ⟨_, _, hst, _⟩ | ⟨_, _, hst, _⟩
  · exact h _ hx0
  all_goals (rw [hst]; decide)

/-- Main lemma: an entry that is `Queued`, with weight `w` of entries before it in the (sorted) queue, is served within
    `⌈(w+1)/batch⌉` fair rounds. -/
theorem served_weighted (cfg : Cfg) : ∀ (hss : List (List Nat)) (q pre post : List Entry) (e : Entry) (n : Nat),
    q = pre ++ e :: post → e.status = .queued → SortedBy Entry.key q → NoDupHash q →
    (∀ x ∈ q, x.status ≠ .fetched) → Fair cfg hss q →
    wsum cfg.maxRetries pre + 1 ≤ n → n ≤ hss.length * cfg.batch → Served cfg e.key hss q := by
  intro hss
  induction hss with
  | nil => intro q pre post e n _ _ _ _ _ _ h1 h2; simp at h2; omega
  | cons hs rest ih =>
    intro q pre post e n hq he hsort hd hnf hfair h1 h2
    obtain ⟨hcov, hfair'⟩ := hfair
    have hc := completeAll_eq_filter hs q hd hnf
    unfold Served
    by_cases hP : hs.contains e.hash = true
    · left
      intro x hx hk
      rw [hc] at hx
      have hx2 := (List.mem_filter.mp hx).2
      have : x.hash = e.hash := by simpa [Entry.key] using congrArg Prod.snd hk
      rw [this, hP] at hx2; exact absurd hx2 (by decide)
    · right
      have hq1 : completeAll hs q =
          pre.filter (fun x => !hs.contains x.hash) ++ e :: post.filter (fun x => !hs.contains x.hash) := by
        have hP' : (!hs.contains e.hash) = true := by
          cases hcn : hs.contains e.hash
          · rfl
          · exact absurd hcn hP
        rw [hc, hq, List.filter_append, List.filter_cons, if_pos hP']
      have hsort1 : SortedBy Entry.key (completeAll hs q) := by rw [hc]; exact List.Pairwise.filter _ hsort
      have hd1 : NoDupHash (completeAll hs q) := by rw [hc]; exact List.Pairwise.filter _ hd
      have hnf1 : ∀ x ∈ completeAll hs q, x.status ≠ .fetched := by
        intro x hx; rw [hc] at hx; exact hnf x (List.mem_filter.mp hx).1
      have hnfetching : ∀ x ∈ completeAll hs q, x.status ≠ .fetching := by
        intro x hx hst; rw [hc] at hx
        have hm := List.mem_filter.mp hx
        have hin := hcov x hm.1 hst
        have h3 := hm.2
        rw [hin] at h3; exact absurd h3 (by decide)
      have hsel := qSelect_of_sorted_nofetching (cfg := cfg) hsort1 hnfetching
      obtain ⟨pre2, sel1, b', hb, heq, hw⟩ := selLoop_append cfg.maxRetries
        (e :: post.filter (fun x => !hs.contains x.hash)) (pre.filter (fun x => !hs.contains x.hash)) cfg.batch
      refine ⟨_, hsel, ?_⟩
      cases b' with
      | zero =>
        right
        have hr1 : (selLoop cfg.maxRetries cfg.batch (completeAll hs q)).1 =
            pre2 ++ e :: post.filter (fun x => !hs.contains x.hash) := by rw [hq1, heq, selLoop_zero]
        have hfr := hfair' _ hsel
        rw [hr1] at hfr ⊢
        refine ih _ pre2 _ e (n - cfg.batch) rfl he ?_ ?_ ?_ hfr ?_ ?_
        · rw [← hr1, sortedBy_iff_map, selLoop_keys]; exact (sortedBy_iff_map _).mp hsort1
        · rw [← hr1, noDupHash_iff_map, selLoop_hashes]; exact (noDupHash_iff_map _).mp hd1
        · rw [← hr1]; exact selLoop_nofetched _ _ _ hnf1
        · have := wsum_filter_le cfg.maxRetries (fun x => !hs.contains x.hash) pre
          omega
        · simp only [List.length_cons, Nat.succ_mul] at h2; omega
      | succ k =>
        left
        rw [hq1, heq]
        simp [selLoop, he, Entry.key]

/-! ## one peer's queue as a transition system; retry accounting -/

/-- what the public operations do to the queue of one peer -/
inductive QOp where
  | build (hv : List Nat) (rcv : List (Nat × Nat))
  | select
  | fetched (h : Nat)
  | failed (id h : Nat)
  | remove (h : Nat)
  deriving Repr, DecidableEq

def qStep (cfg : Cfg) (q : List Entry) : QOp → Option (List Entry)
  | .build hv rcv => some (qBuild cfg.fl (fun h => hv.contains h) (sortBy id rcv) q)
  | .select => (qSelect cfg q).map (·.1)
  | .fetched h => some (qFetched h q)
  | .failed i h => some (qFailed i h q)
  | .remove h => some (qRemove h q)

def qRun (cfg : Cfg) : List Entry → List QOp → Option (List Entry)
  | q, [] => some q
  | q, op :: ops => match qStep cfg q op with
    | none => none
    | some q' => qRun cfg q' ops

theorem QInv.qStep {cfg : Cfg} {q : List Entry} (hq : QInv cfg q) (op : QOp) :
    ∃ q', qStep cfg q op = some q' ∧ QInv cfg q' := by
  cases op with
  | build hv rcv => exact ⟨_, rfl, QInv.build _ _ hq⟩
  | select =>
    obtain ⟨r, hr⟩ := qSelect_isSome hq.fetching
    exact ⟨r.1, by simp [Saito.Sync.qStep, hr], hq.select hr⟩
  | fetched h => exact ⟨_, rfl, hq.fetched h⟩
  | failed i h => exact ⟨_, rfl, hq.failed i h⟩
  | remove h => exact ⟨_, rfl, hq.remove h⟩

theorem qBuild_mem (fl : Flags) (hv : Nat → Bool) (rcv : List (Nat × Nat)) :
    ∀ (q : List Entry) (e' : Entry), e' ∈ qBuild fl hv rcv q →
      e' ∈ q ∨ (e'.retry = 0 ∧ e'.status = .queued ∧ ∀ x ∈ q, x.key ≠ e'.key) := by
  induction rcv with
  | nil => intro q e' h; exact Or.inl h
  | cons ih_ rest ih =>
    intro q e' h
    obtain ⟨id, hs⟩ := ih_
    unfold qBuild at h
    split at h
    · exact ih q e' h
    · split at h
      · exact ih q e' h
      · rename_i hx
        have hn := existsIn_false (by simpa using hx : existsIn fl hs id q = false)
        rcases ih _ e' h with hm | ⟨h1, h2, h3⟩
        · rcases List.mem_append.mp hm with hm | hm
          · exact Or.inl hm
          · rcases List.mem_singleton.mp hm with rfl
            refine Or.inr ⟨rfl, rfl, ?_⟩
            intro x hx hk
            simp only [Entry.key, Prod.mk.injEq] at hk
            exact hn x hx ⟨hk.2, Or.inr hk.1⟩
        · exact Or.inr ⟨h1, h2, fun x hx => h3 x (List.mem_append_left _ hx)⟩

/-- where an entry of the queue after a step comes from: an entry with the same key whose retry counter is not larger
    (and exactly one smaller, below the maximum, when the step re-queued it), or it is new -/
def Origin (maxR : Nat) (q : List Entry) (e' : Entry) : Prop :=
  (∃ x ∈ q, x.key = e'.key ∧ x.retry ≤ e'.retry ∧
     (x.status = .failed → e'.status = .queued → e'.retry = x.retry + 1 ∧ e'.retry ≤ maxR)) ∨
  ((∀ x ∈ q, x.key ≠ e'.key) ∧ e'.retry = 0)

theorem origin_self {maxR : Nat} {q : List Entry} {e : Entry} (h : e ∈ q) : Origin maxR q e :=
  Or.inl ⟨e, h, rfl, Nat.le_refl _, fun h1 h2 => by rw [h1] at h2; cases h2⟩

theorem qStep_origin {cfg : Cfg} {q q' : List Entry} {op : QOp} (h : qStep cfg q op = some q') :
    ∀ e' ∈ q', Origin cfg.maxRetries q e' := by
  intro e' he'
  cases op with
  | build hv rcv =>
    simp only [qStep, Option.some.injEq] at h; subst h
    rcases qBuild_mem _ _ _ _ _ he' with hm | ⟨h1, _, h3⟩
    · exact origin_self hm
    · exact Or.inr ⟨h3, h1⟩
  | select =>
    simp only [qStep, Option.map_eq_some_iff] at h
    obtain ⟨r, hr, rfl⟩ := h
    obtain ⟨rfl, _⟩ := qSelect_eq hr
    obtain ⟨x, hx, hk1, hk2, hrel⟩ := selLoop_rel _ _ _ e' he'
    refine Or.inl ⟨x, (sortBy_perm _ _).mem_iff.mp hx, by simp [Entry.key, hk1, hk2], ?_, ?_⟩
    · rcases hrel with rfl | ⟨_, _, hr⟩ | ⟨_, _, _, hr⟩ | ⟨_, _, _, hr⟩ <;> omega
    · intro hf hq'
      rcases hrel with rfl | ⟨h4, _⟩ | ⟨_, h5, _, h6⟩ | ⟨_, _, h7, _⟩
      · rw [hf] at hq'; cases hq'
      · rw [hf] at h4; cases h4
      · omega
      · rw [h7] at hq'; cases hq'
  | fetched hs =>
    simp only [qStep, Option.some.injEq] at h; subst h
    exact origin_self ((qFetched_sublist hs q).subset he')
  | remove hs =>
    simp only [qStep, Option.some.injEq] at h; subst h
    exact origin_self (List.mem_filter.mp he').1
  | failed i hs =>
    simp only [qStep, Option.some.injEq] at h; subst h
    obtain ⟨x, hx, h1, h2, h3, h4⟩ := qFailed_rel i hs q e' he'
    refine Or.inl ⟨x, hx, by simp [Entry.key, h1, h2], by omega, ?_⟩
    intro hf hq'
    rcases h4 with rfl | h4
    · rw [hf] at hq'; cases hq'
    · rw [h4] at hq'; cases hq'

def findKey (k : Nat × Nat) (q : List Entry) : Option Entry := q.find? (fun e => e.key == k)

theorem findKey_some {k : Nat × Nat} {q : List Entry} {e : Entry} (h : findKey k q = some e) : e ∈ q ∧ e.key = k := by
  unfold findKey at h
  exact ⟨List.mem_of_find?_eq_some h, by simpa using List.find?_some h⟩

theorem findKey_none {k : Nat × Nat} {q : List Entry} (h : findKey k q = none) : ∀ x ∈ q, x.key ≠ k := by
  unfold findKey at h
  intro x hx
  have := List.find?_eq_none.mp h x hx
  simpa using this

theorem findKey_of_mem {q : List Entry} (hn : NoDupKey q) {e : Entry} (he : e ∈ q) : findKey e.key q = some e := by
  induction q with
  | nil => cases he
  | cons a q ih =>
    have hp := List.pairwise_cons.mp hn
    unfold findKey
    rw [List.find?_cons]
    rcases List.mem_cons.mp he with rfl | hm
    · simp
    · have : (a.key == e.key) = false := by simpa using hp.1 e hm
      rw [this]
      exact ih hp.2 hm

/-- the step turned the entry with key `k` from `Failed` into `Queued` -/
def requeuedAt (k : Nat × Nat) (q q' : List Entry) : Bool :=
  match findKey k q, findKey k q' with
  | some e, some e' => decide (e.status = .failed) && decide (e'.status = .queued)
  | _, _ => false

/-- how often the entry with key `k` is re-queued along a run of one peer's queue, counted while the entry stays in
    the queue (the count ends when it leaves the queue) -/
def requeues (cfg : Cfg) (k : Nat × Nat) : List Entry → List QOp → Nat
  | _, [] => 0
  | q, op :: ops =>
    match qStep cfg q op with
    | none => 0
    | some q' =>
      if (findKey k q').isNone then 0
      else (if requeuedAt k q q' then 1 else 0) + requeues cfg k q' ops

theorem requeues_le_aux (cfg : Cfg) (k : Nat × Nat) (ops : List QOp) : ∀ (q : List Entry) (c : Nat), QInv cfg q →
    c ≤ cfg.maxRetries → (∀ e, findKey k q = some e → c ≤ e.retry) → (findKey k q = none → c = 0) →
    c + requeues cfg k q ops ≤ cfg.maxRetries := by
  induction ops with
  | nil => intro q c _ hc _ _; simpa [requeues] using hc
  | cons op ops ih =>
    intro q c hq hc hsome hnone
    obtain ⟨q', hq', hqi'⟩ := hq.qStep op
    unfold requeues
    rw [hq']
    simp only
    cases hf' : findKey k q' with
    | none => simpa using hc
    | some e' =>
      simp only [Option.isNone_some, Bool.false_eq_true, if_false]
      obtain ⟨he'm, he'k⟩ := findKey_some hf'
      rcases qStep_origin hq' e' he'm with ⟨x, hx, hxk, hle, hreq⟩ | ⟨hnew, hr0⟩
      · have hfx : findKey k q = some x := by
          have := findKey_of_mem hq.nodup hx
          rwa [hxk, he'k] at this
        have hcx := hsome x hfx
        by_cases hrq : requeuedAt k q q' = true
        · have : x.status = .failed ∧ e'.status = .queued := by
            simpa [requeuedAt, hfx, hf'] using hrq
          obtain ⟨h1, h2⟩ := hreq this.1 this.2
          rw [hrq]
          simp only [if_true]
          have := ih q' (c + 1) hqi' (by omega) (fun e he => by rw [hf'] at he; cases he; omega)
            (fun hn => by rw [hf'] at hn; cases hn)
          omega
        · simp only [hrq]
          have := ih q' c hqi' hc (fun e he => by rw [hf'] at he; cases he; omega)
            (fun hn => by rw [hf'] at hn; cases hn)
          simpa using this
      · have hfx : findKey k q = none := by
          cases hfk : findKey k q with
          | none => rfl
          | some x =>
            obtain ⟨hxm, hxk⟩ := findKey_some hfk
            exact absurd (hxk.trans he'k.symm) (hnew x hxm)
        have hc0 := hnone hfx
        have hrq : requeuedAt k q q' = false := by simp [requeuedAt, hfx]
        simp only [hrq]
        have := ih q' c hqi' hc (fun e he => by rw [hf'] at he; cases he; omega)
          (fun hn => by rw [hf'] at hn; cases hn)
        simpa using this


theorem requeues_le (cfg : Cfg) (k : Nat × Nat) (q : List Entry) (hq : QInv cfg q) (ops : List QOp) :
    requeues cfg k q ops ≤ cfg.maxRetries := by
  have := requeues_le_aux cfg k ops q 0 hq (Nat.zero_le _) (fun _ _ => Nat.zero_le _) (fun _ => rfl)
  omega

/-! ## the state-level operations act on each peer's queue through `qStep` only -/

/-- `pq'` is the result of running queue-level operations on a queue of the same peer in `qs` (or on the empty queue) -/
def FromQueue (cfg : Cfg) (qs : List (Nat × List Entry)) (pq' : Nat × List Entry) : Prop :=
  ∃ q qops, ((pq'.1, q) ∈ qs ∨ q = []) ∧ qRun cfg q qops = some pq'.2

theorem fromQueue_self {cfg : Cfg} {qs : List (Nat × List Entry)} {pq : Nat × List Entry} (h : pq ∈ qs) :
    FromQueue cfg qs pq := ⟨pq.2, [], Or.inl h, rfl⟩

theorem buildQueues_from (cfg : Cfg) (hv : List Nat) (rcvs : List (Nat × List (Nat × Nat))) :
    ∀ (qs : List (Nat × List Entry)), ∀ pq' ∈ buildQueues cfg.fl (fun h => hv.contains h) rcvs qs,
      FromQueue cfg qs pq' := by
  induction rcvs with
  | nil => intro qs pq' h; exact fromQueue_self h
  | cons pr rest ih =>
    intro qs pq' h
    obtain ⟨p, rcv⟩ := pr
    unfold buildQueues at h
    obtain ⟨q1, qops, hq1, hrun⟩ := ih _ pq' h
    rcases hq1 with hq1 | rfl
    · rcases mem_upsert hq1 with hm | ⟨hp, v, hv2, hv3⟩
      · exact ⟨q1, qops, Or.inl hm, hrun⟩
      · simp only at hp hv2
        refine ⟨v, QOp.build hv rcv :: qops, ?_, ?_⟩
        · rcases hv3 with rfl | hv3
          · exact Or.inr rfl
          · exact Or.inl (by rw [hp]; exact hv3)
        · simp only [qRun, qStep]; rw [← hv2]; exact hrun
    · exact ⟨[], qops, Or.inr rfl, hrun⟩

theorem failQueues_from (cfg : Cfg) (id h peer : Nat) : ∀ (qs : List (Nat × List Entry)),
    ∀ pq' ∈ failQueues id h peer qs, FromQueue cfg qs pq' := by
  intro qs
  induction qs with
  | nil => intro pq' h; cases h
  | cons pq rest ih =>
    intro pq' hm
    obtain ⟨p, q⟩ := pq
    unfold failQueues at hm
    split at hm
    · rcases List.mem_cons.mp hm with rfl | hm
      · exact ⟨q, [QOp.failed id h], Or.inl (List.mem_cons_self ..), rfl⟩
      · exact fromQueue_self (List.mem_cons_of_mem _ hm)
    · rcases List.mem_cons.mp hm with rfl | hm
      · exact fromQueue_self (List.mem_cons_self ..)
      · obtain ⟨q0, qops, h1, h2⟩ := ih pq' hm
        exact ⟨q0, qops, h1.imp (List.mem_cons_of_mem _) (fun x => x), h2⟩

/-- Every public operation changes the queue of a peer only through the queue-level operations `qStep`
    (build with that peer's announcements, select, fetched, failed, remove), starting from the peer's previous queue or,
    for a peer without one, from the empty queue. -/
theorem step_acts_per_queue (cfg : Cfg) {s s' : State} (op : Op) (h : step cfg s op = some s') :
    ∀ pq' ∈ s'.queues, FromQueue cfg s.queues pq' := by
  intro pq' hm
  cases op with
  | add p i hs =>
    simp only [step, Option.some.injEq] at h; subst h
    unfold addEntry at hm
    split at hm <;> exact fromQueue_self hm
  | build hv =>
    simp only [step, Option.some.injEq] at h; subst h
    exact buildQueues_from cfg hv _ _ pq' (List.mem_filter.mp hm).1
  | select =>
    simp only [step, Option.map_eq_some_iff] at h
    obtain ⟨r, hr, rfl⟩ := h
    unfold select at hr
    split at hr
    · exact absurd hr (by simp)
    · rename_i qs sels hq
      simp only [Option.some.injEq] at hr; subst hr
      obtain ⟨q, r, h1, h2, h3⟩ := (selectQueues_spec hq).1 pq' hm
      exact ⟨q, [QOp.select], Or.inl h1, by simp [qRun, qStep, h2, h3]⟩
  | fetched hs =>
    simp only [step, Option.some.injEq] at h; subst h
    obtain ⟨pq0, h0, rfl⟩ := List.mem_map.mp (List.mem_filter.mp hm).1
    exact ⟨pq0.2, [QOp.fetched hs], Or.inl h0, rfl⟩
  | failed i hs p =>
    simp only [step, Option.some.injEq] at h; subst h
    exact failQueues_from cfg i hs p _ pq' hm
  | remove hs =>
    simp only [step, Option.some.injEq] at h; subst h
    obtain ⟨pq0, h0, rfl⟩ := List.mem_map.mp (List.mem_filter.mp hm).1
    exact ⟨pq0.2, [QOp.remove hs], Or.inl h0, rfl⟩

end Saito.Sync
