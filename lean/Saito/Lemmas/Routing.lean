import Saito.Model.Routing
/-!
  Helper lemmas for C08 (Props/C08.lean): iterated halving, the work loop, `validate_routing_path`, list sums,
  the `work_by_hop` vector and the final loop of `get_winning_routing_node`, `find_winning_router`'s scan,
  fee-slip sums; monotonicity of the integer square root of the toy `natOps` instance.
-/
namespace Saito.C08
open Saito.BurnFee Saito.Routing

theorem min_mono_nat (x y m : Nat) (h : x ≤ y) : min x m ≤ min y m := by omega

theorem isqrtAux_le (n : Nat) : ∀ k, isqrtAux n k ≤ k
  | 0 => Nat.le_refl 0
  | k + 1 => by
    unfold isqrtAux
    split
    · exact Nat.le_refl _
    · exact Nat.le_trans (isqrtAux_le n k) (Nat.le_succ k)

theorem isqrtAux_mono_n (n m : Nat) (h : n ≤ m) : ∀ k, isqrtAux n k ≤ isqrtAux m k
  | 0 => Nat.le_refl 0
  | k + 1 => by
    unfold isqrtAux
    by_cases c1 : (k + 1) * (k + 1) ≤ n
    · have c2 : (k + 1) * (k + 1) ≤ m := Nat.le_trans c1 h
      simp [c1, c2]
    · by_cases c2 : (k + 1) * (k + 1) ≤ m
      · simp only [c1, c2, if_false, if_true]
        exact Nat.le_trans (isqrtAux_le n k) (Nat.le_succ k)
      · simp only [c1, c2, if_false]
        exact isqrtAux_mono_n n m h k

theorem isqrtAux_mono_k (m : Nat) : ∀ k j, isqrtAux m k ≤ isqrtAux m (k + j)
  | k, 0 => Nat.le_refl _
  | k, j + 1 => by
    refine Nat.le_trans (isqrtAux_mono_k m k j) ?_
    show isqrtAux m (k + j) ≤ isqrtAux m (k + j + 1)
    conv => rhs; unfold isqrtAux
    split
    · exact Nat.le_trans (isqrtAux_le m (k + j)) (Nat.le_succ _)
    · exact Nat.le_refl _

theorem isqrt_mono (n m : Nat) (h : n ≤ m) : isqrt n ≤ isqrt m := by
  unfold isqrt
  refine Nat.le_trans (isqrtAux_mono_n n m h n) ?_
  have := isqrtAux_mono_k m n (m - n)
  rwa [Nat.add_sub_cancel' h] at this

theorem halve_le (w : Nat) : halve w ≤ w := by unfold halve; omega

theorem halveN_le : ∀ (n w : Nat), halveN n w ≤ w
  | 0, w => Nat.le_refl w
  | n + 1, w => Nat.le_trans (halveN_le n (halve w)) (halve_le w)

theorem workLoop_le : ∀ (r : List Hop) (p w : Nat), workLoop p r w ≤ w
  | [], _, w => Nat.le_refl w
  | h :: r, p, w => by
    unfold workLoop
    split
    · exact Nat.zero_le _
    · exact Nat.le_trans (workLoop_le r h.to (halve w)) (halve_le w)

theorem workLoop_eq : ∀ (r : List Hop) (p w : Nat),
    workLoop p r w = if contigFrom p r = true then halveN r.length w else 0
  | [], _, w => by simp [workLoop, contigFrom, halveN]
  | h :: r, p, w => by
    unfold workLoop contigFrom
    by_cases hp : h.frm = p
    · have ih := workLoop_eq r h.to (halve w)
      simp only [hp, ne_eq, not_true_eq_false, if_false, beq_self_eq_true, Bool.true_and, List.length_cons, halveN]
      exact ih
    · have : (h.frm == p) = false := by simpa using hp
      simp [hp, this]

theorem vrpLoop_hops : ∀ (l : List Hop) (p : Option Nat), vrpLoop p l = true →
    ∀ h ∈ l, h.sigOk = true ∧ h.frm ≠ h.to
  | [], _, _ => by intro h hh; cases hh
  | a :: r, p, hv => by
    unfold vrpLoop at hv
    simp only [Bool.and_eq_true, bne_iff_ne, ne_eq] at hv
    intro h hh
    cases hh with
    | head => exact ⟨hv.1.1.1, hv.1.1.2⟩
    | tail _ hm => exact vrpLoop_hops r (some a.to) hv.2 h hm

theorem vrpLoop_contig : ∀ (l : List Hop) (q : Nat), vrpLoop (some q) l = true → contigFrom q l = true
  | [], _, _ => rfl
  | a :: r, q, hv => by
    unfold vrpLoop at hv
    simp only [Bool.and_eq_true, bne_iff_ne, ne_eq] at hv
    unfold contigFrom
    simp only [Bool.and_eq_true]
    exact ⟨hv.1.2, vrpLoop_contig r a.to hv.2⟩

theorem sumList_congr {α : Type} (f g : α → Nat) : ∀ (l : List α), (∀ x ∈ l, f x = g x) →
    sumList (l.map f) = sumList (l.map g)
  | [], _ => rfl
  | a :: r, h => by
    simp only [List.map, sumList]
    rw [h a (List.mem_cons_self), sumList_congr f g r (fun x hx => h x (List.mem_cons_of_mem _ hx))]

theorem sumList_le {α : Type} (f g : α → Nat) : ∀ (l : List α), (∀ x, f x ≤ g x) →
    sumList (l.map f) ≤ sumList (l.map g)
  | [], _ => Nat.le_refl _
  | a :: r, h => by
    simp only [List.map, sumList]
    exact Nat.add_le_add (h a) (sumList_le f g r h)

theorem workByHop_length : ∀ (n a t : Nat), (workByHop n a t).length = n
  | 0, _, _ => rfl
  | n + 1, a, t => by simp [workByHop, workByHop_length n]

theorem lastD_workByHop_ge : ∀ (n a t : Nat), a ≤ lastD (workByHop n a t) a
  | 0, a, _ => Nat.le_refl a
  | n + 1, a, t => by
    unfold workByHop lastD
    exact Nat.le_trans (Nat.le_add_right a (t / 2)) (lastD_workByHop_ge n (a + t / 2) (t / 2))

theorem lastD_nonempty (d d' : Nat) : ∀ (l : List Nat), l ≠ [] → lastD l d = lastD l d'
  | [], h => absurd rfl h
  | _ :: _, _ => rfl

/-- the final loop finds a hop whenever the winning number does not exceed the aggregate (the last entry) -/
theorem pickHop_key (w : Nat) : ∀ (v : List Nat) (p : List Hop), v.length = p.length → v ≠ [] →
    w ≤ lastD v 0 → ∃ h ∈ p, pickHop w v p = .key h.to
  | [], _, _, hne, _ => absurd rfl hne
  | c :: cs, [], hl, _, _ => by simp at hl
  | c :: cs, h :: hs, hl, _, hw => by
    unfold pickHop
    by_cases hc : w ≤ c
    · exact ⟨h, List.mem_cons_self, by simp [hc]⟩
    · simp only [hc, if_false]
      have hcs : cs ≠ [] := by
        intro e
        subst e
        simp only [lastD] at hw
        exact hc hw
      have hw' : w ≤ lastD cs 0 := by
        simp only [lastD] at hw
        rw [lastD_nonempty c 0 cs hcs] at hw
        exact hw
      have hl' : cs.length = hs.length := by simpa using hl
      obtain ⟨h', hm, he⟩ := pickHop_key w cs hs hl' hcs hw'
      exact ⟨h', List.mem_cons_of_mem _ hm, he⟩

theorem firstCum_spec (wn : Nat) : ∀ (l : List Tx) (acc : Nat) (tx : Tx) (cum : Nat),
    firstCum wn acc l = some (tx, cum) → tx ∈ l ∧ wn ≤ cum
  | [], _, _, _, h => by simp [firstCum] at h
  | t :: r, acc, tx, cum, h => by
    unfold firstCum at h
    split at h
    · rename_i hge
      simp only [Option.some.injEq, Prod.mk.injEq] at h
      obtain ⟨h1, h2⟩ := h
      subst h1 h2
      exact ⟨List.mem_cons_self, hge⟩
    · obtain ⟨hm, hc⟩ := firstCum_spec wn r (acc + t.fees) tx cum h
      exact ⟨List.mem_cons_of_mem _ hm, hc⟩

theorem mem_slipIf {k amt : Nat} {o : Nat × Nat} (h : o ∈ slipIf k amt) : o = (k, amt) ∧ 0 < amt ∧ k ≠ 0 := by
  unfold slipIf at h
  split at h
  · rename_i hc
    simp only [List.mem_singleton] at h
    exact ⟨h, hc.1, hc.2⟩
  · cases h

theorem sumAmt_append : ∀ (a b : List (Nat × Nat)), sumAmt (a ++ b) = sumAmt a + sumAmt b
  | [], b => by simp [sumAmt]
  | x :: a, b => by simp [sumAmt, sumAmt_append a b, Nat.add_assoc]

theorem sumAmt_slipIf (k amt : Nat) : sumAmt (slipIf k amt) ≤ amt := by
  unfold slipIf
  split
  · simp [sumAmt]
  · exact Nat.zero_le _

end Saito.C08
