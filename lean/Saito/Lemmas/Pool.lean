import Saito.Model.Mempool
import Saito.Lemmas.Utxo
/-! Helper lemmas for C14: the pool invariant and its preservation by each pool operation. -/
namespace Saito.Pool
open Saito.Chain (uInsert uRemove mem_uInsert mem_uRemove mem_foldl_uInsert mem_foldl_uRemove)

def inputsOf (l : List Tx) : List Nat := l.flatMap allIns

/-- no output is spent twice by the pooled transactions (across transactions and within one) -/
def NoShared (l : List Tx) : Prop := (l.flatMap valueIns).Nodup

structure PoolInv (p : Pool) (u : List Nat) : Prop where
  noShared : NoShared p.txs
  resv : ∀ k, k ∈ p.resv ↔ k ∈ inputsOf p.txs
  valid : ∀ t ∈ p.txs, t.ok = true ∧ validAgainst u t = true ∧ t.typ = .normal
  work : p.work = sumWork p.txs

theorem nodupB_iff (l : List Nat) : nodupB l = true ↔ l.Nodup := by
  induction l with
  | nil => simp [nodupB]
  | cons x xs ih => simp [nodupB, ih, List.nodup_cons]

theorem valueIns_sub_allIns (t : Tx) (k : Nat) (h : k ∈ valueIns t) : k ∈ allIns t := by
  simp only [valueIns, allIns, List.mem_map, List.mem_filter] at *
  obtain ⟨a, ⟨ha, _⟩, e⟩ := h
  exact ⟨a, ha, e⟩

theorem sumWork_append (l : List Tx) (t : Tx) : sumWork (l ++ [t]) = sumWork l + t.work := by
  induction l with
  | nil => simp [sumWork]
  | cons a l ih =>
    simp only [sumWork, List.cons_append, List.map_cons, List.foldr_cons] at *
    omega

theorem mem_removeKeys (r ks : List Nat) (x : Nat) : x ∈ removeKeys r ks ↔ x ∈ r ∧ x ∉ ks := by
  simp [removeKeys, mem_foldl_uRemove]

theorem mem_rebuild (l : List Tx) (k : Nat) : k ∈ rebuild l ↔ k ∈ inputsOf l := by
  simp [rebuild, inputsOf, mem_foldl_uInsert]

theorem NoShared_filter (l : List Tx) (f : Tx → Bool) (h : NoShared l) : NoShared (l.filter f) := by
  unfold NoShared at *
  induction l with
  | nil => simp
  | cons a l ih =>
    rw [List.flatMap_cons, List.nodup_append] at h
    obtain ⟨h1, h2, h3⟩ := h
    by_cases hf : f a = true
    · rw [List.filter_cons_of_pos hf, List.flatMap_cons, List.nodup_append]
      refine ⟨h1, ih h2, ?_⟩
      intro x hx y hy
      apply h3 x hx y
      rw [List.mem_flatMap] at hy ⊢
      obtain ⟨t, ht, hy⟩ := hy
      exact ⟨t, (List.mem_filter.1 ht).1, hy⟩
    · rw [List.filter_cons_of_neg hf]
      exact ih h2

/-- the invariant survives `add_transaction` of a transaction that is valid, normal and lists no value input twice -/
theorem addTx_inv (p : Pool) (u : List Nat) (t : Tx) (h : PoolInv p u)
    (hok : t.ok = true) (hv : validAgainst u t = true) (hn : t.typ = .normal) (hd : (valueIns t).Nodup) :
    PoolInv (addTx p t).1 u := by
  unfold addTx
  split
  · exact h
  · split
    · exact h
    · rename_i hg _
      rw [hn]
      have hg' : ∀ k ∈ valueIns t, k ∉ p.resv := by
        intro k hk hr
        apply hg
        rw [List.any_eq_true]
        exact ⟨k, hk, by simpa using hr⟩
      refine ⟨?_, ?_, ?_, ?_⟩
      · show NoShared (p.txs ++ [t])
        unfold NoShared
        rw [List.flatMap_append, List.nodup_append]
        refine ⟨h.noShared, by simpa using hd, ?_⟩
        intro a ha b hb e
        subst e
        have hb' : a ∈ valueIns t := by simpa using hb
        apply hg' a hb'
        rw [h.resv, inputsOf, List.mem_flatMap]
        rw [List.mem_flatMap] at ha
        obtain ⟨t', ht', ha⟩ := ha
        exact ⟨t', ht', valueIns_sub_allIns t' a ha⟩
      · intro k
        show k ∈ (allIns t).foldl uInsert p.resv ↔ k ∈ inputsOf (p.txs ++ [t])
        rw [mem_foldl_uInsert, h.resv]
        simp only [inputsOf, List.flatMap_append, List.mem_append, List.flatMap_cons, List.flatMap_nil,
          List.append_nil]
        constructor
        · rintro (h1 | h1)
          · exact Or.inr h1
          · exact Or.inl h1
        · rintro (h1 | h1)
          · exact Or.inr h1
          · exact Or.inl h1
      · intro t' ht'
        have : t' ∈ p.txs ∨ t' = t := by simpa using ht'
        rcases this with h1 | h1
        · exact h.valid t' h1
        · subst h1; exact ⟨hok, hv, hn⟩
      · show p.work + t.work = sumWork (p.txs ++ [t])
        rw [sumWork_append, h.work]

theorem arrive_inv (p : Pool) (u : List Nat) (t : Tx) (h : PoolInv p u) :
    PoolInv (arrive Flags.fixed u p t).1 u := by
  unfold arrive
  split
  · exact h
  · rename_i h1
    split
    · exact h
    · rename_i h2
      split
      · exact h
      · rename_i h3
        have hok : t.ok = true ∧ validAgainst u t = true := by simpa using h1
        have hn : t.typ = .normal := by simpa [Flags.fixed] using h2
        have hd : nodupB (valueIns t) = true := by simpa [Flags.fixed] using h3
        exact addTx_inv p u t h hok.1 hok.2 hn ((nodupB_iff _).1 hd)

theorem bundle_inv (fl : Flags) (ha : fl.bundleAtomic = true) (p : Pool) (u : List Nat) (g : Gates) (h : PoolInv p u) :
    PoolInv (bundle fl p g).1 u := by
  unfold bundle
  split
  · exact h
  · split
    · exact h
    · split
      · exact h
      · split
        · refine ⟨?_, ?_, ?_, ?_⟩
          · simp [NoShared]
          · intro k
            show k ∈ removeKeys p.resv (p.txs.flatMap allIns) ↔ k ∈ inputsOf []
            rw [mem_removeKeys, h.resv]
            simp [inputsOf]
          · intro t ht; simp at ht
          · simp [sumWork]
        · exact h

theorem onBlockAdded_inv (fl : Flags) (hr : fl.releaseOnRemoval = true) (p : Pool) (u u' : List Nat) (btx : List Nat)
    (h : PoolInv p u) : PoolInv (onBlockAdded fl u' p btx) u' := by
  unfold onBlockAdded
  simp only [hr, if_true]
  refine ⟨?_, ?_, ?_, ?_⟩
  · exact NoShared_filter _ _ (NoShared_filter _ _ h.noShared)
  · intro k; exact mem_rebuild _ k
  · intro t ht
    simp only [List.mem_filter] at ht
    obtain ⟨⟨ht, hv⟩, _⟩ := ht
    exact ⟨(h.valid t ht).1, hv, (h.valid t ht).2.2⟩
  · rfl

theorem foldl_addTx_inv (u : List Nat) (back : List Tx) (p : Pool) (h : PoolInv p u)
    (hb : ∀ t ∈ back, t.ok = true ∧ validAgainst u t = true ∧ t.typ = .normal ∧ (valueIns t).Nodup) :
    PoolInv (back.foldl (fun q t => (addTx q t).1) p) u := by
  induction back generalizing p with
  | nil => exact h
  | cons t back ih =>
    simp only [List.foldl_cons]
    apply ih
    · obtain ⟨a, b, c, d⟩ := hb t (by simp)
      exact addTx_inv p u t h a b c d
    · intro t' ht'; exact hb t' (by simp [ht'])

theorem onBlockFailed_inv (p : Pool) (u : List Nat) (mine : Bool) (btxs : List Tx) (h : PoolInv p u) :
    PoolInv (onBlockFailed Flags.fixed u p mine btxs) u := by
  unfold onBlockFailed
  split
  · exact h
  · simp only [Flags.fixed, if_true]
    have := foldl_addTx_inv u (btxs.filter fun t => t.typ == .normal && t.ok && validAgainst u t
                                && (!true || nodupB (valueIns t))) p h (by
      intro t ht
      simp only [List.mem_filter, Bool.and_eq_true, Bool.not_true, Bool.false_or, beq_iff_eq] at ht
      obtain ⟨_, ⟨⟨hn, hok⟩, hv⟩, hd⟩ := ht
      exact ⟨hok, hv, hn, (nodupB_iff _).1 hd⟩)
    exact ⟨this.noShared, this.resv, this.valid, this.work⟩

theorem validAgainst_congr (u u' : List Nat) (h : ∀ k, k ∈ u ↔ k ∈ u') (t : Tx) :
    validAgainst u t = validAgainst u' t := by
  unfold validAgainst
  congr 1
  funext k
  simp [h k]

theorem PoolInv_congr (p : Pool) (u u' : List Nat) (h : ∀ k, k ∈ u ↔ k ∈ u') (hp : PoolInv p u) : PoolInv p u' :=
  ⟨hp.noShared, hp.resv, fun t ht => by rw [← validAgainst_congr u u' h t]; exact hp.valid t ht, hp.work⟩


/-- key `k` is reserved although no pooled transaction lists it -/
def Stale (k : Nat) (p : Pool) : Prop := k ∈ p.resv ∧ ∀ t ∈ p.txs, k ∉ allIns t

/-- operations that do not themselves list `k` as a zero-amount input / re-insert a spender of `k` from a rejected block -/
def OpAvoids (k : Nat) : Op → Prop
  | .arrive t => (k, false) ∉ t.ins
  | .blockFailed _ btxs => ∀ t ∈ btxs, k ∉ allIns t
  | _ => True

theorem addTx_stale (k : Nat) (p : Pool) (t : Tx) (h : Stale k p) (hz : (k, false) ∉ t.ins) : Stale k (addTx p t).1 := by
  unfold addTx
  split
  · exact h
  · rename_i hg
    split
    · exact h
    · have hk : k ∉ allIns t := by
        intro hk
        simp only [allIns, List.mem_map] at hk
        obtain ⟨⟨k', b⟩, hin, e⟩ := hk
        simp only at e; subst e
        cases b with
        | false => exact hz hin
        | true =>
          apply hg
          rw [List.any_eq_true]
          refine ⟨k', ?_, by simpa using h.1⟩
          simp only [valueIns, List.mem_map, List.mem_filter]
          exact ⟨(k', true), ⟨hin, rfl⟩, rfl⟩
      split
      · exact ⟨h.1, h.2⟩
      · refine ⟨?_, ?_⟩
        · show k ∈ (allIns t).foldl uInsert p.resv
          rw [mem_foldl_uInsert]; exact Or.inr h.1
        · intro t' ht'
          have : t' ∈ p.txs ∨ t' = t := by simpa using ht'
          rcases this with h1 | h1
          · exact h.2 t' h1
          · subst h1; exact hk

theorem step_stale (fl : Flags) (hr : fl.releaseOnRemoval = false) (k : Nat) (s : Pool × List Nat) (op : Op)
    (h : Stale k s.1) (ho : OpAvoids k op) : Stale k (step fl s op).1 := by
  cases op with
  | arrive t =>
    simp only [step, arrive]
    split
    · exact h
    · split
      · exact h
      · split
        · exact h
        · exact addTx_stale k s.1 t h ho
  | bundle g =>
    simp only [step, bundle]
    split
    · exact h
    · split
      · exact h
      · split
        · exact h
        · split
          · refine ⟨?_, by intro t ht; simp at ht⟩
            show k ∈ removeKeys s.1.resv (s.1.txs.flatMap allIns)
            rw [mem_removeKeys]
            refine ⟨h.1, ?_⟩
            intro hk
            rw [List.mem_flatMap] at hk
            obtain ⟨t, ht, hk⟩ := hk
            exact h.2 t ht hk
          · split
            · exact h
            · exact ⟨h.1, by intro t ht; simp at ht⟩
  | blockAdded u' btx =>
    simp only [step, onBlockAdded, hr]
    refine ⟨h.1, ?_⟩
    intro t ht
    simp only [List.mem_filter] at ht
    exact h.2 t ht.1.1
  | blockFailed mine btxs =>
    simp only [step, onBlockFailed]
    split
    · exact h
    · split
      · -- re-insertion through add_transaction
        generalize hb : (btxs.filter _) = back
        have hback : ∀ t ∈ back, (k, false) ∉ t.ins := by
          intro t ht hz
          rw [← hb] at ht
          have := ho t (List.mem_filter.1 ht).1
          apply this
          simp only [allIns, List.mem_map]
          exact ⟨(k, false), hz, rfl⟩
        clear hb
        have : ∀ (q : Pool), Stale k q → Stale k (back.foldl (fun q t => (addTx q t).1) q) := by
          induction back with
          | nil => intro q hq; exact hq
          | cons t back ih =>
            intro q hq
            simp only [List.foldl_cons]
            exact ih (fun t' ht' => hback t' (by simp [ht'])) _ (addTx_stale k q t hq (hback t (by simp)))
        exact this s.1 h
      · refine ⟨h.1, ?_⟩
        generalize hb : (btxs.filter _) = back
        have hback : ∀ t ∈ back, k ∉ allIns t := by
          intro t ht
          rw [← hb] at ht
          exact ho t (List.mem_filter.1 ht).1
        clear hb
        have : ∀ (l : List Tx), (∀ t ∈ l, k ∉ allIns t) →
            ∀ t ∈ back.foldl (fun l t => if l.any (·.id == t.id) then l else l ++ [t]) l, k ∉ allIns t := by
          induction back with
          | nil => intro l hl; exact hl
          | cons t back ih =>
            intro l hl
            simp only [List.foldl_cons]
            apply ih (fun t' ht' => hback t' (by simp [ht']))
            split
            · exact hl
            · intro t' ht'
              have : t' ∈ l ∨ t' = t := by simpa using ht'
              rcases this with h1 | h1
              · exact hl t' h1
              · subst h1; exact hback t' (by simp)
        exact this s.1.txs h.2

/-- a transaction that spends a reserved key is never added -/
theorem arrive_refused (fl : Flags) (u : List Nat) (p : Pool) (t : Tx) (k : Nat) (hk : k ∈ valueIns t) (hr : k ∈ p.resv) :
    (arrive fl u p t).2 ≠ .added := by
  have : ((valueIns t).any fun x => decide (x ∈ p.resv)) = true := by
    rw [List.any_eq_true]; exact ⟨k, hk, by simpa using hr⟩
  by_cases h1 : (!(t.ok && validAgainst u t)) = true
  · simp [arrive, h1]
  by_cases h2 : (fl.normalOnly && t.typ != .normal) = true
  · simp [arrive, h1, h2]
  by_cases h3 : (fl.dupInputsRejected && !nodupB (valueIns t)) = true
  · simp [arrive, h1, h2, h3]
  simp [arrive, addTx, h1, h2, h3, this]

end Saito.Pool
