import Saito.Lemmas.Wallet
/-! C19 helper lemmas, part 2: which slips are listed as unspent, the coordinates stored with a slip, and what
    `generate_slips` / `create` return. -/
namespace Saito.Wallet

/-- the unspent list is exactly the set of known slips that are not marked spent and are neither staking nor bound -/
def UChar (w : W) : Prop :=
  ∀ k, k ∈ w.unspent ↔ ∃ ws ∈ w.slips, ws.key = k ∧ ws.spent = false ∧ k.typ ≠ tBlockStake ∧ k.typ ≠ tBound

theorem UChar_init : UChar init := by intro k; simp [init]

theorem UChar_add (w w' : W) (b t : Nat) (s : UKey) (lc : Bool) (hw : UChar w) (h : addSlip w b t s lc = some w') :
    UChar w' := by
  unfold addSlip at h
  split at h
  · cases h; exact hw
  · rename_i hnone
    have hfresh := (findSlip_none _ _).1 hnone
    split at h
    · cases h
    · split at h
      · rename_i hty
        cases h
        intro k
        rw [hw k]
        constructor
        · rintro ⟨ws, hws, h1⟩; exact ⟨ws, List.mem_cons_of_mem _ hws, h1⟩
        · rintro ⟨ws, hws, h1, h2, h3, h4⟩
          cases hws with
          | head => simp only at h1; subst h1; exact absurd hty h3
          | tail _ hws => exact ⟨ws, hws, h1, h2, h3, h4⟩
      · split at h
        · rename_i hty
          cases h
          intro k
          rw [hw k]
          constructor
          · rintro ⟨ws, hws, h1⟩; exact ⟨ws, List.mem_cons_of_mem _ hws, h1⟩
          · rintro ⟨ws, hws, h1, h2, h3, h4⟩
            cases hws with
            | head => simp only at h1; subst h1; exact absurd hty h4
            | tail _ hws => exact ⟨ws, hws, h1, h2, h3, h4⟩
        · rename_i hns hnb
          split at h
          · cases h
          · cases h
            intro k
            show k ∈ setInsert w.unspent s ↔ _
            rw [mem_setInsert, hw k]
            constructor
            · rintro (rfl | ⟨ws, hws, h1⟩)
              · exact ⟨_, List.mem_cons_self, rfl, rfl, hns, hnb⟩
              · exact ⟨ws, List.mem_cons_of_mem _ hws, h1⟩
            · rintro ⟨ws, hws, h1, h2, h3, h4⟩
              cases hws with
              | head => left; exact h1.symm
              | tail _ hws => right; exact ⟨ws, hws, h1, h2, h3, h4⟩

theorem UChar_del (w w' : W) (s : UKey) (hw : UChar w) (h : deleteSlip w s = some w') : UChar w' := by
  unfold deleteSlip at h
  split at h
  · cases h; exact hw
  · split at h
    · split at h
      · cases h
      · cases h
        intro k
        show k ∈ setRemove w.unspent s ↔ ∃ ws ∈ dropSlip w.slips s, _
        rw [mem_setRemove, hw k]
        constructor
        · rintro ⟨⟨ws, hws, h1, h2⟩, hne⟩
          exact ⟨ws, (mem_dropSlip _ _ _).2 ⟨hws, by rw [h1]; exact hne⟩, h1, h2⟩
        · rintro ⟨ws, hws, h1, h2⟩
          have := (mem_dropSlip _ _ _).1 hws
          exact ⟨⟨ws, this.1, h1, h2⟩, by rw [← h1]; exact this.2⟩
    · rename_i hnin
      cases h
      intro k
      show k ∈ w.unspent ↔ ∃ ws ∈ dropSlip w.slips s, _
      rw [hw k]
      constructor
      · rintro ⟨ws, hws, h1, h2⟩
        refine ⟨ws, (mem_dropSlip _ _ _).2 ⟨hws, ?_⟩, h1, h2⟩
        intro he
        apply hnin
        rw [hw s]
        exact ⟨ws, hws, he, h2.1, by rw [← he, h1]; exact h2.2⟩
      · rintro ⟨ws, hws, h1, h2⟩
        exact ⟨ws, ((mem_dropSlip _ _ _).1 hws).1, h1, h2⟩

/-- what `generate_slips` returns and does to the wallet -/
theorem generateSlips_spec (w w' : W) (req latest gp : Nat) (order ins outs : List UKey) (hw : WInv w)
    (h : generateSlips w req latest gp order = some (w', ins, outs)) :
    ∃ chosen : List WSlip,
      (chosen.map (·.key)).Nodup ∧ (∀ ws ∈ chosen, ws ∈ w.slips ∧ ws.key ∈ w.unspent) ∧
      ins = (if chosen.isEmpty then [zeroSlip] else chosen.map inputOf) ∧
      outs = [{ zeroSlip with amount := if sumW chosen > req then sumW chosen - req else 0 }] ∧
      w'.slips = markSpent w.slips (chosen.map (·.key)) ∧
      w'.unspent = w.unspent.filter (· ∉ chosen.map (·.key)) ∧
      w'.staking = w.staking ∧ w'.balance = w.balance - sumW chosen ∧ sumW chosen ≤ w.balance ∧
      (req ≤ sumW chosen ∨ sumW chosen = usable w latest gp) := by
  unfold generateSlips at h
  split at h
  · split at h
    · rename_i hemp
      cases h
      have hU : w.unspent = [] := by simpa using hemp
      refine ⟨[], by simp, by simp, by simp, by simp [sumW, zeroSlip], ?_, ?_, rfl, by simp [sumW], by simp [sumW],
        Or.inr (by simp [sumW, usable, hU])⟩
      · simp only [markSpent, List.map_nil, List.not_mem_nil, ↓reduceIte]
        simp
      · exact (List.filter_eq_self.2 (fun _ _ => rfl)).symm
    · cases h
  · rename_i limit hage
    split at h
    · cases h
    · rename_i p hp
      split at h
      · cases h
      · rename_i hle
        cases h
        obtain ⟨extra, h1, h2, h3, h4⟩ := pickLoop_spec _ _ _ _ _ _ hp
        simp only [List.nil_append] at h1
        have h2' : p.nolanIn = sumW p.chosen := by rw [h2, h1]; simp
        have hsl : (p.chosen.map (·.key)).Sublist (walkOrder w.unspent order) := by rw [h1]; exact h3
        have hlim : limit = latest - (gp - 1) := by
          unfold ageLimit at hage
          split at hage
          · cases hage
          · cases hage; rfl
        have hreach : req ≤ sumW p.chosen ∨ sumW p.chosen = usable w latest gp := by
          rcases pickLoop_reach _ _ _ _ _ _ hp with hr | hr
          · left; rw [← h2']; exact hr
          · right
            rw [← h2', hr, usable, ← hlim]
            simp only [Nat.zero_add]
            exact List.Perm.sum_nat ((walkOrder_perm _ _ hw.nodupU).map _)
        refine ⟨p.chosen, List.Nodup.sublist hsl (walkOrder_nodup _ _ hw.nodupU), ?_, rfl, ?_, rfl, rfl, rfl, rfl, by omega,
          hreach⟩
        · intro ws hws
          refine ⟨(h4 ws (by rw [← h1]; exact hws)).1, walkOrder_sub _ _ _ (hsl.subset (List.mem_map.2 ⟨ws, hws, rfl⟩))⟩
        · rw [h2']

theorem UChar_gen (w w' : W) (r l g : Nat) (o i out : List UKey) (hw : UChar w)
    (h : generateSlips w r l g o = some (w', i, out)) : UChar w' := by
  -- the same unfolding as above, without the accounting facts
  unfold generateSlips at h
  split at h
  · split at h
    · cases h; exact hw
    · cases h
  · split at h
    · cases h
    · rename_i p hp
      split at h
      · cases h
      · cases h
        intro k
        show k ∈ w.unspent.filter (· ∉ p.chosen.map (·.key)) ↔ ∃ ws ∈ markSpent w.slips (p.chosen.map (·.key)), _
        simp only [List.mem_filter, decide_eq_true_eq]
        rw [hw k]
        constructor
        · rintro ⟨⟨ws, hws, h1, h2, h3⟩, hnot⟩
          refine ⟨ws, ?_, h1, h2, h3⟩
          unfold markSpent
          refine List.mem_map.2 ⟨ws, hws, ?_⟩
          rw [if_neg (by rw [h1]; exact hnot)]
        · rintro ⟨x, hx, h1, h2, h3⟩
          obtain ⟨ws, hws, hk, _, _, _, _, _, hsp⟩ := mem_markSpent _ _ _ hx
          have hns : ¬ (ws.spent = true ∨ ws.key ∈ p.chosen.map (·.key)) := fun hc => by
            have := hsp.2 hc; rw [h2] at this; cases this
          have hns' := not_or.1 hns
          refine ⟨⟨ws, hws, by rw [← hk]; exact h1, by simpa using hns'.1, h3⟩, ?_⟩
          rw [← h1, hk]; exact hns'.2

theorem UChar_closed : Closed UChar (fun _ _ _ => True) where
  add := fun w w' b t s lc hw _ h => UChar_add w w' b t s lc hw h
  del := fun w w' s hw h => UChar_del w w' s hw h
  congr := fun w v hw h1 h2 _ _ => by unfold UChar; rw [h1, h2]; exact hw
  gen := fun w w' r l g o i out hw h => UChar_gen w w' r l g o i out hw h

/-! ### coordinates -/

/-- every stored slip can be rebuilt from its stored coordinates: the input `generate_slips` would produce for it
    carries the slip's own utxo key -/
def Coord (w : W) : Prop := ∀ ws ∈ w.slips, inputOf ws = ws.key

/-- `add_slip(b, t, s)` is called for a slip of the wallet's key with the slip's own block id and tx ordinal -/
def CoordA (b t : Nat) (s : UKey) : Prop := s.owner = 0 ∧ b = s.bid ∧ t = s.tord

theorem Coord_init : Coord init := by intro ws h; simp [init] at h

theorem Coord_closed : Closed Coord CoordA where
  add := by
    intro w w' b t s lc hw hA h
    unfold addSlip at h
    obtain ⟨ho, hb, ht⟩ := hA
    have key : ∀ ws0 : WSlip, ws0 = ⟨s, s.amount, b, t, s.idx, lc, false, s.typ⟩ → inputOf ws0 = ws0.key := by
      intro ws0 h0; subst h0
      cases s; simp_all [inputOf]
    split at h
    · cases h; exact hw
    · split at h
      · cases h
      · have hcons : ∀ ws ∈ (⟨s, s.amount, b, t, s.idx, lc, false, s.typ⟩ : WSlip) :: w.slips, inputOf ws = ws.key := by
          intro ws hws
          cases hws with
          | head => exact key _ rfl
          | tail _ hws => exact hw ws hws
        split at h
        · cases h; exact hcons
        · split at h
          · cases h; exact hcons
          · split at h
            · cases h
            · cases h; exact hcons
  del := by
    intro w w' s hw h
    unfold deleteSlip at h
    split at h
    · cases h; exact hw
    · split at h
      · split at h
        · cases h
        · cases h; intro ws hws; exact hw ws ((mem_dropSlip _ _ _).1 hws).1
      · cases h; intro ws hws; exact hw ws ((mem_dropSlip _ _ _).1 hws).1
  congr := fun w v hw h1 _ _ _ => by unfold Coord; rw [h1]; exact hw
  gen := by
    intro w w' r l g o i out hw h
    unfold generateSlips at h
    split at h
    · split at h
      · cases h; exact hw
      · cases h
    · split at h
      · cases h
      · split at h
        · cases h
        · cases h
          intro x hx
          obtain ⟨ws, hws, hk, ha, hb, ht, hi, hty, _⟩ := mem_markSpent _ _ _ hx
          have := hw ws hws
          unfold inputOf at this ⊢
          rw [hk, ← this, ha, hb, ht, hi, hty]

/-! ### sums of the returned slips -/
theorem sumU64_eq (l : List Nat) (t : Nat) (h : sumU64 l = some t) : t = l.sum := by
  induction l generalizing t with
  | nil => simp [sumU64] at h; simp [h]
  | cons a l ih =>
    simp only [sumU64, Option.bind_eq_some_iff] at h
    obtain ⟨s, hs, h2⟩ := h
    split at h2
    · cases h2
    · cases h2; rw [ih s hs]; simp

theorem sumK_append (a b : List UKey) : sumK (a ++ b) = sumK a + sumK b := by
  simp [sumK, List.sum_append]

theorem sumK_reverse (l : List UKey) : sumK l.reverse = sumK l := by
  induction l with
  | nil => rfl
  | cons a l ih => rw [List.reverse_cons, sumK_append, ih, sumK_cons]; simp [sumK]; omega

theorem sumK_payOuts (keys pays : List Nat) (h : pays.length = keys.length) : sumK (payOuts keys pays) = pays.sum := by
  unfold payOuts
  rw [sumK_reverse]
  induction keys generalizing pays with
  | nil => cases pays with
    | nil => rfl
    | cons => simp at h
  | cons k ks ih =>
    cases pays with
    | nil => simp at h
    | cons p ps =>
      simp only [List.zipWith_cons_cons, sumK_cons, List.sum_cons]
      rw [ih ps (by simpa using h)]
      simp [payOut, zeroSlip]

theorem sumK_map_inputOf (l : List WSlip) : sumK (l.map inputOf) = sumW l := by
  induction l with
  | nil => rfl
  | cons a l ih => simp only [List.map_cons, sumK_cons, ih]; simp [sumW, inputOf]

end Saito.Wallet
