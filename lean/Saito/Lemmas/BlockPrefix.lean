import Saito.Model.Codec2
import Saito.Lemmas.Codec
import Saito.Lemmas.CodecTotal
/-
  Prefix-rejection for the block decoder: every strict prefix of a well-formed block's wire encoding
  is rejected with `.err` (never accepted, never a panic).
-/
namespace Saito

/-! ### generic list / bind helpers -/

theorem take_append_ge (a r : Bytes) (k : Nat) (h : a.length ≤ k) :
    (a ++ r).take k = a ++ r.take (k - a.length) := by
  rw [List.take_append, List.take_of_length_le h]

/-- the four 4-byte length fields only depend on the first 16 bytes -/
theorem hdr_fields_congr (bs cs : Bytes) (h : bs.take 16 = cs.take 16) :
    bs.take 4 = cs.take 4 ∧ (bs.drop 4).take 4 = (cs.drop 4).take 4 ∧
    (bs.drop 8).take 4 = (cs.drop 8).take 4 ∧ (bs.drop 12).take 4 = (cs.drop 12).take 4 := by
  have e0 : ∀ xs : Bytes, xs.take 4 = (xs.take 16).take 4 := by
    intro xs; rw [List.take_take]; rfl
  have e1 : ∀ xs : Bytes, (xs.drop 4).take 4 = ((xs.take 16).drop 4).take 4 := by
    intro xs; rw [List.drop_take, List.take_take]; rfl
  have e2 : ∀ xs : Bytes, (xs.drop 8).take 4 = ((xs.take 16).drop 8).take 4 := by
    intro xs; rw [List.drop_take, List.take_take]; rfl
  have e3 : ∀ xs : Bytes, (xs.drop 12).take 4 = ((xs.take 16).drop 12).take 4 := by
    intro xs; rw [List.drop_take, List.take_take]; rfl
  refine ⟨?_, ?_, ?_, ?_⟩
  · rw [e0 bs, e0 cs, h]
  · rw [e1 bs, e1 cs, h]
  · rw [e2 bs, e2 cs, h]
  · rw [e3 bs, e3 cs, h]

/-! ### the head of a transaction encoding -/

theorem Tx.encode_head (t : Tx) (h : t.wf) :
    ∃ rest, t.encode = toBE 4 t.from_.length ++ (toBE 4 t.to.length ++ (toBE 4 t.data.length ++
      (toBE 4 t.path.length ++ rest))) := by
  obtain ⟨h1, h2, h3, h4, h5, h6, h7, h8, h9⟩ := h
  unfold Tx.encode
  rw [if_neg (by omega), if_neg (by omega)]
  exact ⟨_, rfl⟩

theorem Tx.encode_fields (t : Tx) (h : t.wf) :
    fromBE (t.encode.take 4) = t.from_.length ∧ fromBE ((t.encode.drop 4).take 4) = t.to.length ∧
    fromBE ((t.encode.drop 8).take 4) = t.data.length ∧
    fromBE ((t.encode.drop 12).take 4) = t.path.length := by
  obtain ⟨rest, hr⟩ := Tx.encode_head t h
  obtain ⟨h1, h2, h3, h4, h5, h6, h7, h8, h9⟩ := h
  rw [hr]
  have d4 : ∀ (a r : Bytes), a.length = 4 → (a ++ r).drop 4 = r := fun a r ha => List.drop_left' ha
  have t4 : ∀ (a r : Bytes), a.length = 4 → (a ++ r).take 4 = a := fun a r ha => List.take_left' ha
  have d8 : ∀ (a b r : Bytes), a.length = 4 → b.length = 4 → (a ++ (b ++ r)).drop 8 = r := by
    intro a b r ha hb
    have : (a ++ (b ++ r)).drop 8 = ((a ++ (b ++ r)).drop 4).drop 4 := by rw [List.drop_drop]
    rw [this, d4 _ _ ha, d4 _ _ hb]
  have d12 : ∀ (a b c r : Bytes), a.length = 4 → b.length = 4 → c.length = 4 →
      (a ++ (b ++ (c ++ r))).drop 12 = r := by
    intro a b c r ha hb hc
    have : (a ++ (b ++ (c ++ r))).drop 12 = ((a ++ (b ++ (c ++ r))).drop 4).drop 8 := by
      rw [List.drop_drop]
    rw [this, d4 _ _ ha, d8 _ _ _ hb hc]
  refine ⟨?_, ?_, ?_, ?_⟩
  · rw [t4 _ _ (toBE_length _ _), fromBE_toBE4 _ (by omega)]
  · rw [d4 _ _ (toBE_length _ _), t4 _ _ (toBE_length _ _), fromBE_toBE4 _ (by omega)]
  · rw [d8 _ _ _ (toBE_length _ _) (toBE_length _ _), t4 _ _ (toBE_length _ _), fromBE_toBE4 _ h5]
  · rw [d12 _ _ _ _ (toBE_length _ _) (toBE_length _ _) (toBE_length _ _), t4 _ _ (toBE_length _ _),
      fromBE_toBE4 _ h6]

theorem Tx.encode_length_ge (t : Tx) (h : t.wf) : 93 ≤ t.encode.length := by
  rw [Tx.encode_length t h]; unfold Tx.size TX_SIZE; omega

theorem Tx.extent_eq (t : Tx) (h : t.wf) :
    txExtent t.from_.length t.to.length t.data.length t.path.length = t.encode.length := by
  rw [Tx.encode_length t h]
  unfold Tx.size txExtent TX_SIZE SLIP_SIZE HOP_SIZE
  omega

/-! ### one iteration of the block transaction loop -/

/-- One step of the loop on any buffer whose first 16 bytes are those of `t.encode`. -/
theorem decBlockTxs_step (fl : CodecFlags) (t : Tx) (h : t.wf) (n : Nat) (bs : Bytes)
    (h16 : 16 ≤ bs.length) (hp : bs.take 16 = t.encode.take 16) :
    decBlockTxs fl (n + 1) bs =
      if bs.length < t.encode.length then .err else
      (Tx.decode fl (bs.take t.encode.length)).bind fun t' =>
      (decBlockTxs fl n (bs.drop t.encode.length)).bind fun l => .ok (t' :: l) := by
  obtain ⟨c0, c1, c2, c3⟩ := hdr_fields_congr _ _ hp
  obtain ⟨f0, f1, f2, f3⟩ := Tx.encode_fields t h
  have hext := Tx.extent_eq t h
  have hsum : ¬ (t.from_.length + t.to.length ≥ 2 ^ 32) := by
    have := h.2.2.1; have := h.2.2.2.1; omega
  rw [decBlockTxs]
  rw [if_neg (by omega)]
  simp only [c0, c1, c2, c3, f0, f1, f2, f3, hext]
  rw [if_neg hsum]

/-! ### 1. / 2. complete transaction areas -/

theorem encTxs_cons (t : Tx) (l : List Tx) : encTxs (t :: l) = t.encode ++ encTxs l := by
  simp [encTxs]

theorem decBlockTxs_enc (fl : CodecFlags) (l : List Tx) (h : ∀ t ∈ l, t.wf) (r : Bytes) :
    decBlockTxs fl l.length (encTxs l ++ r) = .ok l := by
  induction l with
  | nil => simp [decBlockTxs]
  | cons t l ih =>
    have ht := h t (List.mem_cons_self ..)
    have ihl := ih (fun x hx => h x (List.mem_cons_of_mem _ hx))
    have hge := Tx.encode_length_ge t ht
    rw [encTxs_cons, List.append_assoc, List.length_cons]
    rw [decBlockTxs_step fl t ht _ _ (by rw [List.length_append]; omega)
      (List.take_append_of_le_length (by omega))]
    rw [if_neg (by rw [List.length_append]; omega), List.take_left' rfl, List.drop_left' rfl,
      Tx.decode_encode fl t ht, ihl]
    rfl

/-! ### 3. truncated transaction areas -/

theorem decBlockTxs_trunc (fl : CodecFlags) (l : List Tx) (h : ∀ t ∈ l, t.wf) (k : Nat)
    (hk : k < (encTxs l).length) : decBlockTxs fl l.length ((encTxs l).take k) = .err := by
  induction l generalizing k with
  | nil => simp [encTxs] at hk
  | cons t l ih =>
    have ht := h t (List.mem_cons_self ..)
    have ihl := ih (fun x hx => h x (List.mem_cons_of_mem _ hx))
    have hge := Tx.encode_length_ge t ht
    rw [encTxs_cons] at hk ⊢
    rw [List.length_append] at hk
    rw [List.length_cons]
    by_cases h16 : k < 16
    · -- fewer than 16 bytes: the first check fires
      rw [decBlockTxs, if_pos (by rw [List.length_take]; omega)]
    · have hlen : ((t.encode ++ encTxs l).take k).length = k := by
        rw [List.length_take, List.length_append]; omega
      have hp : ((t.encode ++ encTxs l).take k).take 16 = t.encode.take 16 := by
        rw [List.take_take, Nat.min_eq_left (by omega)]
        exact List.take_append_of_le_length (by omega)
      rw [decBlockTxs_step fl t ht _ _ (by omega) hp, hlen]
      by_cases hkt : k < t.encode.length
      · rw [if_pos hkt]
      · rw [if_neg hkt]
        have hbuf : (t.encode ++ encTxs l).take k = t.encode ++ (encTxs l).take (k - t.encode.length) :=
          take_append_ge _ _ _ (by omega)
        rw [hbuf, List.take_left' rfl, List.drop_left' rfl, Tx.decode_encode fl t ht,
          ihl (k - t.encode.length) (by omega)]
        rfl

/-! ### 4. length of a block encoding -/

theorem encU64s_length (l : List UInt64) : (encU64s l).length = 8 * l.length := by
  induction l with
  | nil => simp [encU64s]
  | cons x l ih =>
    simp only [encU64s, List.map_cons, List.flatten_cons, List.length_append, toBE_length,
      List.length_cons] at *
    omega

theorem Block.wireNums_length (b : Block) (h : b.nums.length = 25) : b.wireNums.length = 26 := by
  unfold Block.wireNums
  simp only [List.length_append, List.length_take, List.length_cons, List.length_drop, h]
  omega

theorem Block.encode_length (b : Block) (h : b.wf) :
    (b.encode false).length = 389 + (encTxs b.txs).length := by
  obtain ⟨h1, h2, h3, h4, h5, h6, h7, h8⟩ := h
  unfold Block.encode
  simp only [Bool.false_eq_true, if_false, List.length_append, toBE_length, encU64s_length,
    Block.wireNums_length b h5, h1, h2, h3, h4]
  omega

/-! ### 5. every strict prefix of a block encoding is rejected -/

theorem Block.decode_prefix_err (fl : CodecFlags) (b : Block) (h : b.wf) (k : Nat)
    (hk : k < (b.encode false).length) : Block.decode fl ((b.encode false).take k) = .err := by
  rw [Block.encode_length b h] at hk
  obtain ⟨h1, h2, h3, h4, h5, h6, h7, h8⟩ := h
  have hw : (encU64s b.wireNums).length = 208 := by
    rw [encU64s_length, Block.wireNums_length b h5]
  by_cases hs : k < 389
  · unfold Block.decode
    rw [if_pos (by rw [List.length_take]; omega)]
  · have hbuf : (b.encode false).take k =
        toBE 4 b.txs.length ++ (toBE 8 b.id.toNat ++ (toBE 8 b.ts.toNat ++ (b.prev ++
        (b.creator ++ (b.merkle ++ (b.sig ++ (encU64s b.wireNums ++
          (encTxs b.txs).take (k - 389)))))))) := by
      unfold Block.encode
      simp only [Bool.false_eq_true, if_false]
      rw [take_append_ge _ _ _ (by rw [toBE_length]; omega),
        take_append_ge _ _ _ (by rw [toBE_length, toBE_length]; omega),
        take_append_ge _ _ _ (by simp only [toBE_length]; omega),
        take_append_ge _ _ _ (by simp only [toBE_length, h1]; omega),
        take_append_ge _ _ _ (by simp only [toBE_length, h1, h2]; omega),
        take_append_ge _ _ _ (by simp only [toBE_length, h1, h2, h3]; omega),
        take_append_ge _ _ _ (by simp only [toBE_length, h1, h2, h3, h4]; omega),
        take_append_ge _ _ _ (by simp only [toBE_length, h1, h2, h3, h4, hw]; omega)]
      simp only [toBE_length, h1, h2, h3, h4, hw]
      have hkk : k - 4 - 8 - 8 - 32 - 33 - 32 - 64 - 208 = k - 389 := by omega
      rw [hkk]
    have hlen : ((b.encode false).take k).length = k := by
      rw [List.length_take, Block.encode_length b ⟨h1, h2, h3, h4, h5, h6, h7, h8⟩]; omega
    unfold Block.decode
    rw [if_neg (by rw [hlen]; exact hs), hbuf]
    rw [takeN_append _ _ _ (toBE_length _ _), takeN_append _ _ _ (toBE_length _ _),
      takeN_append _ _ _ (toBE_length _ _), takeN_append _ _ _ h1, takeN_append _ _ _ h2,
      takeN_append _ _ _ h3, takeN_append _ _ _ h4, takeN_append _ _ _ hw]
    simp only
    rw [fromBE_toBE4 _ h6, decBlockTxs_trunc fl b.txs h7 (k - 389) (by omega)]
    rfl

/-! ### 6. the full encoding is accepted -/

theorem Block.decode_encode_ok (fl : CodecFlags) (b : Block) (h : b.wf) :
    ∃ b', Block.decode fl (b.encode false) = .ok b' ∧ b'.txs = b.txs ∧ b'.id = b.id ∧
      b'.ts = b.ts ∧ b'.prev = b.prev := by
  have hl := Block.encode_length b h
  obtain ⟨h1, h2, h3, h4, h5, h6, h7, h8⟩ := h
  have hw : (encU64s b.wireNums).length = 208 := by
    rw [encU64s_length, Block.wireNums_length b h5]
  have htx := decBlockTxs_enc fl b.txs h7 []
  rw [List.append_nil] at htx
  unfold Block.decode
  rw [if_neg (by rw [hl]; omega)]
  unfold Block.encode
  simp only [Bool.false_eq_true, if_false]
  rw [takeN_append _ _ _ (toBE_length _ _), takeN_append _ _ _ (toBE_length _ _),
    takeN_append _ _ _ (toBE_length _ _), takeN_append _ _ _ h1, takeN_append _ _ _ h2,
    takeN_append _ _ _ h3, takeN_append _ _ _ h4, takeN_append _ _ _ hw]
  rw [fromBE_toBE4 _ h6, htx]
  refine ⟨_, rfl, rfl, ?_, ?_, rfl⟩
  · exact u64_toBE _
  · exact u64_toBE _

end Saito
