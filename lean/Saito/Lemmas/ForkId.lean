import Saito.Model.ForkId
/-! Helper lemmas for C15 (fork id / ancestor estimate / announcement). -/
namespace Saito.ForkId

theorem hashAt_some_bounds {c : List Nat} {id h : Nat} (hh : hashAt c id = some h) : 1 ≤ id ∧ id ≤ c.length := by
  unfold hashAt at hh
  split at hh
  · simp at hh
  · rename_i hne
    have hlt : id - 1 < c.length := by
      rcases Nat.lt_or_ge (id - 1) c.length with hlt | hge
      · exact hlt
      · rw [List.getElem?_eq_none hge] at hh; simp at hh
    omega

/-- a result of the ancestor walk is 0 or an id the walk looked at, with a matching window -/
theorem ancGo_spec (win : Nat → Nat → Nat) (my : List Nat) (fid : List (Option Nat)) :
    ∀ (ws : List Nat) (i bid r : Nat), ancGo win my fid ws i bid = some r →
      r = 0 ∨ ∃ j h, (j, r) ∈ cmpGo ws i bid ∧ hashAt my r = some h ∧ slotVal fid j = win h j := by
  intro ws
  induction ws with
  | nil => intro i bid r h; simp [ancGo] at h
  | cons w ws ih =>
    intro i bid r h
    unfold ancGo at h
    split at h
    · left; simpa using h.symm
    · rename_i hlt
      have hcmp : cmpGo (w :: ws) i bid = (i, bid - w) :: cmpGo ws (i + 1) (bid - w) := by
        simp [cmpGo, hlt]
      split at h
      · rename_i hB hhB
        split at h
        · rename_i heq
          right
          have : r = bid - w := by simpa using h.symm
          subst this
          exact ⟨i, hB, by rw [hcmp]; exact List.mem_cons_self, hhB, by simpa using heq⟩
        · rcases ih _ _ _ h with h0 | ⟨j, h', hm, hh, hv⟩
          · left; exact h0
          · right; exact ⟨j, h', by rw [hcmp]; exact List.mem_cons_of_mem _ hm, hh, hv⟩
      · rcases ih _ _ _ h with h0 | ⟨j, h', hm, hh, hv⟩
        · left; exact h0
        · right; exact ⟨j, h', by rw [hcmp]; exact List.mem_cons_of_mem _ hm, hh, hv⟩

theorem forkPointGo_ge (a b : List Nat) (r : Nat) (hr : agreeAt a b r = true) :
    ∀ n, r ≤ n → r ≤ forkPointGo a b n := by
  intro n
  induction n with
  | zero => intro h; simpa [forkPointGo] using h
  | succ n ih =>
    intro h
    unfold forkPointGo
    split
    · exact h
    · rename_i hne
      have : r ≠ n + 1 := by intro he; subst he; exact hne hr
      exact ih (by omega)

theorem agreeAt_bounds {a b : List Nat} {r : Nat} (h : agreeAt a b r = true) :
    1 ≤ r ∧ r ≤ a.length ∧ r ≤ b.length := by
  unfold agreeAt at h
  split at h
  · rename_i x y hx hy
    have := hashAt_some_bounds hx
    have := hashAt_some_bounds hy
    omega
  · simp at h

/-- an id at which the chains agree is not above the fork point -/
theorem agree_le_forkPoint {a b : List Nat} {r : Nat} (h : agreeAt a b r = true) : r ≤ forkPoint a b := by
  have hb := agreeAt_bounds h
  exact forkPointGo_ge a b r h _ (by omega)

theorem forkPointGo_le (a b : List Nat) : ∀ n, forkPointGo a b n ≤ n := by
  intro n
  induction n with
  | zero => simp [forkPointGo]
  | succ n ih => unfold forkPointGo; split <;> omega

theorem forkPointGo_agree (a b : List Nat) : ∀ n, 0 < forkPointGo a b n → agreeAt a b (forkPointGo a b n) = true := by
  intro n
  induction n with
  | zero => simp [forkPointGo]
  | succ n ih =>
    unfold forkPointGo
    split
    · intro _; assumption
    · exact ih

/-- at a positive fork point the chains do agree -/
theorem forkPoint_agree (a b : List Nat) (h : 0 < forkPoint a b) : agreeAt a b (forkPoint a b) = true :=
  forkPointGo_agree a b _ h

theorem agreeAt_iff {a b : List Nat} {id : Nat} :
    agreeAt a b id = true ↔ ∃ h, hashAt a id = some h ∧ hashAt b id = some h := by
  unfold agreeAt
  constructor
  · intro h
    split at h
    · rename_i x y hx hy
      have : x = y := by simpa using h
      subst this
      exact ⟨x, hx, hy⟩
    · simp at h
  · rintro ⟨h, ha, hb⟩
    simp [ha, hb]

theorem mem_announced {my : List Nat} {anc id h : Nat} (hh : hashAt my id = some h) (ha : anc ≤ id) :
    (id, h) ∈ announced my anc := by
  have hb := hashAt_some_bounds hh
  unfold announced
  rw [List.mem_filterMap]
  refine ⟨id - anc, ?_, ?_⟩
  · rw [List.mem_range]; omega
  · have : anc + (id - anc) = id := by omega
    simp [this, hh]

theorem announced_sound {my : List Nat} {anc id h : Nat} (hm : (id, h) ∈ announced my anc) :
    hashAt my id = some h ∧ anc ≤ id := by
  unfold announced at hm
  rw [List.mem_filterMap] at hm
  obtain ⟨k, _, hk⟩ := hm
  cases hq : hashAt my (anc + k) with
  | none => simp [hq] at hk
  | some h' =>
    simp [hq] at hk
    obtain ⟨h1, h2⟩ := hk
    subst h1; subst h2
    exact ⟨hq, by omega⟩

theorem heightInHash_spec {a b : List Nat} (hh : heightInHash a b = true) {x y h : Nat}
    (ha : hashAt a x = some h) (hb : hashAt b y = some h) : x = y := by
  unfold heightInHash at hh
  rw [List.all_eq_true] at hh
  have hx := hashAt_some_bounds ha
  have hy := hashAt_some_bounds hb
  have h1 := hh x (List.mem_range.2 (by omega))
  rw [List.all_eq_true] at h1
  have h2 := h1 y (List.mem_range.2 (by omega))
  simpa [ha, hb] using h2


theorem prefixClosed_spec {a b : List Nat} (hp : prefixClosed a b = true) {i j : Nat}
    (hi : agreeAt a b i = true) (hj : 1 ≤ j) (hji : j < i) : agreeAt a b j = true := by
  unfold prefixClosed at hp
  rw [List.all_eq_true] at hp
  have hb := agreeAt_bounds hi
  have h1 := hp i (List.mem_range.2 (by omega))
  simp only [hi, if_true] at h1
  rw [List.all_eq_true] at h1
  have h2 := h1 j (List.mem_range.2 hji)
  have : (j == 0) = false := by simp; omega
  simpa [this] using h2


end Saito.ForkId
