import Saito.Model.Codec
import Saito.Lemmas.Codec
namespace Saito

theorem takeN_ne_panic {α} (n : Nat) (bs : Bytes) (e : Res α) (k : Bytes → Bytes → Res α)
    (he : e ≠ .panic) (hk : ∀ a r, a.length = n → r.length + n = bs.length → k a r ≠ .panic) :
    takeN n bs e k ≠ .panic := by
  unfold takeN
  split
  · apply hk <;> simp <;> omega
  · exact he

theorem takeN_ok {α} (n : Nat) (bs : Bytes) (e : Res α) (k : Bytes → Bytes → Res α) (h : n ≤ bs.length) :
    takeN n bs e k = k (bs.take n) (bs.drop n) := by
  simp [takeN, h]

theorem Slip.decode_ne_panic (bs : Bytes) : Slip.decode bs ≠ .panic := by
  unfold Slip.decode
  split
  · simp
  · repeat (apply takeN_ne_panic _ _ _ _ (by simp); intro _ _ _ _)
    split
    · split <;> simp
    · simp

theorem Hop.decode_ne_panic (bs : Bytes) : Hop.decode bs ≠ .panic := by
  unfold Hop.decode
  split
  · simp
  · repeat (apply takeN_ne_panic _ _ _ _ (by simp); intro _ _ _ _)
    simp

theorem bind_ne_panic {α β} (r : Res α) (f : α → Res β) (hr : r ≠ .panic) (hf : ∀ v, r = .ok v → f v ≠ .panic) :
    r.bind f ≠ .panic := by
  cases r with
  | ok v => exact hf v rfl
  | err => simp [Res.bind]
  | panic => exact absurd rfl hr

theorem decSlips_rest (n : Nat) (bs : Bytes) (l : List Slip) (r : Bytes)
    (h : decSlips n bs = .ok (l, r)) : r.length + 59 * n = bs.length := by
  induction n generalizing bs l r with
  | zero => simp [decSlips] at h; rw [h.2]; simp
  | succ n ih =>
    unfold decSlips takeN at h
    split at h
    · rename_i hle
      simp only at h
      cases hs : Slip.decode (List.take 59 bs) with
      | ok s =>
        rw [hs] at h; simp only [Res.bind] at h
        cases hd : decSlips n (List.drop 59 bs) with
        | ok p =>
          obtain ⟨l', r'⟩ := p
          rw [hd] at h; simp only [Res.ok.injEq, Prod.mk.injEq] at h
          have := ih _ _ _ hd
          rw [← h.2]; simp at this; omega
        | err => rw [hd] at h; simp at h
        | panic => rw [hd] at h; simp at h
      | err => rw [hs] at h; simp [Res.bind] at h
      | panic => rw [hs] at h; simp [Res.bind] at h
    · simp at h

theorem decSlips_ne_panic (n : Nat) (bs : Bytes) (h : 59 * n ≤ bs.length) : decSlips n bs ≠ .panic := by
  induction n generalizing bs with
  | zero => simp [decSlips]
  | succ n ih =>
    unfold decSlips
    rw [takeN_ok _ _ _ _ (by omega)]
    apply bind_ne_panic _ _ (Slip.decode_ne_panic _)
    intro s _
    apply bind_ne_panic _ _ (ih _ (by simp; omega))
    intro ⟨l, r⟩ _; simp

theorem decHops_ne_panic (n : Nat) (bs : Bytes) (h : 130 * n ≤ bs.length) : decHops n bs ≠ .panic := by
  induction n generalizing bs with
  | zero => simp [decHops]
  | succ n ih =>
    unfold decHops
    rw [takeN_ok _ _ _ _ (by omega)]
    apply bind_ne_panic _ _ (Hop.decode_ne_panic _)
    intro s _
    apply bind_ne_panic _ _ (ih _ (by simp; omega))
    intro l _; simp

/-- the four length fields of a transaction buffer as the decoder reads them -/
def txClaimed (bs : Bytes) : Nat :=
  txExtent (fromBE (bs.take 4)) (fromBE ((bs.drop 4).take 4)) (fromBE ((bs.drop 8).take 4))
    (fromBE ((bs.drop 12).take 4))

/-- The only way `Transaction::deserialize_from_net` can panic: the claimed extent exceeds the buffer. -/
theorem Tx.decode_ne_panic_of_extent (fl : CodecFlags) (bs : Bytes) (h : txClaimed bs ≤ bs.length) :
    Tx.decode fl bs ≠ .panic := by
  unfold Tx.decode
  split
  · simp
  · rename_i hlen
    simp only [Nat.not_lt] at hlen
    rw [takeN_ok _ _ _ _ (by omega)]
    split; · simp
    rw [takeN_ok _ _ _ _ (by simp; omega)]
    split; · simp
    rw [takeN_ok _ _ _ _ (by simp; omega), takeN_ok _ _ _ _ (by simp; omega),
      takeN_ok _ _ _ _ (by simp; omega), takeN_ok _ _ _ _ (by simp; omega),
      takeN_ok _ _ _ _ (by simp; omega), takeN_ok _ _ _ _ (by simp; omega)]
    split; · simp
    split; · simp
    simp only [List.drop_drop, Nat.reduceAdd] at *
    unfold txClaimed txExtent at h
    apply bind_ne_panic _ _ (decSlips_ne_panic _ _ (by simp; omega))
    intro ⟨ins, r1⟩ h1
    have e1 := decSlips_rest _ _ _ _ h1
    simp only [List.length_drop] at e1
    dsimp only
    apply bind_ne_panic _ _ (decSlips_ne_panic _ _ (by omega))
    intro ⟨outs, r2⟩ h2
    have e2 := decSlips_rest _ _ _ _ h2
    dsimp only
    rw [takeN_ok _ _ _ _ (by omega)]
    apply bind_ne_panic _ _ (decHops_ne_panic _ _ (by simp; omega))
    intro hops _; simp

/-- C10 for the transaction decoder with the bounds check in place: total on every byte string. -/
theorem Tx.decode_total_fixed (fl : CodecFlags) (hf : fl.txBounds = true) (bs : Bytes) :
    Tx.decode fl bs ≠ .panic := by
  by_cases h : txClaimed bs ≤ bs.length
  · exact Tx.decode_ne_panic_of_extent fl bs h
  · unfold Tx.decode
    split
    · simp
    · rename_i hlen
      simp only [Nat.not_lt] at hlen
      rw [takeN_ok _ _ _ _ (by omega)]
      split; · simp
      rw [takeN_ok _ _ _ _ (by simp; omega)]
      split; · simp
      rw [takeN_ok _ _ _ _ (by simp; omega), takeN_ok _ _ _ _ (by simp; omega),
        takeN_ok _ _ _ _ (by simp; omega), takeN_ok _ _ _ _ (by simp; omega),
        takeN_ok _ _ _ _ (by simp; omega), takeN_ok _ _ _ _ (by simp; omega)]
      split; · simp
      simp only [List.drop_drop, Nat.reduceAdd] at *
      unfold txClaimed at h
      rw [if_pos (by simp [hf]; omega)]
      simp

end Saito
