import Saito.Model.Supply
/-! Helper lemmas for C02: sums, the window split, removal of spent outputs, the ATR fold. -/
namespace Saito.Supply

/-! ### sums -/
theorem foldl_wrap (l : List Nat) (a : Nat) :
    l.foldl (fun a x => (a + x) % two64) (a % two64) = (a + sumNat l) % two64 := by
  induction l generalizing a with
  | nil => simp [sumNat]
  | cons x xs ih =>
    simp only [List.foldl_cons, sumNat]
    rw [ih (a % two64 + x)]
    simp only [two64]
    omega

/-- the wrapping sum is the unbounded sum modulo 2^64 -/
theorem sumU64_eq_mod (l : List Nat) : sumU64 l = sumNat l % two64 := by
  have := foldl_wrap l 0
  simpa [sumU64] using this

theorem sumU64_eq_of_lt (l : List Nat) (h : sumNat l < two64) : sumU64 l = sumNat l := by
  rw [sumU64_eq_mod]; exact Nat.mod_eq_of_lt h

theorem sumNat_append (a b : List Nat) : sumNat (a ++ b) = sumNat a + sumNat b := by
  induction a with
  | nil => simp [sumNat]
  | cons x xs ih => simp [sumNat, ih]; omega

@[simp] theorem sumAmt_nil : sumAmt [] = 0 := rfl
@[simp] theorem sumAmt_cons (x : Utx) (l : List Utx) : sumAmt (x :: l) = x.amt + sumAmt l := rfl
theorem sumAmt_append (a b : List Utx) : sumAmt (a ++ b) = sumAmt a + sumAmt b := by
  simp [sumAmt, sumNat_append]

theorem sumAmt_filter_self (p : Utx → Bool) (l : List Utx) (h : ∀ x ∈ l, p x = true) :
    sumAmt (l.filter p) = sumAmt l := by
  rw [List.filter_eq_self.2 h]

/-! ### the window moves by one block -/
theorem window_split (gp t : Nat) (u : List Utx) :
    sumAmt (u.filter (inWin gp t)) = sumAmt (u.filter (inWin gp (t + 1))) + sumAmt (u.filter (expiring gp (t + 1))) := by
  induction u with
  | nil => simp
  | cons x xs ih =>
    simp only [List.filter_cons, inWin, expiring]
    by_cases h1 : t + 1 ≤ x.bid + gp
    · have h2 : t ≤ x.bid + gp := by omega
      have h3 : ¬ (x.bid + gp = t) := by omega
      simp [h1, h2, h3] at ih ⊢
      omega
    · by_cases h2 : t ≤ x.bid + gp
      · have h3 : x.bid + gp = t := by omega
        simp [h3, Nat.not_succ_le_self] at ih ⊢
        omega
      · have h3 : ¬ (x.bid + gp = t) := by omega
        simp [h1, h2, h3] at ih ⊢
        omega

theorem expiring_not_inWin (gp n : Nat) (x : Utx) (h : expiring gp n x = true) : inWin gp n x = false := by
  simp [expiring, inWin] at h ⊢; omega

/-! ### removal of spent outputs -/
def keys (u : List Utx) : List Nat := u.map (·.key)

theorem mem_removeKey (u : List Utx) (k : Nat) (x : Utx) : x ∈ removeKey u k ↔ x ∈ u ∧ x.key ≠ k := by
  simp [removeKey]

theorem removeKey_sublist (u : List Utx) (k : Nat) : (removeKey u k).Sublist u := List.filter_sublist

theorem removeKeys_sublist (ks : List Nat) (u : List Utx) : (removeKeys u ks).Sublist u := by
  induction ks generalizing u with
  | nil => exact List.Sublist.refl _
  | cons k ks ih => exact (ih (removeKey u k)).trans (removeKey_sublist u k)

theorem keys_nodup_sublist {u v : List Utx} (h : v.Sublist u) (hn : (keys u).Nodup) : (keys v).Nodup :=
  List.Pairwise.sublist (h.map _) hn

theorem key_inj {u : List Utx} (hn : (keys u).Nodup) {x y : Utx} (hx : x ∈ u) (hy : y ∈ u) (hk : x.key = y.key) :
    x = y := by
  induction u with
  | nil => cases hx
  | cons z zs ih =>
    simp only [keys, List.map_cons, List.nodup_cons, List.mem_map, not_exists, not_and] at hn
    obtain ⟨hz, hzs⟩ := hn
    rcases List.mem_cons.1 hx with rfl | hx' <;> rcases List.mem_cons.1 hy with rfl | hy'
    · rfl
    · exact absurd hk.symm (hz y hy')
    · exact absurd hk (hz x hx')
    · exact ih hzs hx' hy'

/-- removing a present key takes exactly its amount out of any filtered sum -/
theorem sum_removeKey (p : Utx → Bool) (u : List Utx) (x : Utx) (hn : (keys u).Nodup) (hx : x ∈ u) :
    sumAmt ((removeKey u x.key).filter p) + (if p x then x.amt else 0) = sumAmt (u.filter p) := by
  induction u with
  | nil => cases hx
  | cons z zs ih =>
    have hn' := hn
    simp only [keys, List.map_cons, List.nodup_cons, List.mem_map, not_exists, not_and] at hn
    obtain ⟨hz, hzs⟩ := hn
    rcases List.mem_cons.1 hx with rfl | hx'
    · have hrest : removeKey zs x.key = zs := by
        apply List.filter_eq_self.2
        intro y hy
        simpa using hz y hy
      have : removeKey (x :: zs) x.key = zs := by
        simp [removeKey] at hrest ⊢
        exact hrest
      rw [this]
      by_cases hp : p x <;> simp [hp] ; omega
    · have hne : z.key ≠ x.key := fun h => hz x hx' h.symm
      have : removeKey (z :: zs) x.key = z :: removeKey zs x.key := by
        simp [removeKey, hne]
      rw [this]
      have := ih hzs hx'
      by_cases hp : p z <;> simp [hp] <;> omega

/-- removing the (distinct, present) inputs of a block takes exactly their in-filter amounts out -/
theorem sum_removeKeys (p : Utx → Bool) (ins u : List Utx) (hn : (keys u).Nodup)
    (hin : ∀ x ∈ ins, x ∈ u) (hd : (keys ins).Nodup) :
    sumAmt ((removeKeys u (keys ins)).filter p) + sumAmt (ins.filter p) = sumAmt (u.filter p) := by
  induction ins generalizing u with
  | nil => simp [removeKeys, keys]
  | cons x xs ih =>
    simp only [keys, List.map_cons, List.nodup_cons, List.mem_map, not_exists, not_and] at hd
    obtain ⟨hx, hxs⟩ := hd
    have hxu : x ∈ u := hin x (List.mem_cons_self ..)
    have h1 := sum_removeKey p u x hn hxu
    have hn1 : (keys (removeKey u x.key)).Nodup := keys_nodup_sublist (removeKey_sublist u x.key) hn
    have hin1 : ∀ y ∈ xs, y ∈ removeKey u x.key := by
      intro y hy
      exact (mem_removeKey u x.key y).2 ⟨hin y (List.mem_cons_of_mem _ hy), fun h => hx y hy h⟩
    have h2 := ih (removeKey u x.key) hn1 hin1 hxs
    have e : removeKeys u (keys (x :: xs)) = removeKeys (removeKey u x.key) (keys xs) := by
      simp [removeKeys, keys]
    rw [e]
    by_cases hp : p x <;> simp [hp] at h1 ⊢ <;> omega

/-- removing keys whose holders are all outside the filter does not change the filtered sum -/
theorem sum_removeKey_outside (p : Utx → Bool) (u : List Utx) (k : Nat) (h : ∀ x ∈ u, x.key = k → p x = false) :
    sumAmt ((removeKey u k).filter p) = sumAmt (u.filter p) := by
  induction u with
  | nil => rfl
  | cons z zs ih =>
    have ih' := ih (fun x hx => h x (List.mem_cons_of_mem _ hx))
    by_cases hk : z.key = k
    · have hp := h z (List.mem_cons_self ..) hk
      have : removeKey (z :: zs) k = removeKey zs k := by simp [removeKey, hk]
      rw [this, ih']; simp [hp]
    · have : removeKey (z :: zs) k = z :: removeKey zs k := by simp [removeKey, hk]
      rw [this]
      by_cases hp : p z <;> simp [hp, ih']

theorem sum_removeKeys_outside (p : Utx → Bool) (ks : List Nat) (u : List Utx)
    (h : ∀ k ∈ ks, ∀ x ∈ u, x.key = k → p x = false) :
    sumAmt ((removeKeys u ks).filter p) = sumAmt (u.filter p) := by
  induction ks generalizing u with
  | nil => rfl
  | cons k ks ih =>
    have e : removeKeys u (k :: ks) = removeKeys (removeKey u k) ks := rfl
    rw [e, ih (removeKey u k) ?_, sum_removeKey_outside p u k (h k (List.mem_cons_self ..))]
    intro k' hk' x hx
    exact h k' (List.mem_cons_of_mem _ hk') x ((mem_removeKey u k x).1 hx).1

/-! ### transactions -/
theorem txFees_add (i o : Nat) (h : o ≤ i) : txFees i o + o = i := by
  unfold txFees; split <;> omega

theorem txs_fee_sum (txs : List TxIO) (h : ∀ t ∈ txs, sumAmt t.outs ≤ sumAmt t.ins)
    (hf : ∀ t ∈ txs, sumAmt t.ins < two64) :
    sumNat (txs.map TxIO.fee) + sumAmt (txOuts txs) = sumAmt (txIns txs) := by
  induction txs with
  | nil => rfl
  | cons t ts ih =>
    have h1 := ih (fun t' ht' => h t' (List.mem_cons_of_mem _ ht')) (fun t' ht' => hf t' (List.mem_cons_of_mem _ ht'))
    have hb := h t (List.mem_cons_self ..)
    have hl := hf t (List.mem_cons_self ..)
    have h2 := txFees_add _ _ hb
    have e1 : sumAmt t.ins % two64 = sumAmt t.ins := Nat.mod_eq_of_lt hl
    have e2 : sumAmt t.outs % two64 = sumAmt t.outs := Nat.mod_eq_of_lt (Nat.lt_of_le_of_lt hb hl)
    simp only [txOuts, txIns, List.map_cons, List.flatten_cons, sumAmt_append, sumNat, TxIO.fee, e1, e2] at h1 h2 ⊢
    omega

/-! ### the ATR fold -/
theorem atrStep_balance (m id : Nat) (feeOf outKeyOf : List (Nat × Nat)) (hm : 1 ≤ m) (acc : AtrAcc) (e : Utx)
    (hfit : e.amt * m < two64) :
    let r := atrStep m id feeOf outKeyOf acc e
    sumAmt r.outs + r.feesAtr + acc.payoutAtr = sumAmt acc.outs + acc.feesAtr + e.amt + r.payoutAtr
    ∧ acc.payoutAtr ≤ r.payoutAtr := by
  have hle : e.amt ≤ e.amt * m := Nat.le_mul_of_pos_right _ hm
  simp only [atrStep, Nat.mod_eq_of_lt hfit, hle, if_true]
  generalize e.amt * m = pay at hle
  split
  · simp [sumAmt_append]; omega
  · simp; omega

theorem atrRun_balance_aux (m id : Nat) (feeOf outKeyOf : List (Nat × Nat)) (hm : 1 ≤ m) (es : List Utx) (acc : AtrAcc)
    (hfit : ∀ e ∈ es, e.amt * m < two64) :
    let r := es.foldl (atrStep m id feeOf outKeyOf) acc
    sumAmt r.outs + r.feesAtr + acc.payoutAtr = sumAmt acc.outs + acc.feesAtr + sumAmt es + r.payoutAtr
    ∧ acc.payoutAtr ≤ r.payoutAtr := by
  induction es generalizing acc with
  | nil => simp
  | cons e es ih =>
    have h1 := atrStep_balance m id feeOf outKeyOf hm acc e (hfit e (List.mem_cons_self ..))
    have h2 := ih (atrStep m id feeOf outKeyOf acc e) (fun e' he' => hfit e' (List.mem_cons_of_mem _ he'))
    simp only [List.foldl_cons, sumAmt_cons] at h1 h2 ⊢
    omega

/-- rebroadcast outputs + ATR fees = what expired + what the treasury added -/
theorem atrRun_balance (m id : Nat) (feeOf outKeyOf : List (Nat × Nat)) (hm : 1 ≤ m) (es : List Utx)
    (hfit : ∀ e ∈ es, e.amt * m < two64) :
    sumAmt (atrRun m id feeOf outKeyOf es).outs + (atrRun m id feeOf outKeyOf es).feesAtr
      = sumAmt es + (atrRun m id feeOf outKeyOf es).payoutAtr := by
  have := (atrRun_balance_aux m id feeOf outKeyOf hm es {} hfit).1
  simpa [atrRun] using this

theorem atrStep_outs_bid (m id : Nat) (feeOf outKeyOf : List (Nat × Nat)) (acc : AtrAcc) (e : Utx)
    (h : ∀ o ∈ acc.outs, o.bid = id) : ∀ o ∈ (atrStep m id feeOf outKeyOf acc e).outs, o.bid = id := by
  simp only [atrStep]
  split
  · intro o ho
    rcases List.mem_append.1 ho with h1 | h1
    · exact h o h1
    · simp at h1; rw [h1]
  · exact h

theorem atrRun_outs_bid (m id : Nat) (feeOf outKeyOf : List (Nat × Nat)) (es : List Utx) :
    ∀ o ∈ (atrRun m id feeOf outKeyOf es).outs, o.bid = id := by
  have aux : ∀ (es : List Utx) (acc : AtrAcc), (∀ o ∈ acc.outs, o.bid = id) →
      ∀ o ∈ (es.foldl (atrStep m id feeOf outKeyOf) acc).outs, o.bid = id := by
    intro es
    induction es with
    | nil => intro acc h; exact h
    | cons e es ih => intro acc h; exact ih _ (atrStep_outs_bid m id feeOf outKeyOf acc e h)
  exact aux es {} (by simp)

theorem atrRun_spent (m id : Nat) (feeOf outKeyOf : List (Nat × Nat)) (es : List Utx) :
    ∀ k ∈ (atrRun m id feeOf outKeyOf es).spent, ∃ e ∈ es, e.key = k := by
  have aux : ∀ (es : List Utx) (acc : AtrAcc) (P : Nat → Prop), (∀ k ∈ acc.spent, P k) → (∀ e ∈ es, P e.key) →
      ∀ k ∈ (es.foldl (atrStep m id feeOf outKeyOf) acc).spent, P k := by
    intro es
    induction es with
    | nil => intro acc P h _; exact h
    | cons e es ih =>
      intro acc P h he
      apply ih _ P _ (fun e' he' => he e' (List.mem_cons_of_mem _ he'))
      intro k hk
      simp only [atrStep] at hk
      split at hk
      · split at hk
        · rcases List.mem_append.1 hk with h1 | h1
          · exact h k h1
          · simp at h1; rw [h1]; exact he e (List.mem_cons_self ..)
        · exact h k hk
      · exact h k hk
  intro k hk
  exact aux es {} (fun k => ∃ e ∈ es, e.key = k) (by simp) (fun e he => ⟨e, he, rfl⟩) k hk

/-! ### fee-transaction outputs -/
theorem sumAmt_mkOuts (id : Nat) (as ks : List Nat) (d : Nat) : sumAmt (mkOuts id as ks d) = sumNat as := by
  induction as generalizing ks d with
  | nil => cases ks <;> rfl
  | cons a as ih =>
    cases ks with
    | nil => simp [mkOuts, sumNat, ih]
    | cons k ks => simp [mkOuts, sumNat, ih]

theorem mkOuts_bid (id : Nat) (as ks : List Nat) (d : Nat) : ∀ o ∈ mkOuts id as ks d, o.bid = id := by
  induction as generalizing ks d with
  | nil => cases ks <;> simp [mkOuts]
  | cons a as ih =>
    cases ks with
    | nil => simp only [mkOuts, List.mem_cons]; rintro o (rfl | h); rfl; exact ih [] (d + 1) o h
    | cons k ks => simp only [mkOuts, List.mem_cons]; rintro o (rfl | h); rfl; exact ih ks d o h

theorem sumNat_filter_pos (l : List Nat) : sumNat (l.filter (fun a => decide (0 < a))) = sumNat l := by
  induction l with
  | nil => rfl
  | cons a as ih =>
    by_cases h : 0 < a
    · simp [h, sumNat, ih]
    · have : a = 0 := by omega
      simp [this, sumNat, ih]

theorem capBranch_id (fl : Flags) (a : AtrAcc) (h : fl.atrCapSound = true ∨ a.payoutAtr = 0) : capBranch fl a = a := by
  unfold capBranch
  rcases h with h | h <;> simp [h]

theorem atrMultiplier_pos (gp : Nat) (p : Hdr) : 1 ≤ atrMultiplier gp p := by
  simp only [atrMultiplier]; split
  · exact Nat.le_add_right 1 _
  · exact Nat.le_refl 1

/-! ### invariant and honesty of a block (the hypotheses of the conservation theorems) -/

/-- what holds in every ledger reached from a genesis ledger by accepted blocks -/
structure Inv (st : St) : Prop where
  /-- utxo keys are unique (the real key embeds block id, transaction ordinal, slip index) -/
  keysNodup : (keys st.utxo).Nodup
  /-- `Block::validate`: a block with a ticket has `previous_block_unpaid = 0`, one without has
      `previous_block_unpaid = previous_block.total_fees`; `Block::create` without a known parent: 0 -/
  unpaidOk : st.tip.unpaid = if st.tip.hasGT then 0 else (st.prev.map (·.fees)).getD 0

/-- all value-carrying outputs the block inserts -/
def newOuts (fl : Flags) (cap : Nat → Nat) (st : St) (b : BlockIn) : List Utx :=
  txOuts b.txs ++ (account fl cap st b).atr.outs ++ (account fl cap st b).feeOuts

/-- an accepted block whose accounting is honest. The header fields, the fee transaction and the rebroadcasts are
    the model's by construction of `applyBlock`; that the REAL block's fields equal them is what the correspondence
    run checks field by field. The remaining hypotheses are what validation of the transactions provides. -/
structure Honest (fl : Flags) (cap : Nat → Nat) (st : St) (b : BlockIn) : Prop where
  /-- no transaction pays out more than it consumes, in unbounded arithmetic (C02.tx_no_wrap_fixed) -/
  txBalanced : ∀ t ∈ b.txs, sumAmt t.outs ≤ sumAmt t.ins
  /-- … and its input sum fits `u64` (given by acceptance under `sumsChecked`; on the pinned tree: true whenever the
      issued supply is below 2^64, since inputs are distinct spendable outputs) -/
  txFits : ∀ t ∈ b.txs, sumAmt t.ins < two64
  /-- every input is a spendable output (validation against the utxo set) … -/
  insPresent : ∀ x ∈ txIns b.txs, x ∈ st.utxo
  /-- … that is still inside the window once this block is the tip (an honest producer does not spend the outputs
      the same block rebroadcasts) … -/
  insInWindow : ∀ x ∈ txIns b.txs, inWin st.gp (st.tip.id + 1) x = true
  /-- … and no output is spent twice in the block (`slips_spent_this_block`) -/
  insDistinct : (keys (txIns b.txs)).Nodup
  /-- outputs carry the id of this block -/
  outsBid : ∀ o ∈ txOuts b.txs, o.bid = st.tip.id + 1
  /-- keys of new outputs are fresh -/
  fresh : (keys (st.utxo ++ newOuts fl cap st b)).Nodup
  /-- the 5% branch of the rebroadcast code is not entered: the multiplier is 1 (no payout), or the branch is repaired -/
  atrUncapped : fl.atrCapSound = true ∨
    (atrRun (atrMultiplier st.gp st.tip) (st.tip.id + 1) b.atrFee b.atrOutKey
      (st.utxo.filter (expiring st.gp (st.tip.id + 1)))).payoutAtr = 0
  /-- every rebroadcast payout `a·m` fits `u64` (with multiplier 1: every amount does) -/
  atrFits : ∀ e ∈ st.utxo.filter (expiring st.gp (st.tip.id + 1)), e.amt * atrMultiplier st.gp st.tip < two64
  /-- `previous.treasury + payout_treasury - payout_atr` does not underflow -/
  treasuryCovers : (account fl cap st b).atr.payoutAtr ≤ st.tip.treasury + (account fl cap st b).pay.treasury

/-- every block of the sequence is honest at its turn -/
def HonestSeq (fl : Flags) (cap : Nat → Nat) : St → List BlockIn → Prop
  | _, [] => True
  | st, b :: bs => Honest fl cap st b ∧ HonestSeq fl cap (applyBlock fl cap st b) bs

/-- no ticket of the sequence carries the all-zero key, or the zero-key repair is in place -/
def NoZeroMiner (fl : Flags) (bs : List BlockIn) : Prop :=
  ∀ b ∈ bs, b.hasGT = true → b.minerZero = true → fl.minerZeroKeyBurns = true

end Saito.Supply
