import Saito.Model.Chain
/-! Algebra of the spendable set: wind / unwind as set operations (helper lemmas for C03 / C04). -/
namespace Saito.Chain

theorem mem_uInsert (u : List Nat) (k x : Nat) : x ∈ uInsert u k ↔ x = k ∨ x ∈ u := by
  unfold uInsert
  split
  · constructor
    · intro h; exact Or.inr h
    · rintro (h | h)
      · subst h; assumption
      · exact h
  · simp

theorem mem_uRemove (u : List Nat) (k x : Nat) : x ∈ uRemove u k ↔ x ∈ u ∧ x ≠ k := by
  simp [uRemove]

theorem mem_foldl_uInsert (ks u : List Nat) (x : Nat) : x ∈ ks.foldl uInsert u ↔ x ∈ ks ∨ x ∈ u := by
  induction ks generalizing u with
  | nil => simp
  | cons k ks ih =>
    simp only [List.foldl_cons, ih, mem_uInsert, List.mem_cons]
    constructor
    · rintro (h | h | h)
      · exact Or.inl (Or.inr h)
      · exact Or.inl (Or.inl h)
      · exact Or.inr h
    · rintro ((h | h) | h)
      · exact Or.inr (Or.inl h)
      · exact Or.inl h
      · exact Or.inr (Or.inr h)

theorem mem_foldl_uRemove (ks u : List Nat) (x : Nat) : x ∈ ks.foldl uRemove u ↔ x ∈ u ∧ x ∉ ks := by
  induction ks generalizing u with
  | nil => simp
  | cons k ks ih =>
    simp only [List.foldl_cons, ih, mem_uRemove, List.mem_cons, not_or]
    constructor
    · rintro ⟨⟨h1, h2⟩, h3⟩; exact ⟨h1, h2, h3⟩
    · rintro ⟨h1, h2, h3⟩; exact ⟨⟨h1, h2⟩, h3⟩

theorem mem_windU (b : ABlock) (u : List Nat) (x : Nat) :
    x ∈ windU b u ↔ x ∈ b.outs ∨ (x ∈ u ∧ x ∉ b.ins) := by
  simp [windU, mem_foldl_uInsert, mem_foldl_uRemove]

theorem mem_unwindU (b : ABlock) (u : List Nat) (x : Nat) :
    x ∈ unwindU b u ↔ (x ∈ b.ins ∨ x ∈ u) ∧ x ∉ b.outs := by
  simp [unwindU, mem_foldl_uInsert, mem_foldl_uRemove]

/-- set equality of spendable sets -/
def SameSet (u v : List Nat) : Prop := ∀ x, x ∈ u ↔ x ∈ v

theorem SameSet.refl (u : List Nat) : SameSet u u := fun _ => Iff.rfl
theorem SameSet.symm {u v : List Nat} (h : SameSet u v) : SameSet v u := fun x => (h x).symm
theorem SameSet.trans {u v w : List Nat} (h : SameSet u v) (g : SameSet v w) : SameSet u w :=
  fun x => (h x).trans (g x)

theorem windU_congr (b : ABlock) {u v : List Nat} (h : SameSet u v) : SameSet (windU b u) (windU b v) := by
  intro x; simp only [mem_windU, h x]

theorem unwindU_congr (b : ABlock) {u v : List Nat} (h : SameSet u v) : SameSet (unwindU b u) (unwindU b v) := by
  intro x; simp only [mem_unwindU, h x]

/-- A block is *clean* against `u`: its inputs are spendable, its outputs are fresh, and it does not spend
    its own outputs. (What validation with a propagated verdict plus key uniqueness gives.) -/
def CleanAt (b : ABlock) (u : List Nat) : Prop :=
  (∀ k ∈ b.ins, k ∈ u) ∧ (∀ k ∈ b.outs, k ∉ u) ∧ (∀ k ∈ b.outs, k ∉ b.ins)

/-- C03 core: unwinding a block that was wound cleanly restores the spendable set exactly. -/
theorem unwind_wind (b : ABlock) (u : List Nat) (h : CleanAt b u) : SameSet (unwindU b (windU b u)) u := by
  obtain ⟨h1, h2, h3⟩ := h
  intro x
  simp only [mem_unwindU, mem_windU]
  constructor
  · rintro ⟨hx | hx | ⟨hx, _⟩, hno⟩
    · exact h1 x hx
    · exact absurd hx hno
    · exact hx
  · intro hx
    have hno : x ∉ b.outs := fun ho => h2 x ho hx
    refine ⟨?_, hno⟩
    by_cases hi : x ∈ b.ins
    · exact Or.inl hi
    · exact Or.inr (Or.inr ⟨hx, hi⟩)

/-- replay of a chain (oldest first) from the empty ledger -/
def replayFrom (u : List Nat) (c : List ABlock) : List Nat := c.foldl (fun u b => windU b u) u
def replay (c : List ABlock) : List Nat := replayFrom [] c

/-- every block of the segment is clean at its turn -/
def CleanSeg : List Nat → List ABlock → Prop
  | _, [] => True
  | u, b :: rest => CleanAt b u ∧ CleanSeg (windU b u) rest

/-- unwind a segment, newest first -/
def unwindSeg (u : List Nat) (c : List ABlock) : List Nat := c.reverse.foldl (fun u b => unwindU b u) u

theorem replayFrom_congr (c : List ABlock) {u v : List Nat} (h : SameSet u v) :
    SameSet (replayFrom u c) (replayFrom v c) := by
  induction c generalizing u v with
  | nil => exact h
  | cons b c ih => exact ih (windU_congr b h)

theorem unwindSeg_congr (c : List ABlock) {u v : List Nat} (h : SameSet u v) :
    SameSet (unwindSeg u c) (unwindSeg v c) := by
  unfold unwindSeg
  generalize c.reverse = r
  induction r generalizing u v with
  | nil => exact h
  | cons b r ih => exact ih (unwindU_congr b h)

theorem CleanSeg_congr (c : List ABlock) {u v : List Nat} (h : SameSet u v) (hc : CleanSeg u c) : CleanSeg v c := by
  induction c generalizing u v with
  | nil => trivial
  | cons b c ih =>
    obtain ⟨⟨h1, h2, h3⟩, hr⟩ := hc
    refine ⟨⟨fun k hk => (h k).1 (h1 k hk), fun k hk hv => h2 k hk ((h k).2 hv), h3⟩, ih (windU_congr b h) hr⟩

/-- C03: unwinding a cleanly wound segment (newest first) undoes it — for segments of any length. -/
theorem unwindSeg_replayFrom (u : List Nat) (c : List ABlock) (h : CleanSeg u c) :
    SameSet (unwindSeg (replayFrom u c) c) u := by
  induction c generalizing u with
  | nil => exact SameSet.refl u
  | cons b c ih =>
    obtain ⟨hb, hr⟩ := h
    have := ih (windU b u) hr
    -- unwindSeg (replayFrom (windU b u) c) (b :: c) = unwindU b (unwindSeg (…) c)
    have e : unwindSeg (replayFrom u (b :: c)) (b :: c) = unwindU b (unwindSeg (replayFrom (windU b u) c) c) := by
      simp [unwindSeg, replayFrom, List.foldl_append]
    rw [e]
    exact (unwindU_congr b this).trans (unwind_wind b u hb)

/-- C03 (reorganisation): if the ledger equals the replay of `P ++ O` and `O` was wound cleanly on top of `P`,
    then unwinding `O` and winding `N` yields exactly the replay of `P ++ N`. -/
theorem reorg_replay (P O N : List ABlock) (u : List Nat)
    (hu : SameSet u (replay (P ++ O))) (hc : CleanSeg (replay P) O) :
    SameSet (replayFrom (unwindSeg u O) N) (replay (P ++ N)) := by
  have h1 : SameSet (unwindSeg u O) (replay P) := by
    have : replay (P ++ O) = replayFrom (replay P) O := by simp [replay, replayFrom, List.foldl_append]
    rw [this] at hu
    exact (unwindSeg_congr O hu).trans (unwindSeg_replayFrom (replay P) O hc)
  have h2 : replay (P ++ N) = replayFrom (replay P) N := by simp [replay, replayFrom, List.foldl_append]
  rw [h2]
  exact replayFrom_congr N h1

/-- C04 (utxo part): a candidate segment that was wound cleanly and is then unwound, followed by re-winding the
    old segment, restores the ledger exactly. -/
theorem failed_reorg_restores (P O N' : List ABlock) (u : List Nat)
    (hu : SameSet u (replay (P ++ O))) (hc : CleanSeg (replay P) O)
    (hn : CleanSeg (unwindSeg u O) N') :
    SameSet (replayFrom (unwindSeg (replayFrom (unwindSeg u O) N') N') O) u := by
  have h0 : replay (P ++ O) = replayFrom (replay P) O := by simp [replay, replayFrom, List.foldl_append]
  have h1 : SameSet (unwindSeg u O) (replay P) := by
    rw [h0] at hu
    exact (unwindSeg_congr O hu).trans (unwindSeg_replayFrom (replay P) O hc)
  have h2 := unwindSeg_replayFrom (unwindSeg u O) N' hn
  have h3 : SameSet (replayFrom (unwindSeg (replayFrom (unwindSeg u O) N') N') O) (replayFrom (replay P) O) :=
    replayFrom_congr O (h2.trans h1)
  rw [← h0] at h3
  exact h3.trans hu.symm

end Saito.Chain
