import Saito.Model.TxValidate
/-! Helper lemmas for C01: the duplicate-key machinery (`noDup`, `addKeys`) and the transaction sweep. -/
namespace Saito.TxV

theorem noDup_iff (l : List Nat) : noDup l = true ↔ l.Nodup := by
  induction l with
  | nil => simp [noDup]
  | cons k ks ih =>
    simp only [noDup, Bool.and_eq_true, Bool.not_eq_true', List.nodup_cons, ih]
    constructor
    · rintro ⟨h1, h2⟩
      refine ⟨?_, h2⟩
      intro hm
      have : ks.contains k = true := List.contains_iff_mem.2 hm
      rw [this] at h1; cases h1
    · rintro ⟨h1, h2⟩
      refine ⟨?_, h2⟩
      cases h : ks.contains k with
      | false => rfl
      | true => exact absurd (List.contains_iff_mem.1 h) h1

/-- `addKeys` succeeds exactly when the new keys are pairwise distinct and none is already in the map -/
theorem addKeys_some (ks : List Nat) : ∀ (seen seen' : List Nat), addKeys seen ks = some seen' →
    ks.Nodup ∧ (∀ k ∈ ks, k ∉ seen) ∧ (∀ x, x ∈ seen' ↔ x ∈ ks ∨ x ∈ seen) := by
  induction ks with
  | nil =>
    intro seen seen' h
    simp only [addKeys, Option.some.injEq] at h
    subst h
    simp
  | cons k ks ih =>
    intro seen seen' h
    simp only [addKeys] at h
    split at h
    · cases h
    · rename_i hk
      have hk' : k ∉ seen := fun hm => hk (List.contains_iff_mem.2 hm)
      obtain ⟨h1, h2, h3⟩ := ih (k :: seen) seen' h
      refine ⟨?_, ?_, ?_⟩
      · refine List.nodup_cons.2 ⟨?_, h1⟩
        intro hm
        exact h2 k hm (List.mem_cons_self)
      · intro x hx
        rcases List.mem_cons.1 hx with rfl | hx
        · exact hk'
        · intro hs
          exact h2 x hx (List.mem_cons_of_mem _ hs)
      · intro x
        rw [h3 x]
        simp only [List.mem_cons]
        constructor
        · rintro (h | h | h)
          · exact Or.inl (Or.inr h)
          · exact Or.inl (Or.inl h)
          · exact Or.inr h
        · rintro ((h | h) | h)
          · exact Or.inr (Or.inl h)
          · exact Or.inl h
          · exact Or.inr (Or.inr h)

theorem addKeys_none_of (ks : List Nat) : ∀ (seen : List Nat),
    (¬ ks.Nodup ∨ ∃ k ∈ ks, k ∈ seen) → addKeys seen ks = none := by
  induction ks with
  | nil => intro seen h; rcases h with h | ⟨k, hk, _⟩ <;> simp at *
  | cons k ks ih =>
    intro seen h
    simp only [addKeys]
    split
    · rfl
    · rename_i hk
      have hk' : k ∉ seen := fun hm => hk (List.contains_iff_mem.2 hm)
      apply ih
      rcases h with h | ⟨x, hx, hs⟩
      · rw [List.nodup_cons] at h
        by_cases hm : k ∈ ks
        · exact Or.inr ⟨k, hm, List.mem_cons_self⟩
        · left; intro hn; exact h ⟨hm, hn⟩
      · rcases List.mem_cons.1 hx with rfl | hx
        · exact absurd hs hk'
        · exact Or.inr ⟨x, hx, List.mem_cons_of_mem _ hs⟩

/-- the keys the sweep puts into its map: value inputs (not Bound) of every non-Fee transaction, in block order -/
def blockValueKeys (txs : List Tx) : List Nat := (txs.filter (·.typ != .fee)).flatMap sweepKeys

theorem blockValueKeys_cons (tx : Tx) (rest : List Tx) :
    blockValueKeys (tx :: rest) = (if tx.typ != .fee then sweepKeys tx else []) ++ blockValueKeys rest := by
  unfold blockValueKeys
  by_cases h : (tx.typ != .fee) = true
  · simp [h]
  · simp [h]

/-- With the verdict propagated, a passing sweep means: every transaction validates, and the value inputs of the
    non-Fee transactions are pairwise distinct (and new to the map). -/
theorem sweepGo_propagated (fl : Flags) (hf : fl.txVerdictPropagated = true) (cx : Ctx) (u : List Nat) :
    ∀ (txs : List Tx) (seen : List Nat), sweepGo fl cx u txs seen = true →
      (∀ tx ∈ txs, txValidate fl cx u tx = true) ∧ (blockValueKeys txs).Nodup ∧
      (∀ k ∈ blockValueKeys txs, k ∉ seen) := by
  intro txs
  induction txs with
  | nil => intro seen _; simp [blockValueKeys]
  | cons tx rest ih =>
    intro seen h
    simp only [sweepGo, hf, Bool.and_true] at h
    cases hv : txValidate fl cx u tx with
    | false => simp [hv] at h
    | true =>
      simp only [hv, Bool.not_true, Bool.false_eq_true, if_false, Bool.true_and] at h
      by_cases hfee : (tx.typ != .fee) = true
      · simp only [hfee, if_true] at h
        cases ha : addKeys seen (sweepKeys tx) with
        | none => simp [ha] at h
        | some seen' =>
          simp only [ha] at h
          obtain ⟨k1, k2, k3⟩ := addKeys_some _ _ _ ha
          obtain ⟨i1, i2, i3⟩ := ih seen' h
          refine ⟨?_, ?_, ?_⟩
          · intro t ht
            rcases List.mem_cons.1 ht with rfl | ht
            · exact hv
            · exact i1 t ht
          · rw [blockValueKeys_cons, if_pos hfee, List.nodup_append]
            refine ⟨k1, i2, ?_⟩
            intro a ha' b hb hab
            subst hab
            exact i3 a hb ((k3 a).2 (Or.inl ha'))
          · rw [blockValueKeys_cons, if_pos hfee]
            intro k hk
            rcases List.mem_append.1 hk with hk | hk
            · exact k2 k hk
            · intro hs
              exact i3 k hk ((k3 k).2 (Or.inr hs))
      · simp only [hfee] at h
        obtain ⟨i1, i2, i3⟩ := ih seen h
        refine ⟨?_, ?_, ?_⟩
        · intro t ht
          rcases List.mem_cons.1 ht with rfl | ht
          · exact hv
          · exact i1 t ht
        · rw [blockValueKeys_cons, if_neg hfee]; simpa using i2
        · rw [blockValueKeys_cons, if_neg hfee]; simpa using i3

/-- a transaction whose verdict is false fails the (repaired) sweep wherever it stands in the block -/
theorem sweepGo_false_of_invalid (fl : Flags) (hf : fl.txVerdictPropagated = true) (cx : Ctx) (u : List Nat)
    (txs : List Tx) (seen : List Nat) (tx : Tx) (hm : tx ∈ txs) (hv : txValidate fl cx u tx = false) :
    sweepGo fl cx u txs seen = false := by
  cases h : sweepGo fl cx u txs seen with
  | false => rfl
  | true =>
    have := (sweepGo_propagated fl hf cx u txs seen h).1 tx hm
    rw [hv] at this; cases this

/-- a key named by two value inputs of non-Fee transactions fails the (repaired) sweep -/
theorem sweepGo_false_of_dup (fl : Flags) (hf : fl.txVerdictPropagated = true) (cx : Ctx) (u : List Nat)
    (txs : List Tx) (seen : List Nat) (hd : ¬ (blockValueKeys txs).Nodup) :
    sweepGo fl cx u txs seen = false := by
  cases h : sweepGo fl cx u txs seen with
  | false => rfl
  | true => exact absurd (sweepGo_propagated fl hf cx u txs seen h).2.1 hd

/-! ## the flag vectors the C01 / C06 theorems quantify over -/

/-- the flag vector measured on the repaired tree: eight defects repaired, three still open -/
def Flags.measured : Flags :=
  { Flags.fixed with inputLocationSigned := false, windowChecked := false, verifyDropsPrivilegedTypes := false }

/-- the eight repairs the `*_repaired` theorems need; `inputLocationSigned`, `windowChecked` and
    `verifyDropsPrivilegedTypes` (and `fullBlockNoSpv`) are left arbitrary -/
structure Repaired8 (fl : Flags) : Prop where
  txVerdictPropagated : fl.txVerdictPropagated = true
  dupInputsDetected : fl.dupInputsDetected = true
  allInputsOwnedBySigner : fl.allInputsOwnedBySigner = true
  stakeTypeSigned : fl.stakeTypeSigned = true
  spvTypeCannotCreateOutputs : fl.spvTypeCannotCreateOutputs = true
  singleFeeTx : fl.singleFeeTx = true
  poolRejectsPrivilegedTypes : fl.poolRejectsPrivilegedTypes = true
  merkleAlwaysCompared : fl.merkleAlwaysCompared = true

theorem Repaired8.fixed : Repaired8 Flags.fixed := ⟨rfl, rfl, rfl, rfl, rfl, rfl, rfl, rfl⟩
theorem Repaired8.measured : Repaired8 Flags.measured := ⟨rfl, rfl, rfl, rfl, rfl, rfl, rfl, rfl⟩

example : Repaired8 Flags.fixed := Repaired8.fixed
example : Repaired8 { Flags.fixed with inputLocationSigned := false, windowChecked := false,
                                       verifyDropsPrivilegedTypes := false } := Repaired8.measured

/-- `Repaired8` holds of exactly the sixteen vectors that differ from `Flags.fixed` in the four free flags only -/
theorem repaired8_iff (fl : Flags) : Repaired8 fl ↔
    ∃ a b c d, fl = { Flags.fixed with inputLocationSigned := a, windowChecked := b, verifyDropsPrivilegedTypes := c,
                                       fullBlockNoSpv := d } := by
  constructor
  · intro h
    obtain ⟨h1, h2, h3, h4, h5, h6, h7, h8⟩ := h
    cases fl
    simp only at h1 h2 h3 h4 h5 h6 h7 h8
    subst h1 h2 h3 h4 h5 h6 h7 h8
    exact ⟨_, _, _, _, rfl⟩
  · rintro ⟨a, b, c, d, rfl⟩
    exact ⟨rfl, rfl, rfl, rfl, rfl, rfl, rfl, rfl⟩


end Saito.TxV
