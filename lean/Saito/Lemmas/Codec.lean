import Saito.Model.Codec
import Saito.Lemmas.Bytes
namespace Saito

theorem takeN_append {α} (a r : Bytes) (n : Nat) (h : a.length = n) (e : Res α) (k : Bytes → Bytes → Res α) :
    takeN n (a ++ r) e k = k a r := by
  subst h
  simp [takeN]

theorem takeN_short {α} (bs : Bytes) (n : Nat) (h : bs.length < n) (e : Res α) (k : Bytes → Bytes → Res α) :
    takeN n bs e k = e := by
  simp [takeN]; omega

@[simp] theorem u64_toBE (x : UInt64) : u64 (toBE 8 x.toNat) = x := by
  simp only [u64, fromBE_toBE]
  have : x.toNat % 256 ^ 8 = x.toNat := Nat.mod_eq_of_lt (by have := x.toNat_lt; omega)
  rw [this]; simp

@[simp] theorem u32_toBE (x : UInt32) : u32 (toBE 4 x.toNat) = x := by
  simp only [u32, fromBE_toBE]
  have : x.toNat % 256 ^ 4 = x.toNat := Nat.mod_eq_of_lt (by have := x.toNat_lt; omega)
  rw [this]; simp

@[simp] theorem Slip.encode_length (s : Slip) (h : s.wf) : s.encode.length = 59 := by
  simp [Slip.encode, h.1]

theorem Slip.decode_encode (s : Slip) (h : s.wf) : Slip.decode s.encode = .ok s := by
  have hl := Slip.encode_length s h
  unfold Slip.decode
  simp only [hl, ne_eq, not_true_eq_false, ↓reduceIte]
  unfold Slip.encode
  rw [takeN_append _ _ _ h.1, takeN_append _ _ _ (toBE_length _ _),
    takeN_append _ _ _ (toBE_length _ _), takeN_append _ _ _ (toBE_length _ _)]
  simp [h.2]

@[simp] theorem Hop.encode_length (x : Hop) (h : x.wf) : x.encode.length = 130 := by
  simp [Hop.encode, h.1, h.2.1, h.2.2]

theorem Hop.decode_encode (x : Hop) (h : x.wf) : Hop.decode x.encode = .ok x := by
  have hl := Hop.encode_length x h
  unfold Hop.decode
  simp only [hl, ne_eq, not_true_eq_false, ↓reduceIte]
  unfold Hop.encode
  rw [takeN_append _ _ _ h.1, takeN_append _ _ _ h.2.1]

theorem encSlips_length (l : List Slip) (h : ∀ s ∈ l, s.wf) : (encSlips l).length = 59 * l.length := by
  induction l with
  | nil => simp [encSlips]
  | cons s l ih =>
    have := ih (fun x hx => h x (List.mem_cons_of_mem _ hx))
    simp only [encSlips, List.map_cons, List.flatten_cons, List.length_append, List.length_cons] at *
    rw [Slip.encode_length s (h s (List.mem_cons_self ..)), this]; omega

theorem encHops_length (l : List Hop) (h : ∀ s ∈ l, s.wf) : (encHops l).length = 130 * l.length := by
  induction l with
  | nil => simp [encHops]
  | cons s l ih =>
    have := ih (fun x hx => h x (List.mem_cons_of_mem _ hx))
    simp only [encHops, List.map_cons, List.flatten_cons, List.length_append, List.length_cons] at *
    rw [Hop.encode_length s (h s (List.mem_cons_self ..)), this]; omega

theorem decSlips_enc (l : List Slip) (h : ∀ s ∈ l, s.wf) (r : Bytes) :
    decSlips l.length (encSlips l ++ r) = .ok (l, r) := by
  induction l with
  | nil => simp [decSlips, encSlips]
  | cons s l ih =>
    have hs := h s (List.mem_cons_self ..)
    have := ih (fun x hx => h x (List.mem_cons_of_mem _ hx))
    simp only [encSlips, List.map_cons, List.flatten_cons, List.length_cons, decSlips, List.append_assoc] at *
    rw [takeN_append _ _ _ (Slip.encode_length s hs), Slip.decode_encode s hs]
    simp [Res.bind, this]

theorem decHops_enc (l : List Hop) (h : ∀ s ∈ l, s.wf) (r : Bytes) :
    decHops l.length (encHops l ++ r) = .ok l := by
  induction l with
  | nil => simp [decHops]
  | cons s l ih =>
    have hs := h s (List.mem_cons_self ..)
    have := ih (fun x hx => h x (List.mem_cons_of_mem _ hx))
    simp only [encHops, List.map_cons, List.flatten_cons, List.length_cons, decHops, List.append_assoc] at *
    rw [takeN_append _ _ _ (Hop.encode_length s hs), Hop.decode_encode s hs]
    simp [Res.bind, this]

theorem fromBE_toBE4 (n : Nat) (h : n < 2 ^ 32) : fromBE (toBE 4 n) = n :=
  fromBE_toBE_of_lt 4 n (by omega)

theorem Tx.encode_length (t : Tx) (h : t.wf) : t.encode.length = t.size := by
  obtain ⟨h1, h2, h3, h4, h5, h6, h7, h8, h9⟩ := h
  unfold Tx.encode Tx.size
  rw [if_neg (by omega), if_neg (by omega)]
  simp only [List.length_append, toBE_length, encSlips_length _ h7, encSlips_length _ h8,
    encHops_length _ h9, h1, List.length_singleton, TX_SIZE, SLIP_SIZE, HOP_SIZE]
  omega

theorem Tx.decode_encode (fl : CodecFlags) (t : Tx) (h : t.wf) : Tx.decode fl t.encode = .ok t := by
  have hlen := Tx.encode_length t h
  obtain ⟨h1, h2, h3, h4, h5, h6, h7, h8, h9⟩ := h
  unfold Tx.decode
  rw [if_neg (by rw [hlen]; unfold Tx.size TX_SIZE; omega)]
  have hext : ¬ (fl.txBounds && decide (t.encode.length <
      txExtent t.from_.length t.to.length t.data.length t.path.length)) = true := by
    rw [hlen]; unfold Tx.size txExtent TX_SIZE SLIP_SIZE HOP_SIZE
    simp only [Bool.and_eq_true, decide_eq_true_eq, not_and, Nat.not_lt]
    intro _; omega
  revert hext
  unfold Tx.encode
  rw [if_neg (by omega), if_neg (by omega)]
  intro hext
  rw [takeN_append _ _ _ (toBE_length _ _), fromBE_toBE4 _ (by omega), if_neg (by omega),
    takeN_append _ _ _ (toBE_length _ _), fromBE_toBE4 _ (by omega), if_neg (by omega),
    takeN_append _ _ _ (toBE_length _ _), takeN_append _ _ _ (toBE_length _ _),
    takeN_append _ _ _ h1, takeN_append _ _ _ (toBE_length _ _), takeN_append _ _ _ (toBE_length _ _),
    takeN_append _ _ _ (by simp)]
  have hty : fromBE [t.typ] = t.typ.toNat := by simp [fromBE]
  rw [hty, if_neg (by omega), fromBE_toBE4 _ h5, fromBE_toBE4 _ h6, if_neg hext,
    decSlips_enc _ h7]
  simp only [Res.bind]
  rw [decSlips_enc _ h8]
  simp only
  rw [takeN_append _ _ _ rfl]
  have := decHops_enc t.path h9 []
  rw [List.append_nil] at this
  rw [this]
  simp

end Saito
