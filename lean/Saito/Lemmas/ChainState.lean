import Saito.Lemmas.Utxo
/-! State-level lemmas: wind/unwind of a block touch the spendable set only through `windU`/`unwindU`;
    the repaired reorganisation in terms of `replayFrom` / `unwindSeg`. -/
namespace Saito.Chain

@[simp] theorem ringReorg_utxo (st : State) (id h : Nat) (lc : Bool) : (ringReorg st id h lc).utxo = st.utxo := by
  unfold ringReorg
  dsimp only
  split
  · rfl
  · split
    · split <;> rfl
    · rfl

@[simp] theorem setLC_utxo (st : State) (h : Nat) (v : Bool) : (setLC st h v).utxo = st.utxo := rfl

@[simp] theorem windBlock_utxo (st : State) (b : ABlock) : (windBlock st b).utxo = windU b st.utxo := by
  simp [windBlock]

@[simp] theorem unwindBlock_utxo (st : State) (b : ABlock) : (unwindBlock st b).utxo = unwindU b st.utxo := by
  simp [unwindBlock]

theorem foldl_unwindBlock_utxo (bs : List ABlock) (st : State) :
    (bs.foldl unwindBlock st).utxo = bs.foldl (fun u b => unwindU b u) st.utxo := by
  induction bs generalizing st with
  | nil => rfl
  | cons b bs ih => simp [List.foldl_cons, ih]

theorem foldl_windBlock_utxo (bs : List ABlock) (st : State) :
    (bs.foldl windBlock st).utxo = replayFrom st.utxo bs := by
  induction bs generalizing st with
  | nil => rfl
  | cons b bs ih => simp [List.foldl_cons, ih, replayFrom]

/-- outputs of each block of the segment are fresh at its turn and not among its own inputs -/
def FreshSeg : List Nat → List ABlock → Prop
  | _, [] => True
  | u, b :: rest => ((∀ k ∈ b.outs, k ∉ u) ∧ (∀ k ∈ b.outs, k ∉ b.ins)) ∧ FreshSeg (windU b u) rest

theorem validB_ins (fl : Flags) (st : State) (b : ABlock) (hf : fl.txVerdict = true)
    (h : validBS fl st b = true) : ∀ k ∈ b.ins, k ∈ st.utxo := by
  simp [validBS, hf] at h
  exact h.2

/-- what `windAll` returns: the blocks it wound are a prefix `pre` of the input, newest first on `done` -/
theorem windAll_spec (fl : Flags) (bs : List ABlock) (st : State) (done : List ABlock)
    (st2 : State) (ok : Bool) (done2 : List ABlock)
    (h : windAll fl bs st done = (st2, ok, done2)) :
    ∃ pre, done2 = pre.reverse ++ done ∧ st2.utxo = replayFrom st.utxo pre ∧ (ok = true → pre = bs) ∧
      (fl.txVerdict = true → FreshSeg st.utxo bs → CleanSeg st.utxo pre) := by
  induction bs generalizing st done with
  | nil =>
    simp [windAll] at h
    obtain ⟨rfl, rfl, rfl⟩ := h
    exact ⟨[], by simp, rfl, fun _ => rfl, fun _ _ => trivial⟩
  | cons b bs ih =>
    unfold windAll at h
    split at h
    · rename_i hv
      obtain ⟨pre, e1, e2, e3, e4⟩ := ih (windBlock st b) (b :: done) h
      refine ⟨b :: pre, by simp [e1], by simp [e2, replayFrom], fun hok => by rw [e3 hok], ?_⟩
      intro hf hfr
      obtain ⟨⟨f1, f2⟩, frest⟩ := hfr
      refine ⟨⟨validB_ins fl st b hf hv, f1, f2⟩, ?_⟩
      have := e4 hf (by simpa using frest)
      simpa using this
    · simp at h
      obtain ⟨rfl, rfl, rfl⟩ := h
      exact ⟨[], by simp, rfl, fun h => absurd h (by simp), fun _ _ => trivial⟩

/-- the repaired reorganisation, success case: the ledger is "unwind old, wind new" -/
theorem reorgFixed_success_utxo (fl : Flags) (newC oldC : List Nat) (st st' : State)
    (h : reorgFixed fl newC oldC st = (st', true)) :
    st'.utxo = replayFrom (unwindSeg st.utxo (blocksOf st oldC).reverse) (blocksOf st newC).reverse := by
  unfold reorgFixed at h
  dsimp only at h
  generalize hw : windAll fl (blocksOf st newC).reverse (List.foldl unwindBlock st (blocksOf st oldC)) [] = w at h
  obtain ⟨st2, ok, done⟩ := w
  obtain ⟨pre, _, e2, e3, _⟩ := windAll_spec _ _ _ _ _ _ _ hw
  cases ok with
  | true =>
    simp at h
    subst h
    rw [e2, e3 rfl, foldl_unwindBlock_utxo]
    simp [unwindSeg]
  | false => simp at h

/-- the repaired reorganisation, failure case: "unwind old, wind a clean prefix of new, unwind it, re-wind old" -/
theorem reorgFixed_failure_utxo (fl : Flags) (newC oldC : List Nat) (st st' : State)
    (hf : fl.txVerdict = true)
    (h : reorgFixed fl newC oldC st = (st', false))
    (hfresh : FreshSeg (unwindSeg st.utxo (blocksOf st oldC).reverse) (blocksOf st newC).reverse) :
    ∃ pre, CleanSeg (unwindSeg st.utxo (blocksOf st oldC).reverse) pre ∧
      st'.utxo = replayFrom (unwindSeg (replayFrom (unwindSeg st.utxo (blocksOf st oldC).reverse) pre) pre)
        (blocksOf st oldC).reverse := by
  unfold reorgFixed at h
  dsimp only at h
  generalize hw : windAll fl (blocksOf st newC).reverse (List.foldl unwindBlock st (blocksOf st oldC)) [] = w at h
  obtain ⟨st2, ok, done⟩ := w
  obtain ⟨pre, e1, e2, _, e4⟩ := windAll_spec _ _ _ _ _ _ _ hw
  have hu : (List.foldl unwindBlock st (blocksOf st oldC)).utxo = unwindSeg st.utxo (blocksOf st oldC).reverse := by
    rw [foldl_unwindBlock_utxo]; simp [unwindSeg]
  cases ok with
  | true => simp at h
  | false =>
    simp only [Bool.false_eq_true, ↓reduceIte] at h
    have h' := (Prod.mk.inj h).1
    subst h'
    refine ⟨pre, ?_, ?_⟩
    · have := e4 hf (by rw [hu]; exact hfresh)
      rwa [hu] at this
    · rw [foldl_windBlock_utxo, foldl_unwindBlock_utxo, e2, hu, e1]
      simp [unwindSeg]

end Saito.Chain
