import Saito.Lemmas.LoopFixed
/-!
  Refinement: the repaired Wind/Unwind loop (`stepWRF` / `runWRF`, what `validate` runs when
  `windFailureRestores = true`) computes exactly the functional specification `reorgSpec`.

  `reorgSpec v newBs oldBs st` (`oldBs` tip first, `newBs` oldest first, `v` the validity predicate, evaluated
  in the THEN-CURRENT state):
    1. unwind `oldBs`, tip first;
    2. wind `newBs` while `v st b` holds; all wound → `(st, true)`;
    3. on the first invalid block: unwind what was wound (newest first), then wind the old chain back, oldest
       first, each block only if `v` holds in the then-current state; the first old block that does not
       validate stops the restoration there.  The verdict is `false` either way.
-/
namespace Saito.Chain

/-- wind blocks (oldest first) while they validate; `done` accumulates the wound blocks newest first -/
def windAllV (v : State → ABlock → Bool) : List ABlock → State → List ABlock → State × Bool × List ABlock
  | [], st, done => (st, true, done)
  | b :: rest, st, done =>
    if v st b then windAllV v rest (windBlock st b) (b :: done) else (st, false, done)

/-- phase 1+2 of the specification: unwind the old chain, wind the candidate while valid.
    Result: (state, all wound?, wound blocks newest first) -/
def specWound (v : State → ABlock → Bool) (newBs oldBs : List ABlock) (st : State) : State × Bool × List ABlock :=
  windAllV v newBs (oldBs.foldl unwindBlock st) []

/-- phase 3 (restoration) from the result of phase 2: unwind what was wound, wind the old chain back while it
    validates.  Result: (state, old chain fully restored?, restored blocks newest first) -/
def restoreFrom (v : State → ABlock → Bool) (oldBs : List ABlock) (w : State × Bool × List ABlock) :
    State × Bool × List ABlock :=
  windAllV v oldBs.reverse (w.2.2.foldl unwindBlock w.1) []

/-- the restoration phase of the specification as a function of the inputs -/
def specRestore (v : State → ABlock → Bool) (newBs oldBs : List ABlock) (st : State) : State × Bool × List ABlock :=
  restoreFrom v oldBs (specWound v newBs oldBs st)

/-- verdict of the specification from the result of phase 2 -/
def finishV (v : State → ABlock → Bool) (oldBs : List ABlock) (w : State × Bool × List ABlock) : State × Bool :=
  if w.2.1 then (w.1, true) else ((restoreFrom v oldBs w).1, false)

/-- the functional specification of the repaired reorganisation -/
def reorgSpec (v : State → ABlock → Bool) (newBs oldBs : List ABlock) (st : State) : State × Bool :=
  finishV v oldBs (specWound v newBs oldBs st)

/-! ### small facts -/

theorem runWRF_success (fl : Flags) (newC oldC : List Nat) (n : Nat) (st : State) :
    runWRF fl newC oldC n st .success = some (st, true) := by cases n <;> rfl

theorem runWRF_failure (fl : Flags) (newC oldC : List Nat) (n : Nat) (st : State) :
    runWRF fl newC oldC n st .failure = some (st, false) := by cases n <;> rfl

/-- the final state of `windAllV` does not depend on the accumulator -/
theorem windAllV_fst (v : State → ABlock → Bool) (bs : List ABlock) :
    ∀ (st : State) (done done' : List ABlock),
      (windAllV v bs st done).1 = (windAllV v bs st done').1 ∧
      (windAllV v bs st done).2.1 = (windAllV v bs st done').2.1 := by
  induction bs with
  | nil => intro st done done'; exact ⟨rfl, rfl⟩
  | cons b bs ih =>
    intro st done done'
    simp only [windAllV]
    split
    · exact ih _ _ _
    · exact ⟨rfl, rfl⟩

/-- `g` resolves hashes exactly as the store of `st` does (ignoring the on-chain flag) -/
def Res (g : Nat → Option ABlock) (st : State) : Prop := ∀ x, blkOf st x = g x

theorem Res.wind {g : Nat → Option ABlock} {st : State} (h : Res g st) (b : ABlock) : Res g (windBlock st b) :=
  fun x => by rw [blkOf_windBlock]; exact h x

theorem Res.unwind {g : Nat → Option ABlock} {st : State} (h : Res g st) (b : ABlock) : Res g (unwindBlock st b) :=
  fun x => by rw [blkOf_unwindBlock]; exact h x

theorem Res.getB {g : Nat → Option ABlock} {st : State} (h : Res g st) {x : Nat} {b : ABlock} (hb : g x = some b) :
    ∃ e, getB st x = some e ∧ e.b = b :=
  getB_of_blkOf st x b (by rw [h x]; exact hb)

theorem blocksOf_eq (st : State) (l : List Nat) : blocksOf st l = l.filterMap (blkOf st) := rfl

theorem filterMap_take_succ (g : Nat → Option ABlock) (l : List Nat) (i : Nat) (hi : i < l.length) (b : ABlock)
    (hb : g l[i] = some b) :
    ((l.take (i + 1)).filterMap g).reverse = b :: ((l.take i).filterMap g).reverse := by
  rw [List.take_succ_eq_append_getElem hi, List.filterMap_append]
  simp [hb]

theorem filterMap_drop (g : Nat → Option ABlock) (l : List Nat) (i : Nat) (hi : i < l.length) (b : ABlock)
    (hb : g l[i] = some b) :
    (l.drop i).filterMap g = b :: (l.drop (i + 1)).filterMap g := by
  rw [List.drop_eq_getElem_cons hi, List.filterMap_cons, hb]

/-! ### the phases of the repaired loop -/

/-- the loop state that follows an unwinding phase with flag `f` -/
def afterUnwind (newC oldC : List Nat) (f : Bool) : WR :=
  if (if f then oldC else newC).isEmpty then .failure else .wind ((if f then oldC else newC).length - 1) f

/-- unwind phase: from `Unwind(i, f, chain)` the loop unwinds `chain[i..]` in `|chain| − i` iterations -/
theorem unwind_phaseF (fl : Flags) (newC oldC chain : List Nat) (f : Bool) (g : Nat → Option ABlock)
    (hg : ∀ h ∈ chain, (g h).isSome) :
    ∀ k i st fuel, i + k = chain.length → 0 < k → Res g st → k ≤ fuel →
      runWRF fl newC oldC fuel st (.unwind i f chain) =
        runWRF fl newC oldC (fuel - k) (((chain.drop i).filterMap g).foldl unwindBlock st)
          (afterUnwind newC oldC f) := by
  intro k
  induction k with
  | zero => intro i st fuel _ hk; omega
  | succ k ih =>
    intro i st fuel hik _ hres hfuel
    have hi : i < chain.length := by omega
    obtain ⟨b, hb⟩ := Option.isSome_iff_exists.1 (hg _ (List.getElem_mem hi))
    obtain ⟨e, he, heb⟩ := hres.getB hb
    have hstep : stepWRF fl newC oldC st (.unwind i f chain) =
        (unwindBlock st b, if i + 1 == chain.length then afterUnwind newC oldC f else .unwind (i + 1) f chain) := by
      simp only [stepWRF, List.getElem?_eq_getElem hi, he, heb, afterUnwind]
      repeat' split
      all_goals rfl
    obtain ⟨fuel', rfl⟩ : ∃ fuel', fuel = fuel' + 1 := ⟨fuel - 1, by omega⟩
    rw [runWRF_step _ _ _ _ _ _ (by rfl), hstep, filterMap_drop g chain i hi b hb, List.foldl_cons]
    by_cases hlast : k = 0
    · subst hlast
      have h1 : (i + 1 == chain.length) = true := by simp; omega
      have h2 : chain.drop (i + 1) = [] := List.drop_eq_nil_of_le (by omega)
      simp [h1, h2]
    · have hnl : (i + 1 == chain.length) = false := by simp; omega
      simp only [hnl, Bool.false_eq_true, if_false]
      rw [ih (i + 1) (unwindBlock st b) fuel' (by omega) (by omega) (hres.unwind b) (by omega)]
      simp

/-- restoration wind phase (`f = true`): from `Wind(i, true)` the loop winds `old[i], …, old[0]` while they
    validate and ends with failure -/
theorem wind_phaseT (fl : Flags) (newC oldC : List Nat) (g : Nat → Option ABlock)
    (hg : ∀ h ∈ oldC, (g h).isSome) :
    ∀ i st fuel done, i < oldC.length → Res g st → i + 1 ≤ fuel →
      runWRF fl newC oldC fuel st (.wind i true) =
        some ((windAllV (validB fl) ((oldC.take (i + 1)).filterMap g).reverse st done).1, false) := by
  intro i
  induction i with
  | zero =>
    intro st fuel done hi hres hfuel
    obtain ⟨b, hb⟩ := Option.isSome_iff_exists.1 (hg _ (List.getElem_mem hi))
    obtain ⟨e, he, heb⟩ := hres.getB hb
    have hne : oldC.isEmpty = false := by
      cases oldC with
      | nil => simp at hi
      | cons _ _ => rfl
    obtain ⟨fuel', rfl⟩ : ∃ fuel', fuel = fuel' + 1 := ⟨fuel - 1, by omega⟩
    rw [runWRF_step _ _ _ _ _ _ (by rfl), filterMap_take_succ g oldC 0 hi b hb]
    cases hv : validB fl st b
    · simp [stepWRF, List.getElem?_eq_getElem hi, he, heb, hv, hne, windAllV, runWRF_failure]
    · simp [stepWRF, List.getElem?_eq_getElem hi, he, heb, hv, hne, windAllV, runWRF_failure]
  | succ i ih =>
    intro st fuel done hi hres hfuel
    obtain ⟨b, hb⟩ := Option.isSome_iff_exists.1 (hg _ (List.getElem_mem hi))
    obtain ⟨e, he, heb⟩ := hres.getB hb
    have hne : oldC.isEmpty = false := by
      cases oldC with
      | nil => simp at hi
      | cons _ _ => rfl
    obtain ⟨fuel', rfl⟩ : ∃ fuel', fuel = fuel' + 1 := ⟨fuel - 1, by omega⟩
    rw [runWRF_step _ _ _ _ _ _ (by rfl), filterMap_take_succ g oldC (i + 1) hi b hb]
    cases hv : validB fl st b
    · simp [stepWRF, List.getElem?_eq_getElem hi, he, heb, hv, hne, windAllV, runWRF_failure]
    · have := ih (windBlock st b) fuel' (b :: done) (by omega) (hres.wind b) (by omega)
      simp [stepWRF, List.getElem?_eq_getElem hi, he, heb, hv, hne, windAllV, this]

/-- what the loop does once a candidate block has failed to validate at index `i` (state `st`, nothing
    changed by that iteration): it equals the restoration phase of the specification -/
theorem fail_phaseF (fl : Flags) (newC oldC : List Nat) (g : Nat → Option ABlock)
    (hgn : ∀ h ∈ newC, (g h).isSome) (hgo : ∀ h ∈ oldC, (g h).isSome)
    (i : Nat) (st : State) (fuel : Nat) (hi : i < newC.length) (hres : Res g st)
    (hfuel : newC.length + oldC.length ≤ fuel) :
    runWRF fl newC oldC fuel st
        (if i + 1 == newC.length then (if !oldC.isEmpty then .wind (oldC.length - 1) true else .failure)
         else .unwind 0 true (newC.drop (i + 1))) =
      some ((restoreFrom (validB fl) (oldC.filterMap g) (st, false, (newC.drop (i + 1)).filterMap g)).1, false) := by
  -- the restoration wind, from any state
  have hrest : ∀ (s : State) (fu : Nat), Res g s → oldC.length ≤ fu →
      runWRF fl newC oldC fu s (if !oldC.isEmpty then .wind (oldC.length - 1) true else .failure) =
        some ((windAllV (validB fl) (oldC.filterMap g).reverse s []).1, false) := by
    intro s fu hs hfu
    cases ho : oldC with
    | nil => simp [runWRF_failure, windAllV]
    | cons x xs =>
      have hpos : 0 < oldC.length := by rw [ho]; simp
      have := wind_phaseT fl newC oldC g hgo (oldC.length - 1) s fu [] (by omega) hs (by omega)
      rw [show oldC.length - 1 + 1 = oldC.length by omega, List.take_length] at this
      rw [← ho]
      have hne : oldC.isEmpty = false := by rw [ho]; rfl
      simp only [hne, Bool.not_false, if_true]
      exact this
  by_cases hlast : i + 1 = newC.length
  · have h1 : (i + 1 == newC.length) = true := by simp [hlast]
    have h2 : newC.drop (i + 1) = [] := List.drop_eq_nil_of_le (by omega)
    simp only [h1, if_true, h2, List.filterMap_nil, restoreFrom, List.foldl_nil]
    exact hrest st fuel hres (by omega)
  · have h1 : (i + 1 == newC.length) = false := by simp [hlast]
    simp only [h1, Bool.false_eq_true, if_false, restoreFrom]
    have hlen : (newC.drop (i + 1)).length = newC.length - (i + 1) := List.length_drop
    rw [unwind_phaseF fl newC oldC (newC.drop (i + 1)) true g
      (fun h hh => hgn h (List.mem_of_mem_drop hh)) (newC.length - (i + 1)) 0 st fuel (by omega) (by omega) hres (by omega)]
    simp only [List.drop_zero]
    have hres' : Res g (((newC.drop (i + 1)).filterMap g).foldl unwindBlock st) := by
      generalize (newC.drop (i + 1)).filterMap g = bs
      induction bs generalizing st with
      | nil => exact hres
      | cons b bs ih => exact ih _ (hres.unwind b)
    have := hrest _ (fuel - (newC.length - (i + 1))) hres' (by omega)
    simp only [afterUnwind, if_true]
    cases ho : oldC.isEmpty
    · simpa [ho] using this
    · simpa [ho] using this

/-- candidate wind phase (`f = false`): from `Wind(i, false)` with `new[i+1..]` already wound, the loop computes
    the rest of the specification -/
theorem wind_phaseF (fl : Flags) (newC oldC : List Nat) (g : Nat → Option ABlock)
    (hgn : ∀ h ∈ newC, (g h).isSome) (hgo : ∀ h ∈ oldC, (g h).isSome) :
    ∀ i st fuel, i < newC.length → Res g st → (i + 1) + (newC.length + oldC.length) ≤ fuel →
      runWRF fl newC oldC fuel st (.wind i false) =
        some (finishV (validB fl) (oldC.filterMap g)
          (windAllV (validB fl) ((newC.take (i + 1)).filterMap g).reverse st ((newC.drop (i + 1)).filterMap g))) := by
  intro i
  induction i with
  | zero =>
    intro st fuel hi hres hfuel
    obtain ⟨b, hb⟩ := Option.isSome_iff_exists.1 (hgn _ (List.getElem_mem hi))
    obtain ⟨e, he, heb⟩ := hres.getB hb
    obtain ⟨fuel', rfl⟩ : ∃ fuel', fuel = fuel' + 1 := ⟨fuel - 1, by omega⟩
    rw [runWRF_step _ _ _ _ _ _ (by rfl), filterMap_take_succ g newC 0 hi b hb]
    cases hv : validB fl st b
    · have hf := fail_phaseF fl newC oldC g hgn hgo 0 st fuel' hi hres (by omega)
      have hstep : stepWRF fl newC oldC st (.wind 0 false) = (st,
          if 0 + 1 == newC.length then (if !oldC.isEmpty then .wind (oldC.length - 1) true else .failure)
          else .unwind 0 true (newC.drop (0 + 1))) := by
        simp only [stepWRF, Bool.false_eq_true, if_false, Bool.false_and, List.getElem?_eq_getElem hi, he, heb, hv]
        split <;> (try split) <;> rfl
      rw [hstep, hf]
      simp [windAllV, hv, finishV]
    · simp [stepWRF, List.getElem?_eq_getElem hi, he, heb, hv, windAllV, runWRF_success, finishV]
  | succ i ih =>
    intro st fuel hi hres hfuel
    obtain ⟨b, hb⟩ := Option.isSome_iff_exists.1 (hgn _ (List.getElem_mem hi))
    obtain ⟨e, he, heb⟩ := hres.getB hb
    obtain ⟨fuel', rfl⟩ : ∃ fuel', fuel = fuel' + 1 := ⟨fuel - 1, by omega⟩
    rw [runWRF_step _ _ _ _ _ _ (by rfl), filterMap_take_succ g newC (i + 1) hi b hb]
    cases hv : validB fl st b
    · have hf := fail_phaseF fl newC oldC g hgn hgo (i + 1) st fuel' hi hres (by omega)
      have hstep : stepWRF fl newC oldC st (.wind (i + 1) false) = (st,
          if i + 1 + 1 == newC.length then (if !oldC.isEmpty then .wind (oldC.length - 1) true else .failure)
          else .unwind 0 true (newC.drop (i + 1 + 1))) := by
        simp only [stepWRF, Bool.false_eq_true, if_false, Bool.false_and, List.getElem?_eq_getElem hi, he, heb, hv]
        split <;> (try split) <;> rfl
      rw [hstep, hf]
      simp [windAllV, hv, finishV]
    · have := ih (windBlock st b) fuel' (by omega) (hres.wind b) (by omega)
      rw [filterMap_drop g newC (i + 1) hi b hb] at this
      simp [stepWRF, List.getElem?_eq_getElem hi, he, heb, hv, windAllV, this]

/-- the start state of the loop in `Blockchain::validate` -/
def startWRF (newC oldC : List Nat) : WR :=
  if oldC.isEmpty then .wind (newC.length - 1) false else .unwind 0 false oldC

/-- **Refinement.**  The repaired loop, started as `validate` starts it, with every hash of both chains in
    the store and the fuel `validate` gives it (or more), returns exactly what the functional specification
    computes — for every flag setting, every fork shape and every validity pattern. -/
theorem runWRF_refines (fl : Flags) (st : State) (newC oldC : List Nat) (hne : newC ≠ [])
    (hres : ∀ h ∈ newC ++ oldC, (blkOf st h).isSome)
    (fuel : Nat) (hfuel : 2 * (newC.length + oldC.length) + 4 ≤ fuel) :
    runWRF fl newC oldC fuel st (startWRF newC oldC) =
      some (reorgSpec (validB fl) (blocksOf st newC).reverse (blocksOf st oldC) st) := by
  have hgn : ∀ h ∈ newC, (blkOf st h).isSome := fun h hh => hres h (List.mem_append_left _ hh)
  have hgo : ∀ h ∈ oldC, (blkOf st h).isSome := fun h hh => hres h (List.mem_append_right _ hh)
  have hr0 : Res (blkOf st) st := fun _ => rfl
  have hpos : 0 < newC.length := List.length_pos_iff.2 hne
  have hnE : newC.isEmpty = false := by
    cases newC with
    | nil => exact absurd rfl hne
    | cons _ _ => rfl
  simp only [reorgSpec, specWound, blocksOf_eq]
  cases ho : oldC with
  | nil =>
    have := wind_phaseF fl newC [] (blkOf st) hgn (by simp) (newC.length - 1) st fuel (by omega) hr0
      (by simp; omega)
    rw [show newC.length - 1 + 1 = newC.length by omega, List.take_length, List.drop_length] at this
    simpa [startWRF] using this
  | cons x xs =>
    rw [← ho]
    have hopos : 0 < oldC.length := by rw [ho]; simp
    have hoE : oldC.isEmpty = false := by rw [ho]; rfl
    have hu := unwind_phaseF fl newC oldC oldC false (blkOf st) hgo oldC.length 0 st fuel (by omega) hopos hr0 (by omega)
    have hres1 : Res (blkOf st) ((oldC.filterMap (blkOf st)).foldl unwindBlock st) := by
      have : ∀ (bs : List ABlock) (s : State), Res (blkOf st) s → Res (blkOf st) (bs.foldl unwindBlock s) := by
        intro bs
        induction bs with
        | nil => intro s hs; exact hs
        | cons b bs ih => intro s hs; exact ih _ (hs.unwind b)
      exact this _ _ hr0
    have hw := wind_phaseF fl newC oldC (blkOf st) hgn hgo (newC.length - 1)
      ((oldC.filterMap (blkOf st)).foldl unwindBlock st) (fuel - oldC.length) (by omega) hres1 (by omega)
    rw [show newC.length - 1 + 1 = newC.length by omega, List.take_length, List.drop_length] at hw
    simp only [startWRF, hoE, Bool.false_eq_true, if_false]
    rw [hu]
    simp only [List.drop_zero, afterUnwind, Bool.false_eq_true, if_false, hnE]
    simpa using hw

end Saito.Chain

namespace Saito.Chain

/-- `Blockchain::validate` with the repaired failure path: it returns, and what it returns is either the
    early rejection `(st, false)` (ticket density) or the value of the functional specification -/
theorem validate_refines (fl : Flags) (hf : fl.windFailureRestores = true) (st : State) (newC oldC : List Nat)
    (hres : ∀ h ∈ newC ++ oldC, (blkOf st h).isSome) :
    ∃ r, validate fl st newC oldC = some r ∧
      (r = (st, false) ∨
       r = reorgSpec (validB fl) (blocksOf st newC).reverse (blocksOf st oldC) st) := by
  cases hn : newC with
  | nil => exact ⟨(st, false), by simp [validate], Or.inl rfl⟩
  | cons x xs =>
    rw [← hn]
    have hne : newC ≠ [] := by rw [hn]; simp
    have href := runWRF_refines fl st newC oldC hne hres (2 * (newC.length + oldC.length) + 4) (Nat.le_refl _)
    unfold startWRF at href
    unfold validate
    split
    · exact ⟨_, rfl, Or.inl rfl⟩
    · split
      · exact ⟨_, rfl, Or.inl rfl⟩
      · simp only [hf, if_true]
        have href' : (if oldC.isEmpty = true then
              runWRF fl newC oldC (2 * (newC.length + oldC.length) + 4) st (WR.wind (newC.length - 1) false)
            else runWRF fl newC oldC (2 * (newC.length + oldC.length) + 4) st (WR.unwind 0 false oldC)) =
            some (reorgSpec (validB fl) (blocksOf st newC).reverse (blocksOf st oldC) st) := by
          cases ho : oldC.isEmpty <;> simpa [ho] using href
        split
        · split
          · exact ⟨_, rfl, Or.inl rfl⟩
          · exact ⟨_, href', Or.inr rfl⟩
        · split
          · exact ⟨_, rfl, Or.inl rfl⟩
          · exact ⟨_, href', Or.inr rfl⟩

/-! ### the ledger along the specification -/

/-- every block that validates while `bs` is wound from `s` has its inputs in the ledger at that moment
    (the hypothesis about the validity predicate, restricted to the states the winding actually visits) -/
def InsChecked (v : State → ABlock → Bool) : State → List ABlock → Prop
  | _, [] => True
  | s, b :: rest => v s b = true → ((∀ k ∈ b.ins, k ∈ s.utxo) ∧ InsChecked v (windBlock s b) rest)

/-- what `windAllV` returns: the blocks it wound are a prefix `pre` of the input, newest first on `done` -/
theorem windAllV_spec (v : State → ABlock → Bool) (bs : List ABlock) (st : State) (done : List ABlock)
    (st2 : State) (ok : Bool) (done2 : List ABlock)
    (h : windAllV v bs st done = (st2, ok, done2)) :
    ∃ pre, done2 = pre.reverse ++ done ∧ st2.utxo = replayFrom st.utxo pre ∧ (ok = true → pre = bs) ∧
      (InsChecked v st bs → FreshSeg st.utxo bs → CleanSeg st.utxo pre) := by
  induction bs generalizing st done with
  | nil =>
    simp [windAllV] at h
    obtain ⟨rfl, rfl, rfl⟩ := h
    exact ⟨[], by simp, rfl, fun _ => rfl, fun _ _ => trivial⟩
  | cons b bs ih =>
    unfold windAllV at h
    split at h
    · rename_i hv
      obtain ⟨pre, e1, e2, e3, e4⟩ := ih (windBlock st b) (b :: done) h
      refine ⟨b :: pre, by simp [e1], by simp [e2, replayFrom], fun hok => by rw [e3 hok], ?_⟩
      intro hins hfr
      obtain ⟨⟨f1, f2⟩, frest⟩ := hfr
      obtain ⟨i1, irest⟩ := hins hv
      refine ⟨⟨i1, f1, f2⟩, ?_⟩
      have := e4 irest (by simpa using frest)
      simpa using this
    · simp at h
      obtain ⟨rfl, rfl, rfl⟩ := h
      exact ⟨[], by simp, rfl, fun h => absurd h (by simp), fun _ _ => trivial⟩

theorem reorgSpec_verdict (v : State → ABlock → Bool) (newBs oldBs : List ABlock) (st : State) :
    (reorgSpec v newBs oldBs st).2 = (specWound v newBs oldBs st).2.1 := by
  unfold reorgSpec finishV
  split <;> simp_all

/-- the specification, success case: the ledger is "unwind old, wind new" -/
theorem reorgSpec_success_utxo (v : State → ABlock → Bool) (newBs oldBs : List ABlock) (st st' : State)
    (h : reorgSpec v newBs oldBs st = (st', true)) :
    st'.utxo = replayFrom (unwindSeg st.utxo oldBs.reverse) newBs := by
  unfold reorgSpec finishV specWound at h
  generalize hw : windAllV v newBs (List.foldl unwindBlock st oldBs) [] = w at h
  obtain ⟨st2, ok, done⟩ := w
  obtain ⟨pre, _, e2, e3, _⟩ := windAllV_spec _ _ _ _ _ _ _ hw
  cases ok with
  | true =>
    simp at h
    subst h
    rw [e2, e3 rfl, foldl_unwindBlock_utxo]
    simp [unwindSeg]
  | false => simp at h

/-- the specification, success case: when validity checks the inputs (in the states visited) and the
    candidate's outputs are fresh, the candidate segment was wound cleanly — the hypothesis `hc` of the next
    reorganisation -/
theorem reorgSpec_success_clean (v : State → ABlock → Bool) (newBs oldBs : List ABlock) (st st' : State)
    (h : reorgSpec v newBs oldBs st = (st', true))
    (hins : InsChecked v (oldBs.foldl unwindBlock st) newBs)
    (hfresh : FreshSeg (unwindSeg st.utxo oldBs.reverse) newBs) :
    CleanSeg (unwindSeg st.utxo oldBs.reverse) newBs := by
  unfold reorgSpec finishV specWound at h
  generalize hw : windAllV v newBs (List.foldl unwindBlock st oldBs) [] = w at h
  obtain ⟨st2, ok, done⟩ := w
  obtain ⟨pre, _, _, e3, e4⟩ := windAllV_spec _ _ _ _ _ _ _ hw
  have hu : (List.foldl unwindBlock st oldBs).utxo = unwindSeg st.utxo oldBs.reverse := by
    rw [foldl_unwindBlock_utxo]; simp [unwindSeg]
  cases ok with
  | true =>
    have := e4 hins (by rw [hu]; exact hfresh)
    rw [e3 rfl, hu] at this
    exact this
  | false => simp at h

/-- the specification, failure case with the old chain re-validating during the restoration:
    "unwind old, wind a clean prefix of new, unwind it, re-wind old" -/
theorem reorgSpec_failure_utxo (v : State → ABlock → Bool) (newBs oldBs : List ABlock) (st st' : State)
    (h : reorgSpec v newBs oldBs st = (st', false))
    (hrest : (specRestore v newBs oldBs st).2.1 = true)
    (hins : InsChecked v (oldBs.foldl unwindBlock st) newBs)
    (hfresh : FreshSeg (unwindSeg st.utxo oldBs.reverse) newBs) :
    ∃ pre, CleanSeg (unwindSeg st.utxo oldBs.reverse) pre ∧
      st'.utxo = replayFrom (unwindSeg (replayFrom (unwindSeg st.utxo oldBs.reverse) pre) pre) oldBs.reverse := by
  unfold reorgSpec finishV at h
  unfold specRestore at hrest
  unfold specWound at h hrest
  generalize hw : windAllV v newBs (List.foldl unwindBlock st oldBs) [] = w at h hrest
  obtain ⟨st2, ok, done⟩ := w
  obtain ⟨pre, e1, e2, _, e4⟩ := windAllV_spec _ _ _ _ _ _ _ hw
  have hu : (List.foldl unwindBlock st oldBs).utxo = unwindSeg st.utxo oldBs.reverse := by
    rw [foldl_unwindBlock_utxo]; simp [unwindSeg]
  cases ok with
  | true => simp at h
  | false =>
    simp only [Bool.false_eq_true, ↓reduceIte] at h
    have h' := (Prod.mk.inj h).1
    unfold restoreFrom at h' hrest
    dsimp only at h' hrest
    generalize hr : windAllV v oldBs.reverse (List.foldl unwindBlock st2 done) [] = r at h' hrest
    obtain ⟨st4, ok4, done4⟩ := r
    obtain ⟨pre4, _, r2, r3, _⟩ := windAllV_spec _ _ _ _ _ _ _ hr
    dsimp only at h' hrest
    subst h'
    refine ⟨pre, ?_, ?_⟩
    · have := e4 hins (by rw [hu]; exact hfresh)
      rwa [hu] at this
    · rw [r2, r3 hrest, foldl_unwindBlock_utxo, e2, hu, e1]
      simp [unwindSeg]

/-! ### discharging `InsChecked` for `validB` -/

/-- the per-transaction verdict gates validity only where the node checks inputs against its utxo set -/
theorem validB_ins_of_againstUtxo (fl : Flags) (s : State) (b : ABlock) (hv : fl.txVerdict = true)
    (ha : againstUtxo s = true) (h : validB fl s b = true) : ∀ k ∈ b.ins, k ∈ s.utxo := by
  simp [validB, hv, ha] at h
  exact h.2

/-- The UNRESTRICTED hypothesis "`validB` implies the inputs are in the ledger, in every state" is false for
    every flag setting: on a node that does not hold block 1 (`againstUtxo = false`; blockchain.rs:1514
    `has_total_supply_loaded`) the utxo check is skipped.  Hence `InsChecked`, which speaks only about the
    states the winding visits. -/
theorem validB_ins_global_false (fl : Flags) :
    ¬ ∀ (s : State) (b : ABlock), validB fl s b = true → ∀ k ∈ b.ins, k ∈ s.utxo := by
  intro h
  have := h { gp := 1 } { hash := 1, prev := 0, id := 1, burnfee := 0, hasGT := false, ok := true, ins := [5], outs := [] }
    (by simp [validB, againstUtxo, lcHashAt, getItem, getB]) 5 (by simp)
  simp at this

theorem find_setItem_ne (r : List (Nat × RItem)) (slot s : Nat) (it : RItem) (h : s ≠ slot) :
    getItem (setItem r slot it) s = getItem r s := by
  unfold getItem setItem
  have hns : ((slot, it).1 == s) = false := by simp; exact fun e => h e.symm
  rw [List.find?_cons, hns]
  have : (r.filter (·.1 != slot)).find? (·.1 == s) = r.find? (·.1 == s) := by
    induction r with
    | nil => rfl
    | cons p r ih =>
      by_cases hp : p.1 = slot
      · have h1 : (p.1 != slot) = false := by simp [hp]
        have h2 : (p.1 == s) = false := by simp [hp]; exact fun e => h e.symm
        rw [List.filter_cons, h1, List.find?_cons, h2]
        simpa using ih
      · have h1 : (p.1 != slot) = true := by simp [hp]
        rw [List.filter_cons, h1]
        simp only [if_true, List.find?_cons]
        split
        · rfl
        · exact ih
  rw [this]

@[simp] theorem ringReorg_gp (st : State) (id h : Nat) (lc : Bool) : (ringReorg st id h lc).gp = st.gp := by
  unfold ringReorg
  dsimp only
  split
  · rfl
  · split
    · split <;> rfl
    · rfl

theorem ringReorg_ring (st : State) (id h : Nat) (lc : Bool) :
    (ringReorg st id h lc).ring = setItem st.ring (slotOf st id) ((getItem st.ring (slotOf st id)).reorg h lc) := by
  unfold ringReorg
  dsimp only
  split
  · rfl
  · split
    · split <;> rfl
    · rfl

theorem lcHashAt_ringReorg (st : State) (id h j : Nat) (lc : Bool) (hs : slotOf st j ≠ slotOf st id) :
    lcHashAt (ringReorg st id h lc) j = lcHashAt st j := by
  have hslot : slotOf (ringReorg st id h lc) j = slotOf st j := by simp [slotOf]
  unfold lcHashAt
  rw [hslot, ringReorg_ring, find_setItem_ne _ _ _ _ hs]

@[simp] theorem windBlock_gp (st : State) (b : ABlock) : (windBlock st b).gp = st.gp := by
  simp [windBlock, setLC]

@[simp] theorem unwindBlock_gp (st : State) (b : ABlock) : (unwindBlock st b).gp = st.gp := by
  simp [unwindBlock, setLC]

/-- winding a block that does not live in the slot of block id 1 does not change whether the node checks
    inputs against its utxo set -/
theorem againstUtxo_windBlock (st : State) (b : ABlock) (hs : slotOf st 1 ≠ slotOf st b.id) :
    againstUtxo (windBlock st b) = againstUtxo st := by
  unfold againstUtxo windBlock
  have : lcHashAt (setLC { ringReorg st b.id b.hash true with utxo := windU b (ringReorg st b.id b.hash true).utxo } b.hash true) 1
      = lcHashAt (ringReorg st b.id b.hash true) 1 := rfl
  rw [this, lcHashAt_ringReorg st b.id b.hash 1 true hs]

theorem againstUtxo_unwindBlock (st : State) (b : ABlock) (hs : slotOf st 1 ≠ slotOf st b.id) :
    againstUtxo (unwindBlock st b) = againstUtxo st := by
  unfold againstUtxo unwindBlock
  rw [lcHashAt_ringReorg _ b.id b.hash 1 false (by simpa [slotOf, setLC] using hs)]
  rfl

/-- `InsChecked` holds for `validB` when the verdict flag is on, the node checks inputs against its utxo set,
    and none of the blocks to wind lives in the slot of block id 1 -/
theorem insChecked_validB (fl : Flags) (hv : fl.txVerdict = true) (bs : List ABlock) :
    ∀ (s : State), againstUtxo s = true → (∀ b ∈ bs, slotOf s 1 ≠ slotOf s b.id) → InsChecked (validB fl) s bs := by
  induction bs with
  | nil => intro s _ _; trivial
  | cons b bs ih =>
    intro s ha hsl hval
    refine ⟨validB_ins_of_againstUtxo fl s b hv ha hval, ih _ ?_ ?_⟩
    · rw [againstUtxo_windBlock s b (hsl b (List.mem_cons_self ..))]; exact ha
    · intro b' hb'
      simpa [slotOf] using hsl b' (List.mem_cons_of_mem _ hb')

/-- … and in the state from which the loop winds the candidate (after unwinding the old chain) -/
theorem insChecked_after_unwind (fl : Flags) (hv : fl.txVerdict = true) (newBs oldBs : List ABlock) (st : State)
    (ha : againstUtxo st = true)
    (hsl : ∀ b ∈ newBs ++ oldBs, slotOf st 1 ≠ slotOf st b.id) :
    InsChecked (validB fl) (oldBs.foldl unwindBlock st) newBs := by
  have key : ∀ (obs : List ABlock) (s : State), s.gp = st.gp → againstUtxo s = true →
      (∀ b ∈ obs, slotOf st 1 ≠ slotOf st b.id) →
      againstUtxo (obs.foldl unwindBlock s) = true ∧ (obs.foldl unwindBlock s).gp = st.gp := by
    intro obs
    induction obs with
    | nil => intro s hgp ha _; exact ⟨ha, hgp⟩
    | cons b obs ih =>
      intro s hgp ha' hs
      have hb : slotOf s 1 ≠ slotOf s b.id := by
        have := hs b (List.mem_cons_self ..)
        simpa [slotOf, hgp] using this
      exact ih (unwindBlock s b) (by simp [hgp]) (by rw [againstUtxo_unwindBlock s b hb]; exact ha')
        (fun b' hb' => hs b' (List.mem_cons_of_mem _ hb'))
  obtain ⟨h1, h2⟩ := key oldBs st rfl ha (fun b hb => hsl b (List.mem_append_right _ hb))
  apply insChecked_validB fl hv newBs _ h1
  intro b hb
  have := hsl b (List.mem_append_left _ hb)
  simpa [slotOf, h2] using this

end Saito.Chain
