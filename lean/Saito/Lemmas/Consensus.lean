import Saito.Model.Consensus
/-!
  Helper lemmas for C07: the transaction sweep ignores appended ATR / Fee transactions, the rest of
  `generate_consensus_values` reads `self` only through fields that `Block::create` sets consistently.
-/
namespace Saito.Consensus

/-! ## the sweep -/

theorem scanStep_c (s : Scan) (i : Nat) (t : Tx) : (scanStep s i t).c = coreStep s.c i t := by
  unfold scanStep; split <;> rfl

theorem coreStep_atr (c : ScanCore) (i : Nat) (t : Tx) (h : t.typ = .atr) : coreStep c i t = c := by
  simp [coreStep, counted, h]

theorem coreStep_fee (c : ScanCore) (i : Nat) (t : Tx) (h : t.typ = .fee) : coreStep c i t = c := by
  simp [coreStep, counted, h]

theorem scanStep_atr (s : Scan) (i : Nat) (t : Tx) (h : t.typ = .atr) : scanStep s i t = s := by
  simp [scanStep, h, coreStep_atr]

theorem scanStep_fee (s : Scan) (i : Nat) (t : Tx) (h : t.typ = .fee) :
    scanStep s i t = { ftNum := s.ftNum + 1, ftIndex := some i, c := s.c } := by
  simp [scanStep, h, coreStep_fee]

theorem scanFrom_append (i : Nat) (s : Scan) (a b : List Tx) :
    scanFrom i s (a ++ b) = scanFrom (i + a.length) (scanFrom i s a) b := by
  induction a generalizing i s with
  | nil => simp [scanFrom]
  | cons t ts ih =>
    simp only [List.cons_append, scanFrom, List.length_cons, ih]
    congr 1; omega

theorem scanFrom_atr (i : Nat) (s : Scan) (l : List Tx) (h : ∀ t ∈ l, t.typ = .atr) : scanFrom i s l = s := by
  induction l generalizing i s with
  | nil => rfl
  | cons t ts ih =>
    simp only [scanFrom]
    rw [scanStep_atr s i t (h t (by simp))]
    exact ih _ _ (fun t ht => h t (by simp [ht]))

/-! ## what the sweep counts -/

theorem coreStep_itNum (c : ScanCore) (i : Nat) (t : Tx) :
    (coreStep c i t).itNum = c.itNum + (if t.typ == .issuance then 1 else 0) := by
  obtain ⟨typ, _, _, _, _, _, _, _, _⟩ := t
  cases typ <;> simp [coreStep, counted]

theorem coreStep_stNum (c : ScanCore) (i : Nat) (t : Tx) :
    (coreStep c i t).stNum = c.stNum + (if t.typ == .blockStake then 1 else 0) := by
  obtain ⟨typ, _, _, _, _, _, _, _, _⟩ := t
  cases typ <;> simp [coreStep, counted]

theorem coreStep_noGT (c : ScanCore) (i : Nat) (t : Tx) (h : t.typ ≠ .goldenTicket) :
    (coreStep c i t).gtIndex = c.gtIndex ∧ (coreStep c i t).ticket = c.ticket ∧ (coreStep c i t).gtNum = c.gtNum := by
  obtain ⟨typ, _, _, _, _, _, _, _, _⟩ := t
  cases typ <;> simp_all [coreStep, counted]

theorem coreStep_GT (c : ScanCore) (i : Nat) (t : Tx) (h : t.typ = .goldenTicket) :
    (coreStep c i t).gtIndex = some i ∧ (coreStep c i t).ticket = t.ticket ∧ (coreStep c i t).gtNum = c.gtNum + 1
      ∧ (coreStep c i t).itNum = c.itNum ∧ (coreStep c i t).stNum = c.stNum := by
  unfold coreStep
  simp [counted, h]

/-- sweep over transactions none of which is a golden ticket -/
theorem scanFrom_noGT (i : Nat) (s : Scan) (l : List Tx) (h : ∀ t ∈ l, t.typ ≠ .goldenTicket) :
    (scanFrom i s l).c.gtIndex = s.c.gtIndex ∧ (scanFrom i s l).c.ticket = s.c.ticket ∧ (scanFrom i s l).c.gtNum = s.c.gtNum := by
  induction l generalizing i s with
  | nil => exact ⟨rfl, rfl, rfl⟩
  | cons t ts ih =>
    simp only [scanFrom]
    have h1 := ih (i + 1) (scanStep s i t) (fun t ht => h t (by simp [ht]))
    have h2 := coreStep_noGT s.c i t (h t (by simp))
    rw [scanStep_c] at h1
    exact ⟨h1.1.trans h2.1, h1.2.1.trans h2.2.1, h1.2.2.trans h2.2.2⟩

theorem scanFrom_itNum (i : Nat) (s : Scan) (l : List Tx) (h : ∀ t ∈ l, t.typ ≠ .issuance) :
    (scanFrom i s l).c.itNum = s.c.itNum := by
  induction l generalizing i s with
  | nil => rfl
  | cons t ts ih =>
    simp only [scanFrom]
    rw [ih (i + 1) (scanStep s i t) (fun t ht => h t (by simp [ht])), scanStep_c, coreStep_itNum]
    have := h t (by simp)
    simp [this]

def stakeCount (l : List Tx) : Nat := (l.filter (fun t => t.typ == .blockStake)).length

theorem scanFrom_stNum (i : Nat) (s : Scan) (l : List Tx) :
    (scanFrom i s l).c.stNum = s.c.stNum + stakeCount l := by
  induction l generalizing i s with
  | nil => simp [scanFrom, stakeCount]
  | cons t ts ih =>
    simp only [scanFrom]
    rw [ih (i + 1) (scanStep s i t), scanStep_c, coreStep_stNum]
    unfold stakeCount
    by_cases hb : (t.typ == TxType.blockStake) = true <;> simp [hb] <;> omega

/-! ## transactions appended by `Block::create` -/

theorem toTx_typ (fl : Flags) (r : Reb) : (Reb.toTx fl r).typ = .atr := rfl
theorem toTx_body (fl : Flags) (r : Reb) : (Reb.toTx fl r).body = r.body := rfl
theorem toTx_slips (fl : Flags) (r : Reb) : (Reb.toTx fl r).atrSlips = 1 := rfl
theorem toTx_work (fl : Flags) (r : Reb) : (Reb.toTx fl r).work = 0 := rfl

def feeList (cv : CV) : List Tx := match cv.feeTx with | some o => [feeTxOf o] | none => []

theorem appended_eq (fl : Flags) (cv : CV) : appended fl cv = cv.rebs.map (Reb.toTx fl) ++ feeList cv := rfl

/-- the sweep over a finished block: only the fee-transaction counters move -/
theorem scan_finished (fl : Flags) (cv : CV) (A : List Tx) :
    scan (A ++ appended fl cv) =
      match cv.feeTx with
      | some _ => { ftNum := (scan A).ftNum + 1, ftIndex := some (A.length + cv.rebs.length), c := (scan A).c }
      | none => scan A := by
  unfold scan
  rw [appended_eq, ← List.append_assoc, scanFrom_append, scanFrom_append]
  rw [scanFrom_atr _ _ (cv.rebs.map (Reb.toTx fl)) (by intro t ht; simp at ht; obtain ⟨r, _, rfl⟩ := ht; rfl)]
  unfold feeList
  cases h : cv.feeTx with
  | none => simp [scanFrom]
  | some o =>
    simp only [scanFrom, List.length_append, List.length_map, Nat.zero_add]
    rw [scanStep_fee _ _ _ rfl]

/-! ## the part after the sweep -/

/-- no rebroadcast of this block carries a payout (multiplier 1, or nothing eligible) -/
def NoAtrPayout (ctx : Ctx) (id : Nat) : Prop :=
  ∀ src, atrSource ctx id = some src → (atrPre ctx src).tpa = 0

theorem capAdjust_noop (cap05 : Nat → Nat) (T : Nat) (a : AtrAcc) (h : a.tpa = 0) : capAdjust cap05 T a = a := by
  simp [capAdjust, h]

/-- the rebroadcast section does not depend on `self.treasury`: either the cap reads the parent, or the cap
    cannot fire -/
theorem atrSection_indep (fl : Flags) (ctx : Ctx) (id T T' : Nat)
    (h : fl.atrCapParent = true ∨ NoAtrPayout ctx id) :
    atrSection fl ctx id T = atrSection fl ctx id T' := by
  unfold atrSection
  cases hs : atrSource ctx id with
  | none => rfl
  | some src =>
    rcases h with h | h
    · simp [capTreasury, h]
    · simp [capAdjust_noop _ _ _ (h src hs)]

/-- with no payout the cap leaves the accumulator alone, so both hash variants commit to the same list -/
theorem atrSection_pre_eq_fin (fl : Flags) (ctx : Ctx) (id T : Nat) (h : NoAtrPayout ctx id) :
    (atrSection fl ctx id T).2 = (atrSection fl ctx id T).1 := by
  unfold atrSection
  cases hs : atrSource ctx id with
  | none => rfl
  | some src => simp [capAdjust_noop _ _ _ (h src hs)]

theorem bfDiff_self (ctx : Ctx) (ts n : Nat) :
    bfDiff ctx ts (bfDiff ctx ts 0 0 n).1 (bfDiff ctx ts 0 0 n).2 n = bfDiff ctx ts 0 0 n := by
  unfold bfDiff
  cases ctx.prev <;> rfl

/-- `generate_consensus_values` after the sweep gives the same values on the finished header as on the empty one -/
theorem gcvCore_frame (fl : Flags) (ctx : Ctx) (id ts T : Nat) (c : ScanCore)
    (h : fl.atrCapParent = true ∨ NoAtrPayout ctx id) :
    gcvCore fl ctx id ts T (gcvCore fl ctx id ts 0 0 0 c).bf (gcvCore fl ctx id ts 0 0 0 c).diff c
      = gcvCore fl ctx id ts 0 0 0 c := by
  have hb : (gcvCore fl ctx id ts 0 0 0 c).bf = (bfDiff ctx ts 0 0 c.gtNum).1 := rfl
  have hd : (gcvCore fl ctx id ts 0 0 0 c).diff = (bfDiff ctx ts 0 0 c.gtNum).2 := rfl
  rw [hb, hd]
  unfold gcvCore
  rw [bfDiff_self, atrSection_indep fl ctx id T 0 h]

/-! ## payout multiplier 1 ⇒ no payout -/

theorem slipStep_mult_one (fee : Nat) (a : AtrAcc) (s : AtrSlip) (h : a.tpa = 0) : (atrSlipStep 1 fee a s).tpa = 0 := by
  by_cases hp : fee < s.amt <;> simp [atrSlipStep, hp, h]

theorem foldSlip_mult_one (fee : Nat) (l : List AtrSlip) (a : AtrAcc) (h : a.tpa = 0) :
    (l.foldl (atrSlipStep 1 fee) a).tpa = 0 := by
  induction l generalizing a with
  | nil => exact h
  | cons s ss ih => exact ih _ (slipStep_mult_one fee a s h)

theorem foldTx_mult_one (afpb : Nat) (l : List AtrTx) (a : AtrAcc) (h : a.tpa = 0) :
    (l.foldl (atrTxStep 1 afpb) a).tpa = 0 := by
  induction l generalizing a with
  | nil => exact h
  | cons t ts ih => exact ih _ (foldSlip_mult_one _ t.slips a h)

/-! ## rebroadcast counters -/

theorem atrSlipStep_inv (mult fee : Nat) (a : AtrAcc) (s : AtrSlip) (h : a.rs = a.rebs.length) :
    (atrSlipStep mult fee a s).rs = (atrSlipStep mult fee a s).rebs.length := by
  by_cases hp : s.amt * mult > fee <;> simp [atrSlipStep, hp, h]

theorem foldl_slip_inv (mult fee : Nat) (l : List AtrSlip) (a : AtrAcc) (h : a.rs = a.rebs.length) :
    (l.foldl (atrSlipStep mult fee) a).rs = (l.foldl (atrSlipStep mult fee) a).rebs.length := by
  induction l generalizing a with
  | nil => exact h
  | cons s ss ih => exact ih _ (atrSlipStep_inv mult fee a s h)

theorem foldl_tx_inv (mult afpb : Nat) (l : List AtrTx) (a : AtrAcc) (h : a.rs = a.rebs.length) :
    (l.foldl (atrTxStep mult afpb) a).rs = (l.foldl (atrTxStep mult afpb) a).rebs.length := by
  induction l generalizing a with
  | nil => exact h
  | cons t ts ih => exact ih _ (foldl_slip_inv mult _ t.slips a h)

theorem atrPre_inv (ctx : Ctx) (src : List AtrTx) : (atrPre ctx src).rs = (atrPre ctx src).rebs.length := by
  unfold atrPre
  cases ctx.prev <;> exact foldl_tx_inv _ _ _ _ rfl

theorem capAdjust_inv (cap05 : Nat → Nat) (T : Nat) (a : AtrAcc) (h : a.rs = a.rebs.length) :
    (capAdjust cap05 T a).rs = (capAdjust cap05 T a).rebs.length := by
  by_cases hp : a.tpa > cap05 T <;> simp [capAdjust, hp, h]

/-- `cv.total_rebroadcast_slips` = number of rebroadcast transactions -/
theorem atrSection_rs (fl : Flags) (ctx : Ctx) (id T : Nat) :
    (atrSection fl ctx id T).2.rs = (atrSection fl ctx id T).2.rebs.length := by
  unfold atrSection
  cases atrSource ctx id with
  | none => rfl
  | some src => exact capAdjust_inv _ _ _ (atrPre_inv ctx src)

/-! ## double-spend keys -/

theorem noDup_sublist {l₁ l₂ : List Nat} (h : l₁.Sublist l₂) : noDup l₂ = true → noDup l₁ = true := by
  induction h with
  | slnil => intro h; exact h
  | cons a _ ih =>
    intro h2
    simp only [noDup, Bool.and_eq_true] at h2
    exact ih h2.2
  | cons_cons a hs ih =>
    intro h2
    simp only [noDup, Bool.and_eq_true, Bool.not_eq_true', List.contains_eq_mem, decide_eq_false_iff_not] at h2 ⊢
    exact ⟨fun hm => h2.1 (hs.subset hm), ih h2.2⟩

theorem flatMap_filter_sublist (p q : Tx → Bool) (hpq : ∀ t, p t = true → q t = true) (l : List Tx) :
    ((l.filter p).flatMap (·.ins)).Sublist ((l.filter q).flatMap (·.ins)) := by
  induction l with
  | nil => simp
  | cons t ts ih =>
    by_cases hp : p t = true
    · have hq := hpq t hp
      simp only [List.filter_cons, hp, hq, if_true, List.flatMap_cons]
      exact List.Sublist.append (List.Sublist.refl _) ih
    · by_cases hq : q t = true
      · simp only [List.filter_cons, hp, hq, if_true, List.flatMap_cons]
        exact List.Sublist.trans ih (List.sublist_append_right _ _)
      · simp only [List.filter_cons, hp, hq]
        exact ih

/-- what `Block::create` checked covers what `Block::validate` checks -/
theorem sweep_keys_ok (txs : List Tx) (h : noDup (spendKeys txs) = true) :
    noDup ((txs.filter (fun t => t.valid && t.typ != .fee)).flatMap (·.ins)) = true := by
  apply noDup_sublist _ h
  unfold spendKeys
  apply flatMap_filter_sublist
  intro t ht
  simp only [Bool.and_eq_true] at ht
  exact ht.2

/-! ## what `Block::create` is handed -/

/-- shape of what `Block::create` is handed: the ticket (if any) is a golden-ticket transaction; the drained pool
    holds no Issuance / ATR / GoldenTicket typed transaction -/
structure Shape (pool : List Tx) (gt : Option Tx) : Prop where
  pool : ∀ t ∈ pool, t.typ ≠ .issuance ∧ t.typ ≠ .atr ∧ t.typ ≠ .goldenTicket
  gt : ∀ t, gt = some t → t.typ = .goldenTicket

theorem scan_shape (pool : List Tx) (gt : Option Tx) (h : Shape pool gt) :
    (scan (gt.toList ++ pool)).c.itNum = 0 ∧
    (scan (gt.toList ++ pool)).c.stNum = stakeCount pool ∧
    (scan (gt.toList ++ pool)).c.gtIndex = gt.map (fun _ => 0) ∧
    (∀ t, gt = some t → (scan (gt.toList ++ pool)).c.ticket = t.ticket) := by
  have hi : ∀ t ∈ pool, t.typ ≠ .issuance := fun t ht => (h.pool t ht).1
  have hg : ∀ t ∈ pool, t.typ ≠ .goldenTicket := fun t ht => (h.pool t ht).2.2
  cases gt with
  | none =>
    simp only [Option.toList_none, List.nil_append, Option.map_none]
    unfold scan
    refine ⟨scanFrom_itNum _ _ _ hi, ?_, (scanFrom_noGT _ _ _ hg).1, by intro t ht; cases ht⟩
    rw [scanFrom_stNum]; simp
  | some t =>
    have ht := h.gt t rfl
    have hs := coreStep_GT ({} : ScanCore) 0 t ht
    simp only [Option.toList_some, List.singleton_append, Option.map_some]
    unfold scan
    simp only [scanFrom]
    have hn := scanFrom_noGT (0 + 1) (scanStep {} 0 t) pool hg
    rw [scanStep_c] at hn
    refine ⟨?_, ?_, hn.1.trans hs.1, ?_⟩
    · rw [scanFrom_itNum _ _ _ hi, scanStep_c]; exact hs.2.2.2.1
    · rw [scanFrom_stNum, scanStep_c, hs.2.2.2.2]; simp
    · intro t' ht'; cases ht'; exact hn.2.1.trans hs.2.1

/-! ## the frame: consensus values of the finished block -/

/-- what `generate_consensus_values` returns on the finished block, in terms of the values computed while creating:
    only the fee-transaction counters differ -/
def frameCV (b : Block) : CV :=
  match b.cv.feeTx with
  | some _ => { b.cv with ftNum := b.cv.ftNum + 1, ftIndex := some (b.txs.length - 1) }
  | none => b.cv

theorem gcv_createView (fl : Flags) (ctx : Ctx) (pool : List Tx) (gt : Option Tx) (ts : Nat) :
    gcv fl ctx (createView ctx pool gt ts) =
      { gcvCore fl ctx (prevId ctx + 1) ts 0 0 0 (scan (gt.toList ++ pool)).c with
        ftNum := (scan (gt.toList ++ pool)).ftNum, ftIndex := (scan (gt.toList ++ pool)).ftIndex } := rfl

theorem gcv_frame_mk (fl : Flags) (ctx : Ctx) (pool : List Tx) (gt : Option Tx) (ts : Nat)
    (h : fl.atrCapParent = true ∨ NoAtrPayout ctx (prevId ctx + 1)) :
    gcv fl ctx (mkBlock fl ctx pool gt ts).view = frameCV (mkBlock fl ctx pool gt ts) := by
  have hcore := fun T => gcvCore_frame fl ctx (prevId ctx + 1) ts T (scan (gt.toList ++ pool)).c h
  unfold gcv frameCV
  simp only [mkBlock, Block.view]
  rw [scan_finished]
  cases hf : (gcv fl ctx (createView ctx pool gt ts)).feeTx with
  | none =>
    simp only
    rw [gcv_createView] at hf ⊢
    simp only at hf ⊢
    rw [hcore]
  | some o =>
    simp only
    rw [gcv_createView] at hf ⊢
    simp only at hf ⊢
    rw [hcore]
    simp [appended, hf]
    omega

/-! ## the checks of `Block::validate` on the block `Block::create` assembled -/

variable (fl : Flags) (ctx : Ctx) (pool : List Tx) (gt : Option Tx) (ts : Nat)


/-- abbreviations: the creation-time sweep and values -/
theorem mk_cv : (mkBlock fl ctx pool gt ts).cv = gcv fl ctx (createView ctx pool gt ts) := rfl
theorem mk_txs : (mkBlock fl ctx pool gt ts).txs = gt.toList ++ pool ++ appended fl (gcv fl ctx (createView ctx pool gt ts)) := rfl

theorem frameCV_core (b : Block) :
    (frameCV b).tf = b.cv.tf ∧ (frameCV b).tfn = b.cv.tfn ∧ (frameCV b).tfa = b.cv.tfa ∧ (frameCV b).tfc = b.cv.tfc ∧
    (frameCV b).atf = b.cv.atf ∧ (frameCV b).atfn = b.cv.atfn ∧ (frameCV b).atfa = b.cv.atfa ∧
    (frameCV b).tpr = b.cv.tpr ∧ (frameCV b).tpm = b.cv.tpm ∧ (frameCV b).tpt = b.cv.tpt ∧ (frameCV b).tpg = b.cv.tpg ∧
    (frameCV b).tpa = b.cv.tpa ∧ (frameCV b).apr = b.cv.apr ∧ (frameCV b).apm = b.cv.apm ∧ (frameCV b).apt = b.cv.apt ∧
    (frameCV b).apg = b.cv.apg ∧ (frameCV b).apa = b.cv.apa ∧ (frameCV b).afpb = b.cv.afpb ∧ (frameCV b).fpb = b.cv.fpb ∧
    (frameCV b).anr = b.cv.anr ∧ (frameCV b).bf = b.cv.bf ∧ (frameCV b).diff = b.cv.diff ∧
    (frameCV b).itNum = b.cv.itNum ∧ (frameCV b).stNum = b.cv.stNum ∧ (frameCV b).gtIndex = b.cv.gtIndex ∧
    (frameCV b).rs = b.cv.rs ∧ (frameCV b).rebHash = b.cv.rebHash ∧ (frameCV b).feeTx = b.cv.feeTx ∧
    (frameCV b).rebs = b.cv.rebs := by
  unfold frameCV
  split <;> simp_all

theorem gcv_tf (v : View) : (gcv fl ctx v).tf = (gcv fl ctx v).tfn + (gcv fl ctx v).tfa := rfl

/-- H1/H2: every header field `Block::create` filled equals the recomputed value -/
theorem header_ok : headerMatches (mkBlock fl ctx pool gt ts) (frameCV (mkBlock fl ctx pool gt ts)) = true ∧
    ((frameCV (mkBlock fl ctx pool gt ts)).bf == (mkBlock fl ctx pool gt ts).bf) = true ∧
    ((frameCV (mkBlock fl ctx pool gt ts)).diff == (mkBlock fl ctx pool gt ts).diff) = true := by
  have h := frameCV_core (mkBlock fl ctx pool gt ts)
  simp only [headerMatches, h, mk_cv]
  simp [mkBlock, gcv_tf]



theorem shape_noAtr (h : Shape pool gt) : (gt.toList ++ pool).filter isAtr = [] := by
  rw [List.filter_eq_nil_iff]
  intro t ht
  simp only [List.mem_append, Option.mem_toList] at ht
  rcases ht with ht | ht
  · simp [isAtr, h.gt t ht]
  · have := (h.pool t ht).2.1
    simpa [isAtr] using this

theorem atr_of_appended (cv : CV) : (appended fl cv).filter isAtr = cv.rebs.map (Reb.toTx fl) := by
  rw [appended_eq, List.filter_append]
  have h1 : (cv.rebs.map (Reb.toTx fl)).filter isAtr = cv.rebs.map (Reb.toTx fl) := by
    rw [List.filter_eq_self]; intro t ht; simp at ht; obtain ⟨r, _, rfl⟩ := ht; rfl
  have h2 : (feeList cv).filter isAtr = [] := by
    unfold feeList; cases cv.feeTx <;> simp [isAtr, feeTxOf]
  rw [h1, h2, List.append_nil]

/-- the ATR transactions of the finished block are exactly the rebroadcasts computed while creating -/
theorem mk_atrs (h : Shape pool gt) :
    (mkBlock fl ctx pool gt ts).txs.filter isAtr = (mkBlock fl ctx pool gt ts).cv.rebs.map (Reb.toTx fl) := by
  rw [mk_txs, List.filter_append, shape_noAtr pool gt h, atr_of_appended, List.nil_append]; rfl

theorem sum_slips (l : List Reb) : ((l.map (Reb.toTx fl)).map (·.atrSlips)).sum = l.length := by
  induction l with
  | nil => rfl
  | cons r rs ih =>
    simp only [List.map_cons, List.sum_cons, toTx_slips, List.length_cons, ih]; omega

/-- H6: rebroadcast slip count -/
theorem rs_ok (h : Shape pool gt) :
    ((frameCV (mkBlock fl ctx pool gt ts)).rs == (mkBlock fl ctx pool gt ts).rs) = true := by
  have hc := (frameCV_core (mkBlock fl ctx pool gt ts)).2.2.2.2.2.2.2.2.2.2.2.2.2.2.2.2.2.2.2.2.2.2.2.2.2.1
  rw [hc, Block.rs, mk_atrs fl ctx pool gt ts h, sum_slips]
  simp only [beq_iff_eq]
  exact atrSection_rs fl ctx (prevId ctx + 1) 0

/-- the frame condition: both repairs, or no payout to cap -/
def FrameOK (fl : Flags) (ctx : Ctx) : Prop :=
  (fl.atrCapParent = true ∧ fl.rebHashFinal = true) ∨ NoAtrPayout ctx (prevId ctx + 1)

theorem FrameOK.cap {fl : Flags} {ctx : Ctx} (h : FrameOK fl ctx) :
    fl.atrCapParent = true ∨ NoAtrPayout ctx (prevId ctx + 1) := by
  rcases h with h | h
  · exact Or.inl h.1
  · exact Or.inr h

/-- H7: rebroadcast hash -/
theorem rebHash_ok (h : Shape pool gt) (hF : FrameOK fl ctx) :
    ((frameCV (mkBlock fl ctx pool gt ts)).rebHash == (mkBlock fl ctx pool gt ts).rebHash) = true := by
  have hc := (frameCV_core (mkBlock fl ctx pool gt ts)).2.2.2.2.2.2.2.2.2.2.2.2.2.2.2.2.2.2.2.2.2.2.2.2.2.2.1
  rw [hc, Block.rebHash, mk_atrs fl ctx pool gt ts h]
  simp only [beq_iff_eq, List.map_map]
  show (gcv fl ctx (createView ctx pool gt ts)).rebHash = List.map ((·.body) ∘ Reb.toTx fl) (gcv fl ctx (createView ctx pool gt ts)).rebs
  rw [gcv_createView]
  simp only [gcvCore]
  rcases hF with hF | hF
  · simp [hF.2]; intro a _; rfl
  · rw [atrSection_pre_eq_fin fl ctx _ 0 hF]; simp; intro a _; rfl



theorem payouts_fee_gt (c : ScanCore) (h : (payouts ctx c).feeTx.isSome = true) : c.gtIndex.isSome = true := by
  unfold payouts at h
  cases hg : c.gtIndex with
  | some _ => rfl
  | none =>
    rw [hg] at h
    simp only at h
    cases hp : ctx.prev with
    | none => simp [hp] at h
    | some p => simp only [hp] at h; split at h <;> simp at h

theorem getLast_idx (l : List Tx) (x : Tx) : (l ++ [x])[(l ++ [x]).length - 1]? = some x := by
  simp

/-- H8: the fee transaction in the block is the expected one -/
theorem feeCompare_ok : feeCompare ctx (mkBlock fl ctx pool gt ts) (frameCV (mkBlock fl ctx pool gt ts)) = true := by
  unfold feeCompare frameCV
  cases hf : (mkBlock fl ctx pool gt ts).cv.feeTx with
  | none =>
    simp only [hf]
    split
    · split <;> simp_all
    · rfl
  | some o =>
    have hg : (mkBlock fl ctx pool gt ts).cv.gtIndex.isSome = true := by
      apply payouts_fee_gt ctx (scan (gt.toList ++ pool)).c
      have : (mkBlock fl ctx pool gt ts).cv.feeTx = (payouts ctx (scan (gt.toList ++ pool)).c).feeTx := rfl
      rw [← this, hf]; rfl
    have htx : (mkBlock fl ctx pool gt ts).txs = (gt.toList ++ pool ++ (mkBlock fl ctx pool gt ts).cv.rebs.map (Reb.toTx fl)) ++ [feeTxOf o] := by
      rw [mk_txs, appended_eq, feeList, ← mk_cv, hf]; simp [List.append_assoc]
    have hg' : (mkBlock fl ctx pool gt ts).cv.gtIndex ≠ none := by
      intro h; rw [h] at hg; simp at hg
    simp only [hf, htx, getLast_idx]
    simp [hg', feeTxOf]

theorem payouts_fee_of_gt (c : ScanCore) (h : c.gtIndex.isSome = true) : (payouts ctx c).feeTx.isSome = true := by
  unfold payouts
  cases hg : c.gtIndex with
  | none => rw [hg] at h; cases h
  | some _ =>
    simp only
    cases ctx.prev <;> rfl

theorem scanFrom_ftNum (i : Nat) (s : Scan) (l : List Tx) (h : ∀ t ∈ l, t.typ ≠ .fee) :
    (scanFrom i s l).ftNum = s.ftNum := by
  induction l generalizing i s with
  | nil => rfl
  | cons t ts ih =>
    simp only [scanFrom]
    rw [ih (i + 1) (scanStep s i t) (fun t ht => h t (by simp [ht]))]
    have := h t (by simp)
    simp [scanStep, this]

/-- H8b (repair F7): with no fee-typed transaction handed to `Block::create`, the finished block carries exactly
    one fee transaction when it has a ticket and none otherwise -/
theorem feeCount_ok (hs : Shape pool gt) (hfee : fl.feeTxCount = true → ∀ t ∈ pool, t.typ ≠ .fee) :
    feeCount fl (frameCV (mkBlock fl ctx pool gt ts)) = true := by
  unfold feeCount
  cases hx : fl.feeTxCount with
  | false => rfl
  | true =>
    have hA : ∀ t ∈ gt.toList ++ pool, t.typ ≠ .fee := by
      intro t ht
      simp only [List.mem_append, Option.mem_toList] at ht
      rcases ht with ht | ht
      · rw [hs.gt t ht]; decide
      · exact hfee hx t ht
    have h0 : (mkBlock fl ctx pool gt ts).cv.ftNum = 0 := by
      show (scan (gt.toList ++ pool)).ftNum = 0
      unfold scan; rw [scanFrom_ftNum _ _ _ hA]
    have hfe : (mkBlock fl ctx pool gt ts).cv.feeTx = (payouts ctx (scan (gt.toList ++ pool)).c).feeTx := rfl
    have hgi : (mkBlock fl ctx pool gt ts).cv.gtIndex = (scan (gt.toList ++ pool)).c.gtIndex := rfl
    unfold frameCV
    cases hf : (mkBlock fl ctx pool gt ts).cv.feeTx with
    | none =>
      have hg : (mkBlock fl ctx pool gt ts).cv.gtIndex = none := by
        cases hgx : (mkBlock fl ctx pool gt ts).cv.gtIndex with
        | none => rfl
        | some k =>
          have := payouts_fee_of_gt ctx (scan (gt.toList ++ pool)).c (by rw [← hgi, hgx]; rfl)
          rw [← hfe, hf] at this; cases this
      simp [h0, hg]
    | some o =>
      have hg : (mkBlock fl ctx pool gt ts).cv.gtIndex.isSome = true := by
        apply payouts_fee_gt ctx (scan (gt.toList ++ pool)).c
        rw [← hfe, hf]; rfl
      simp [h0, hg]

theorem work_ge : (pool.map (·.work)).sum ≤ (mkBlock fl ctx pool gt ts).totalWork := by
  unfold Block.totalWork
  rw [mk_txs]
  simp only [List.map_append, List.sum_append]
  omega

/-- H5: checks against the previous block -/
theorem prev_ok (h : Shape pool gt)
    (hgt : ∀ t, gt = some t → ctx.gtOk t.ticket = true)
    (hwork : ∀ p, ctx.prev = some p → ctx.workF p.bf ts p.ts ctx.hb ≤ (pool.map (·.work)).sum) :
    prevChecks ctx (mkBlock fl ctx pool gt ts) (frameCV (mkBlock fl ctx pool gt ts))
      (scan (mkBlock fl ctx pool gt ts).txs).c.ticket = true := by
  unfold prevChecks
  cases hp : ctx.prev with
  | none => rfl
  | some p =>
    have hc := frameCV_core (mkBlock fl ctx pool gt ts)
    have hc1 := hc.2.2.2.2.2.2.2.2.2.1
    have hc2 := hc.2.2.2.2.2.2.2.2.2.2.1
    have hc3 := hc.2.2.2.2.2.2.2.2.2.2.2.1
    have hc4 := hc.2.2.2.2.2.2.2.2.2.2.2.2.2.2.2.2.2.2.2.2.2.2.2.2.1
    clear hc
    have hsh := scan_shape pool gt h
    have hgi : (mkBlock fl ctx pool gt ts).cv.gtIndex = gt.map (fun _ => 0) := hsh.2.2.1
    have htick : (scan (mkBlock fl ctx pool gt ts).txs).c.ticket = (scan (gt.toList ++ pool)).c.ticket := by
      rw [mk_txs, scan_finished]; split <;> rfl
    have hw := Nat.le_trans (hwork p hp) (work_ge fl ctx pool gt ts)
    simp only [hc1, hc2, hc3, hc4, hgi, htick]
    have h1 : (mkBlock fl ctx pool gt ts).treasury = p.treasury + (mkBlock fl ctx pool gt ts).cv.tpt - (mkBlock fl ctx pool gt ts).cv.tpa := by
      simp [mkBlock, prevTreasury, hp]
    have h2 : (mkBlock fl ctx pool gt ts).graveyard = p.graveyard + (mkBlock fl ctx pool gt ts).cv.tpg := by
      simp [mkBlock, prevGraveyard, hp]
    have h3 : (mkBlock fl ctx pool gt ts).ts = ts := rfl
    have h4 : (mkBlock fl ctx pool gt ts).unpaid = if gt.isSome then 0 else p.tf := by
      simp [mkBlock, prevTf, hp]
    rw [h1, h2, h3, h4]
    have hw' : decide (ctx.workF p.bf ts p.ts ctx.hb ≤ (mkBlock fl ctx pool gt ts).totalWork) = true := by simpa using hw
    rw [hw']
    cases gt with
    | none => simp
    | some t =>
      have ht := hsh.2.2.2 t rfl
      simp only [Option.toList_some, List.singleton_append] at ht
      simp [ht, hgt t rfl]

theorem all_valid_of (hk : fl.atrKeepsKey = true) (cv : CV) : ∀ t ∈ appended fl cv, t.valid = true := by
  intro t ht
  rw [appended_eq, List.mem_append] at ht
  rcases ht with ht | ht
  · simp at ht; obtain ⟨r, _, rfl⟩ := ht; simp [Reb.toTx, hk]
  · unfold feeList at ht; cases hf : cv.feeTx <;> simp [hf] at ht; subst ht; rfl

/-- H9: the transaction sweep -/
theorem sweep_ok (hk : fl.txVerdict = true → fl.atrKeepsKey = true)
    (hv : fl.txVerdict = true → ∀ t ∈ gt.toList ++ pool, t.valid = true)
    (hd : noDup (spendKeys (mkBlock fl ctx pool gt ts).txs) = true) :
    sweepOk fl (mkBlock fl ctx pool gt ts).txs = true := by
  unfold sweepOk
  rw [Bool.and_eq_true]
  refine ⟨?_, sweep_keys_ok _ hd⟩
  cases hx : fl.txVerdict with
  | false => rfl
  | true =>
    simp only [Bool.not_true, Bool.false_or, List.all_eq_true]
    intro t ht
    rw [mk_txs, List.mem_append] at ht
    rcases ht with ht | ht
    · exact hv hx t ht
    · exact all_valid_of fl (hk hx) _ t ht


/-! ## no payout ⇒ the rebroadcast inputs keep their amounts (hence their utxo keys) -/

theorem slipStep_keep (mult fee : Nat) (a : AtrAcc) (s : AtrSlip) (hm : 1 ≤ mult)
    (h : a.tpa = 0 → ∀ r ∈ a.rebs, r.frm = r.amt) :
    (atrSlipStep mult fee a s).tpa = 0 → ∀ r ∈ (atrSlipStep mult fee a s).rebs, r.frm = r.amt := by
  by_cases hp : s.amt * mult > fee
  · simp only [atrSlipStep, hp, if_true]
    intro h0 r hr
    have h1 : a.tpa = 0 := by omega
    have h2 : s.amt * mult - s.amt = 0 := by omega
    rw [List.mem_append, List.mem_singleton] at hr
    rcases hr with hr | hr
    · exact h h1 r hr
    · subst hr
      have h3 : s.amt ≤ s.amt * mult := Nat.le_mul_of_pos_right _ hm
      simp only
      omega
  · simp only [atrSlipStep, hp, if_false]
    exact h

theorem foldSlip_keep (mult fee : Nat) (hm : 1 ≤ mult) (l : List AtrSlip) (a : AtrAcc)
    (h : a.tpa = 0 → ∀ r ∈ a.rebs, r.frm = r.amt) :
    (l.foldl (atrSlipStep mult fee) a).tpa = 0 → ∀ r ∈ (l.foldl (atrSlipStep mult fee) a).rebs, r.frm = r.amt := by
  induction l generalizing a with
  | nil => exact h
  | cons s ss ih => exact ih _ (slipStep_keep mult fee a s hm h)

theorem foldTx_keep (mult afpb : Nat) (hm : 1 ≤ mult) (l : List AtrTx) (a : AtrAcc)
    (h : a.tpa = 0 → ∀ r ∈ a.rebs, r.frm = r.amt) :
    (l.foldl (atrTxStep mult afpb) a).tpa = 0 → ∀ r ∈ (l.foldl (atrTxStep mult afpb) a).rebs, r.frm = r.amt := by
  induction l generalizing a with
  | nil => exact h
  | cons t ts ih => exact ih _ (foldSlip_keep mult _ hm t.slips a h)

theorem atrMult_pos (gp treasury anr : Nat) : 1 ≤ atrMult gp treasury anr := by
  unfold atrMult; omega

/-- a rebroadcast accumulator without payout rewrote no input amount -/
theorem atrPre_keep (ctx : Ctx) (src : List AtrTx) (h0 : (atrPre ctx src).tpa = 0) :
    ∀ r ∈ (atrPre ctx src).rebs, r.frm = r.amt := by
  revert h0
  unfold atrPre
  cases ctx.prev with
  | none => exact foldTx_keep 1 0 (Nat.le_refl 1) src {} (fun _ r hr => by cases hr)
  | some p => exact foldTx_keep _ _ (atrMult_pos _ _ _) src {} (fun _ r hr => by cases hr)

/-- … so with `NoAtrPayout` every rebroadcast of the created block spends the original output unchanged -/
theorem atrSection_keep (fl : Flags) (ctx : Ctx) (id T : Nat) (h : NoAtrPayout ctx id) :
    ∀ r ∈ (atrSection fl ctx id T).2.rebs, r.frm = r.amt := by
  rw [atrSection_pre_eq_fin fl ctx id T h]
  unfold atrSection
  cases hs : atrSource ctx id with
  | none => intro r hr; cases hr
  | some src => exact atrPre_keep ctx src (h src hs)

/-- the per-transaction verdict cannot reject what `Block::create` appends when no payout exists: the ATR
    transactions keep the original utxo key (`frm = amt`), the fee transaction is exempt -/
theorem appended_valid_of_noPayout (fl : Flags) (ctx : Ctx) (pool : List Tx) (gt : Option Tx) (ts : Nat)
    (h : NoAtrPayout ctx (prevId ctx + 1)) :
    ∀ t ∈ appended fl (mkBlock fl ctx pool gt ts).cv, t.valid = true := by
  intro t ht
  rw [appended_eq, List.mem_append] at ht
  rcases ht with ht | ht
  · simp only [List.mem_map] at ht
    obtain ⟨r, hr, rfl⟩ := ht
    have hr' : r ∈ (atrSection fl ctx (prevId ctx + 1) 0).2.rebs := hr
    have := atrSection_keep fl ctx (prevId ctx + 1) 0 h r hr'
    simp [Reb.toTx, this]
  · unfold feeList at ht; cases hf : (mkBlock fl ctx pool gt ts).cv.feeTx <;> simp [hf] at ht; subst ht; rfl

/-- H9 with the weakest hypothesis on the rebroadcasts: every ATR-typed transaction of the created block passes
    the per-transaction verdict (needed only when that verdict gates validity) -/
theorem sweep_ok_atr
    (hav : fl.txVerdict = true → ∀ t ∈ (mkBlock fl ctx pool gt ts).txs, t.typ = .atr → t.valid = true)
    (hv : fl.txVerdict = true → ∀ t ∈ gt.toList ++ pool, t.valid = true)
    (hd : noDup (spendKeys (mkBlock fl ctx pool gt ts).txs) = true) :
    sweepOk fl (mkBlock fl ctx pool gt ts).txs = true := by
  unfold sweepOk
  rw [Bool.and_eq_true]
  refine ⟨?_, sweep_keys_ok _ hd⟩
  cases hx : fl.txVerdict with
  | false => rfl
  | true =>
    simp only [Bool.not_true, Bool.false_or, List.all_eq_true]
    intro t ht
    have htm := ht
    rw [mk_txs, List.mem_append] at ht
    rcases ht with ht | ht
    · exact hv hx t ht
    · rw [appended_eq, List.mem_append] at ht
      rcases ht with ht | ht
      · have htyp : t.typ = .atr := by
          simp only [List.mem_map] at ht; obtain ⟨r, _, rfl⟩ := ht; rfl
        exact hav hx t htm htyp
      · unfold feeList at ht
        cases hf : (gcv fl ctx (createView ctx pool gt ts)).feeTx <;> simp [hf] at ht
        subst ht; rfl

end Saito.Consensus
