import Saito.Model.Merkle
/-!
  Helper lemmas for C18 (lite block / merkle root).
-/
namespace Saito.Merkle
variable {α : Type}

/-! ### the merge loop: equations and induction principle -/

theorem mergeLoop_nil (H : α → α → α) (fl : Flags) : mergeLoop H fl [] = [] := rfl
theorem mergeLoop_single (H : α → α → α) (fl : Flags) (a : Entry α) : mergeLoop H fl [a] = [a] := rfl

theorem mergeLoop_cons_cons (H : α → α → α) (fl : Flags) (a b : Entry α) (rest : List (Entry α)) :
    mergeLoop H fl (a :: b :: rest) =
      if mergeable a b then
        if fl.spvMergeSiblingsOnly then merged H fl a b :: mergeLoop H fl rest
        else mergeLoop H fl (merged H fl a b :: rest)
      else a :: b :: mergeLoop H fl rest := by
  cases rest <;> simp [mergeLoop, mergeFrom]

theorem mergeable_iff {a b : Entry α} : mergeable a b = true ↔
    ∃ r h1 s1 c1 h2 s2 c2, a = .spv r h1 s1 c1 ∧ b = .spv r h2 s2 c2 := by
  constructor
  · intro h
    cases a with
    | full t => simp [mergeable] at h
    | spv r1 h1 s1 c1 =>
      cases b with
      | full t => simp [mergeable] at h
      | spv r2 h2 s2 c2 =>
        simp [mergeable] at h; subst h
        exact ⟨_, _, _, _, _, _, _, rfl, rfl⟩
  · rintro ⟨r, h1, s1, c1, h2, s2, c2, rfl, rfl⟩; simp [mergeable]

/-- induction along the loop -/
theorem mergeLoop_induct (H : α → α → α) (fl : Flags) (P : List (Entry α) → Prop)
    (hnil : P []) (hone : ∀ a, P [a])
    (hsib : fl.spvMergeSiblingsOnly = true → ∀ r h1 s1 c1 h2 s2 c2 rest, P rest →
      P (.spv r h1 s1 c1 :: .spv r h2 s2 c2 :: rest))
    (hpin : fl.spvMergeSiblingsOnly = false → ∀ r h1 s1 c1 h2 s2 c2 rest,
      P (.spv (2 * r) (H h1 h2) (if fl.spvPlaceholderCarriesHash then H h1 h2 else s1) (c1 ++ c2) :: rest) → P (.spv r h1 s1 c1 :: .spv r h2 s2 c2 :: rest))
    (hskip : ∀ a b rest, mergeable a b = false → P rest → P (a :: b :: rest)) :
    ∀ l, P l := by
  intro l
  induction hn : l.length using Nat.strongRecOn generalizing l with
  | _ n ih =>
    match l, hn with
    | [], _ => exact hnil
    | [a], _ => exact hone a
    | a :: b :: rest, hn =>
      cases hm : mergeable a b with
      | false => exact hskip a b rest hm (ih rest.length (by simp at hn; omega) rest rfl)
      | true =>
        obtain ⟨r, h1, s1, c1, h2, s2, c2, rfl, rfl⟩ := mergeable_iff.mp hm
        cases hs : fl.spvMergeSiblingsOnly with
        | true => exact hsib hs _ _ _ _ _ _ _ rest (ih rest.length (by simp at hn; omega) rest rfl)
        | false =>
          exact hpin hs _ _ _ _ _ _ _ rest (ih (rest.length + 1) (by simp at hn; omega) _ (by simp))

theorem mergeLoop_sib (H : α → α → α) (fl : Flags) (hs : fl.spvMergeSiblingsOnly = true) (r : Nat) (h1 s1 : α) (c1 : List Nat)
    (h2 s2 : α) (c2 : List Nat) (rest : List (Entry α)) :
    mergeLoop H fl (.spv r h1 s1 c1 :: .spv r h2 s2 c2 :: rest) =
      .spv (2 * r) (H h1 h2) (if fl.spvPlaceholderCarriesHash then H h1 h2 else s1) (c1 ++ c2) :: mergeLoop H fl rest := by
  simp [mergeLoop_cons_cons, mergeable, merged, hs]

theorem mergeLoop_pin (H : α → α → α) (fl : Flags) (hs : fl.spvMergeSiblingsOnly = false) (r : Nat) (h1 s1 : α) (c1 : List Nat)
    (h2 s2 : α) (c2 : List Nat) (rest : List (Entry α)) :
    mergeLoop H fl (.spv r h1 s1 c1 :: .spv r h2 s2 c2 :: rest) =
      mergeLoop H fl (.spv (2 * r) (H h1 h2) (if fl.spvPlaceholderCarriesHash then H h1 h2 else s1) (c1 ++ c2) :: rest) := by
  simp [mergeLoop_cons_cons, mergeable, merged, hs]

theorem mergeLoop_skip (H : α → α → α) (fl : Flags) (a b : Entry α) (rest : List (Entry α)) (hm : mergeable a b = false) :
    mergeLoop H fl (a :: b :: rest) = a :: b :: mergeLoop H fl rest := by
  simp [mergeLoop_cons_cons, hm]

/-! ### what the loop preserves -/

theorem mergeLoop_full? (H : α → α → α) (fl : Flags) (l : List (Entry α)) :
    (mergeLoop H fl l).filterMap Entry.full? = l.filterMap Entry.full? := by
  induction l using mergeLoop_induct H fl with
  | hnil => rfl
  | hone a => rfl
  | hsib hs r h1 s1 c1 h2 s2 c2 rest ih => rw [mergeLoop_sib H fl hs]; simp [List.filterMap_cons, Entry.full?, ih]
  | hpin hs r h1 s1 c1 h2 s2 c2 rest ih => rw [mergeLoop_pin H fl hs, ih]; simp [List.filterMap_cons, Entry.full?]
  | hskip a b rest hm ih => rw [mergeLoop_skip H fl a b rest hm]; simp [List.filterMap_cons, ih]

theorem mergeLoop_covers (H : α → α → α) (fl : Flags) (l : List (Entry α)) :
    (mergeLoop H fl l).flatMap Entry.covers = l.flatMap Entry.covers := by
  induction l using mergeLoop_induct H fl with
  | hnil => rfl
  | hone a => rfl
  | hsib hs r h1 s1 c1 h2 s2 c2 rest ih => rw [mergeLoop_sib H fl hs]; simp [Entry.covers, ih]
  | hpin hs r h1 s1 c1 h2 s2 c2 rest ih => rw [mergeLoop_pin H fl hs, ih]; simp [Entry.covers]
  | hskip a b rest hm ih => rw [mergeLoop_skip H fl a b rest hm]; simp [ih]

theorem mergeLoop_counts (H : α → α → α) (fl : Flags) (l : List (Entry α))
    (h : ∀ e ∈ l, e.width = e.covers.length) :
    ∀ e ∈ mergeLoop H fl l, e.width = e.covers.length := by
  induction l using mergeLoop_induct H fl with
  | hnil => simp [mergeLoop_nil]
  | hone a => simpa [mergeLoop_single] using h
  | hsib hs r h1 s1 c1 h2 s2 c2 rest ih =>
    rw [mergeLoop_sib H fl hs]
    simp only [List.mem_cons, forall_eq_or_imp, Entry.width, Entry.covers] at h ⊢
    refine ⟨by simp; omega, ih h.2.2⟩
  | hpin hs r h1 s1 c1 h2 s2 c2 rest ih =>
    rw [mergeLoop_pin H fl hs]
    apply ih
    simp only [List.mem_cons, forall_eq_or_imp, Entry.width, Entry.covers] at h ⊢
    exact ⟨by simp; omega, h.2.2⟩
  | hskip a b rest hm ih =>
    rw [mergeLoop_skip H fl a b rest hm]
    simp only [List.mem_cons, forall_eq_or_imp] at h ⊢
    exact ⟨h.1, h.2.1, ih h.2.2⟩

theorem mergeLoop_anySpv (H : α → α → α) (fl : Flags) (l : List (Entry α)) :
    (mergeLoop H fl l).any Entry.isSpv = l.any Entry.isSpv := by
  induction l using mergeLoop_induct H fl with
  | hnil => rfl
  | hone a => rfl
  | hsib hs r h1 s1 c1 h2 s2 c2 rest ih => rw [mergeLoop_sib H fl hs]; simp [Entry.isSpv]
  | hpin hs r h1 s1 c1 h2 s2 c2 rest ih => rw [mergeLoop_pin H fl hs, ih]; simp [Entry.isSpv]
  | hskip a b rest hm ih => rw [mergeLoop_skip H fl a b rest hm]; simp [ih]

theorem mergeLoop_length_le (H : α → α → α) (fl : Flags) (l : List (Entry α)) :
    (mergeLoop H fl l).length ≤ l.length := by
  induction l using mergeLoop_induct H fl with
  | hnil => simp [mergeLoop_nil]
  | hone a => simp [mergeLoop_single]
  | hsib hs r h1 s1 c1 h2 s2 c2 rest ih => rw [mergeLoop_sib H fl hs]; simp; omega
  | hpin hs r h1 s1 c1 h2 s2 c2 rest ih => rw [mergeLoop_pin H fl hs]; simp at ih ⊢; omega
  | hskip a b rest hm ih => rw [mergeLoop_skip H fl a b rest hm]; simp; omega

/-- no pair `(l[2j], l[2j+1])` is mergeable -/
def noPairMergeable : List (Entry α) → Bool
  | a :: b :: rest => !mergeable a b && noPairMergeable rest
  | _ => true

theorem mergeLoop_id_of_noPair (H : α → α → α) (fl : Flags) (l : List (Entry α)) (h : noPairMergeable l = true) :
    mergeLoop H fl l = l := by
  induction l using mergeLoop_induct H fl with
  | hnil => rfl
  | hone a => rfl
  | hsib hs r h1 s1 c1 h2 s2 c2 rest ih => simp [noPairMergeable, mergeable] at h
  | hpin hs r h1 s1 c1 h2 s2 c2 rest ih => simp [noPairMergeable, mergeable] at h
  | hskip a b rest hm ih =>
    rw [mergeLoop_skip H fl a b rest hm]
    simp [noPairMergeable] at h
    rw [ih h.2]

theorem mergeLoop_shorter_of_pair (H : α → α → α) (fl : Flags) (l : List (Entry α)) (h : noPairMergeable l = false) :
    (mergeLoop H fl l).length < l.length := by
  induction l using mergeLoop_induct H fl with
  | hnil => simp [noPairMergeable] at h
  | hone a => simp [noPairMergeable] at h
  | hsib hs r h1 s1 c1 h2 s2 c2 rest ih =>
    rw [mergeLoop_sib H fl hs]
    have := mergeLoop_length_le H fl rest
    simp; omega
  | hpin hs r h1 s1 c1 h2 s2 c2 rest ih =>
    rw [mergeLoop_pin H fl hs]
    have := mergeLoop_length_le H fl (.spv (2 * r) (H h1 h2) (if fl.spvPlaceholderCarriesHash then H h1 h2 else s1) (c1 ++ c2) :: rest)
    simp at this ⊢; omega
  | hskip a b rest hm ih =>
    rw [mergeLoop_skip H fl a b rest hm]
    simp [noPairMergeable, hm] at h
    have := ih h
    simp; omega

/-! ### prune -/

theorem prune_cons (fl : Flags) (keep : Tx α → Bool) (t : Tx α) (ts : List (Tx α)) :
    prune fl keep (t :: ts) = (if keep t then .full t else placeholder fl t) :: prune fl keep ts := rfl

theorem prune_full? (fl : Flags) (keep : Tx α → Bool) (txs : List (Tx α)) :
    (prune fl keep txs).filterMap Entry.full? = txs.filter keep := by
  induction txs with
  | nil => rfl
  | cons t ts ih =>
    rw [prune_cons]
    cases hk : keep t <;> simp [List.filterMap_cons, hk, Entry.full?, placeholder, ih]

theorem prune_covers (fl : Flags) (keep : Tx α → Bool) (txs : List (Tx α)) :
    (prune fl keep txs).flatMap Entry.covers = txs.map Tx.idx := by
  induction txs with
  | nil => rfl
  | cons t ts ih =>
    rw [prune_cons]
    cases hk : keep t <;> simp [Entry.covers, placeholder, ih]

theorem prune_counts (fl : Flags) (keep : Tx α → Bool) (txs : List (Tx α)) :
    ∀ e ∈ prune fl keep txs, e.width = e.covers.length := by
  intro e he
  simp only [prune, List.mem_map] at he
  obtain ⟨t, _, rfl⟩ := he
  cases keep t <;> simp [Entry.width, Entry.covers, placeholder]

theorem prune_anySpv (fl : Flags) (keep : Tx α → Bool) (txs : List (Tx α)) :
    (prune fl keep txs).any Entry.isSpv = txs.any (fun t => !keep t) := by
  induction txs with
  | nil => rfl
  | cons t ts ih =>
    rw [prune_cons]
    cases hk : keep t <;> simp [hk, Entry.isSpv, placeholder, ih]

theorem leaves_prune (fl : Flags) (keep : Tx α → Bool) (txs : List (Tx α)) :
    leavesOf fl (prune fl keep txs) = leavesOf fl (fullEntries txs) := by
  induction txs with
  | nil => rfl
  | cons t ts ih =>
    simp only [leavesOf, prune, fullEntries, List.map_cons, List.flatMap_cons] at ih ⊢
    rw [ih]
    cases keep t <;> simp [Entry.leaves, placeholder]

theorem leaves_full (fl : Flags) (txs : List (Tx α)) :
    leavesOf fl (fullEntries txs) = txs.map fun t => (t.hash, 1) := by
  induction txs with
  | nil => rfl
  | cons t ts ih =>
    simp only [leavesOf, fullEntries, List.map_cons, List.flatMap_cons] at ih ⊢
    rw [ih]; simp [Entry.leaves]

theorem noPair_prune (fl : Flags) (keep : Tx α → Bool) (txs : List (Tx α)) :
    noPairMergeable (prune fl keep txs) = noSiblingPairOmitted (txs.map keep) := by
  match txs with
  | [] => rfl
  | [t] => simp [prune, noPairMergeable, noSiblingPairOmitted]
  | t :: u :: rest =>
    have ih := noPair_prune fl keep rest
    simp only [prune, List.map_cons, noPairMergeable, noSiblingPairOmitted] at ih ⊢
    rw [ih]
    cases keep t <;> cases keep u <;> simp [mergeable, placeholder]

theorem noSib_of_all : ∀ (l : List Bool), (∀ b ∈ l, b = true) → noSiblingPairOmitted l = true
  | [], _ => rfl
  | [_], _ => rfl
  | a :: b :: rest, h => by
    simp only [noSiblingPairOmitted, Bool.and_eq_true, Bool.or_eq_true]
    exact ⟨Or.inl (h a (by simp)), noSib_of_all rest (fun x hx => h x (by simp [hx]))⟩

/-! ### the tree -/

theorem levelUp_heavy (H : α → α → α) (a : α) (w : Nat) (l : List (α × Nat)) (hw : 1 < w) :
    levelUp H ((a, w) :: l) = (a, w / 2) :: levelUp H l := by
  cases l with
  | nil => simp [levelUp, hw]
  | cons b l => obtain ⟨b, v⟩ := b; simp [levelUp, hw]

theorem levelUp_pair (H : α → α → α) (a b : α) (w v : Nat) (l : List (α × Nat)) (hw : w ≤ 1) (hv : v ≤ 1) :
    levelUp H ((a, w) :: (b, v) :: l) = (H a b, 1) :: levelUp H l := by
  have h1 : ¬ (1 < w) := by omega
  have h2 : ¬ (1 < v) := by omega
  simp [levelUp, h1, h2]

theorem iter_succ {β : Type} (f : β → β) (n : Nat) (x : β) : iter f (n + 1) x = iter f n (f x) := rfl

theorem totalWeight_nil : totalWeight ([] : List (α × Nat)) = 0 := rfl
theorem totalWeight_cons (p : α × Nat) (l : List (α × Nat)) : totalWeight (p :: l) = max p.2 1 + totalWeight l := by
  simp [totalWeight]

theorem totalWeight_eq_zero {l : List (α × Nat)} (h : totalWeight l = 0) : l = [] := by
  cases l with
  | nil => rfl
  | cons p l => rw [totalWeight_cons] at h; omega

theorem totalWeight_append (l m : List (α × Nat)) : totalWeight (l ++ m) = totalWeight l + totalWeight m := by
  simp [totalWeight]

/-- two leaf lists with the same weight and the same first level have the same root -/
theorem rootW_congr (H : α → α → α) (l m : List (α × Nat)) (hw : totalWeight l = totalWeight m)
    (hl : levelUp H l = levelUp H m) : rootW H l = rootW H m := by
  unfold rootW
  rw [hw]
  cases hn : totalWeight m with
  | zero =>
    have := totalWeight_eq_zero hn
    have := totalWeight_eq_zero (hw.trans hn)
    subst_vars; rfl
  | succ n => rw [iter_succ, iter_succ, hl]

/-! ### the repaired construction -/

/-- an entry that stands for exactly one leaf -/
def Entry.fresh : Entry α → Bool
  | .full _ => true
  | .spv r _ _ _ => r == 1

def Entry.hashOf : Entry α → α
  | .full t => t.hash
  | .spv _ h _ _ => h

theorem leaves_fresh (fl : Flags) (e : Entry α) (h : e.fresh = true) : e.leaves fl = [(e.hashOf, 1)] := by
  cases e with
  | full t => rfl
  | spv r hh s c => simp [Entry.fresh] at h; subst h; simp [Entry.leaves, Entry.hashOf]

theorem leavesOf_cons (fl : Flags) (e : Entry α) (l : List (Entry α)) :
    leavesOf fl (e :: l) = e.leaves fl ++ leavesOf fl l := by simp [leavesOf]

theorem fixed_level (H : α → α → α) (fl : Flags) (h1 : fl.spvSubtreeAsSingleNode = true)
    (h2 : fl.spvMergeSiblingsOnly = true) (l : List (Entry α)) (hf : ∀ e ∈ l, e.fresh = true) :
    levelUp H (leavesOf fl (mergeLoop H fl l)) = levelUp H (leavesOf fl l) ∧
    totalWeight (leavesOf fl (mergeLoop H fl l)) = totalWeight (leavesOf fl l) := by
  induction l using mergeLoop_induct H fl with
  | hnil => exact ⟨rfl, rfl⟩
  | hone a => exact ⟨rfl, rfl⟩
  | hsib hs r ha s1 c1 hb s2 c2 rest ih =>
    simp only [List.mem_cons, forall_eq_or_imp, Entry.fresh, beq_iff_eq] at hf
    obtain ⟨hr, _, hrest⟩ := hf
    subst hr
    have ih := ih hrest
    rw [mergeLoop_sib H fl hs]
    simp only [leavesOf_cons, Entry.leaves, h1]
    simp only [Nat.mul_one, Nat.lt_irrefl, ↓reduceIte, List.cons_append, List.nil_append,
      show (1 < 2) = True from by simp]
    rw [levelUp_heavy H _ 2 _ (by omega), levelUp_pair H _ _ 1 1 _ (by omega) (by omega), ih.1]
    refine ⟨rfl, ?_⟩
    simp only [totalWeight_cons, ih.2]; omega
  | hpin hs => simp [h2] at hs
  | hskip a b rest hm ih =>
    simp only [List.mem_cons, forall_eq_or_imp] at hf
    obtain ⟨fa, fb, hrest⟩ := hf
    have ih := ih hrest
    rw [mergeLoop_skip H fl a b rest hm]
    simp only [leavesOf_cons, leaves_fresh fl a fa, leaves_fresh fl b fb, List.cons_append, List.nil_append]
    rw [levelUp_pair H _ _ 1 1 _ (by omega) (by omega), levelUp_pair H _ _ 1 1 _ (by omega) (by omega), ih.1]
    refine ⟨rfl, ?_⟩
    simp only [totalWeight_cons, ih.2]

theorem prune_fresh (fl : Flags) (keep : Tx α → Bool) (txs : List (Tx α)) : ∀ e ∈ prune fl keep txs, e.fresh = true := by
  intro e he
  simp only [prune, List.mem_map] at he
  obtain ⟨t, _, rfl⟩ := he
  cases keep t <;> simp [Entry.fresh, placeholder]

end Saito.Merkle
