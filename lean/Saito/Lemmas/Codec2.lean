import Saito.Model.Codec2
import Saito.Lemmas.CodecTotal
/-! Round trip and totality of the block decoder and of the message layer. -/
namespace Saito

theorem take_append_len {α} (a b : List α) (n : Nat) (h : a.length = n) : (a ++ b).take n = a := by
  subst h; simp
theorem drop_append_len {α} (a b : List α) (n : Nat) (h : a.length = n) : (a ++ b).drop n = b := by
  subst h; simp

theorem encU64s_length (l : List UInt64) : (encU64s l).length = 8 * l.length := by
  induction l with
  | nil => simp [encU64s]
  | cons x l ih =>
    simp only [encU64s, List.map_cons, List.flatten_cons, List.length_append, toBE_length, List.length_cons] at *
    omega

theorem decU64s_enc (l : List UInt64) (r : Bytes) : decU64s l.length (encU64s l ++ r) = l := by
  induction l with
  | nil => simp [decU64s]
  | cons x l ih =>
    simp only [encU64s, List.map_cons, List.flatten_cons, List.length_cons, decU64s, List.append_assoc] at *
    rw [take_append_len _ _ 8 (toBE_length _ _), drop_append_len _ _ 8 (toBE_length _ _), u64_toBE, ih]

theorem wireNums_roundtrip (nums : List UInt64) (h : nums.length = 25) :
    (nums.take 4 ++ (nums.getD 7 0 :: nums.drop 4)).take 4 ++ (nums.take 4 ++ (nums.getD 7 0 :: nums.drop 4)).drop 5 = nums := by
  have h4 : (nums.take 4).length = 4 := by simp [h]
  rw [take_append_len _ _ 4 h4]
  have : (nums.take 4 ++ (nums.getD 7 0 :: nums.drop 4)).drop 5 = nums.drop 4 := by
    rw [show (5 : Nat) = 4 + 1 from rfl, ← List.drop_drop, drop_append_len _ _ 4 h4]
    simp
  rw [this, List.take_append_drop]

theorem encTxs_length_ge (t : Tx) (h : t.wf) : 93 ≤ t.encode.length := by
  rw [Tx.encode_length t h]; unfold Tx.size TX_SIZE; omega

/-- the four length fields at the head of an encoded transaction -/
theorem Tx.encode_head (t : Tx) (h : t.wf) : ∃ tail,
    t.encode = toBE 4 t.from_.length ++ (toBE 4 t.to.length ++ (toBE 4 t.data.length ++ (toBE 4 t.path.length ++ tail))) := by
  obtain ⟨_, _, h3, h4, _⟩ := h
  unfold Tx.encode
  rw [if_neg (by omega), if_neg (by omega)]
  exact ⟨_, rfl⟩

theorem decBlockTxs_enc (fl : CodecFlags) (l : List Tx) (h : ∀ t ∈ l, t.wf) (r : Bytes) :
    decBlockTxs fl l.length (encTxs l ++ r) = .ok l := by
  induction l with
  | nil => simp [decBlockTxs]
  | cons t l ih =>
    have ht := h t (List.mem_cons_self ..)
    have ihl := ih (fun x hx => h x (List.mem_cons_of_mem _ hx))
    have hlen := Tx.encode_length t ht
    have hge := encTxs_length_ge t ht
    obtain ⟨tail, htail⟩ := Tx.encode_head t ht
    obtain ⟨h1, h2, h3, h4, h5, h6, h7, h8, h9⟩ := ht
    simp only [encTxs, List.map_cons, List.flatten_cons, List.length_cons, List.append_assoc] at *
    unfold decBlockTxs
    have hlen16 : ¬ (t.encode ++ ((List.map Tx.encode l).flatten ++ r)).length < 16 := by
      simp only [List.length_append]; omega
    rw [if_neg hlen16]
    have e1 : (t.encode ++ ((List.map Tx.encode l).flatten ++ r)).take 4 = toBE 4 t.from_.length := by
      rw [htail]; simp only [List.append_assoc]; exact take_append_len _ _ 4 (toBE_length _ _)
    have e2 : ((t.encode ++ ((List.map Tx.encode l).flatten ++ r)).drop 4).take 4 = toBE 4 t.to.length := by
      rw [htail]; simp only [List.append_assoc]
      rw [drop_append_len _ _ 4 (toBE_length _ _)]; exact take_append_len _ _ 4 (toBE_length _ _)
    have e3 : ((t.encode ++ ((List.map Tx.encode l).flatten ++ r)).drop 8).take 4 = toBE 4 t.data.length := by
      rw [htail]; simp only [List.append_assoc]
      rw [show (8 : Nat) = 4 + 4 from rfl, ← List.drop_drop, drop_append_len _ _ 4 (toBE_length _ _),
        drop_append_len _ _ 4 (toBE_length _ _)]; exact take_append_len _ _ 4 (toBE_length _ _)
    have e4 : ((t.encode ++ ((List.map Tx.encode l).flatten ++ r)).drop 12).take 4 = toBE 4 t.path.length := by
      rw [htail]; simp only [List.append_assoc]
      rw [show (12 : Nat) = 4 + (4 + 4) from rfl, ← List.drop_drop, ← List.drop_drop, drop_append_len _ _ 4 (toBE_length _ _),
        drop_append_len _ _ 4 (toBE_length _ _), drop_append_len _ _ 4 (toBE_length _ _)]
      exact take_append_len _ _ 4 (toBE_length _ _)
    simp only [e1, e2, e3, e4, fromBE_toBE4 _ (show t.from_.length < 2 ^ 32 by omega),
      fromBE_toBE4 _ (show t.to.length < 2 ^ 32 by omega), fromBE_toBE4 _ h5, fromBE_toBE4 _ h6]
    have hext : txExtent t.from_.length t.to.length t.data.length t.path.length = t.encode.length := by
      rw [hlen]; unfold txExtent Tx.size TX_SIZE SLIP_SIZE HOP_SIZE; omega
    rw [if_neg (by omega), hext, if_neg (by simp only [List.length_append]; omega),
      take_append_len _ _ _ rfl, drop_append_len _ _ _ rfl,
      Tx.decode_encode fl t ⟨h1, h2, h3, h4, h5, h6, h7, h8, h9⟩]
    simp only [Res.bind]
    rw [ihl]

theorem Block.encode_full_length (b : Block) (h : b.wf) :
    (b.encode false).length = 389 + (encTxs b.txs).length := by
  obtain ⟨h1, h2, h3, h4, h5, _⟩ := h
  have hw : b.wireNums.length = 26 := by
    simp [Block.wireNums, h5]
  simp only [Block.encode, Bool.false_eq_true, ↓reduceIte, List.length_append, toBE_length, h1, h2, h3, h4,
    encU64s_length, hw]
  omega

theorem Block.decode_encode (fl : CodecFlags) (b : Block) (h : b.wf) :
    Block.decode fl (b.encode false) = .ok b := by
  have hlen := Block.encode_full_length b h
  obtain ⟨h1, h2, h3, h4, h5, h6, h7, h8⟩ := h
  have hw : b.wireNums.length = 26 := by simp [Block.wireNums, h5]
  unfold Block.decode
  rw [if_neg (by omega)]
  simp only [Block.encode, Bool.false_eq_true, ↓reduceIte]
  rw [takeN_append _ _ _ (toBE_length _ _), takeN_append _ _ _ (toBE_length _ _),
    takeN_append _ _ _ (toBE_length _ _), takeN_append _ _ _ h1, takeN_append _ _ _ h2,
    takeN_append _ _ _ h3, takeN_append _ _ _ h4,
    takeN_append _ _ _ (by rw [encU64s_length, hw])]
  simp only [fromBE_toBE4 _ h6]
  have := decBlockTxs_enc fl b.txs h7 []
  rw [List.append_nil] at this
  rw [this]
  simp only [Res.bind, u64_toBE]
  have hd : decU64s 26 (encU64s b.wireNums) = b.wireNums := by
    have := decU64s_enc b.wireNums []
    rw [List.append_nil, hw] at this
    exact this
  rw [hd]
  have hn := wireNums_roundtrip b.nums h5
  unfold Block.wireNums
  rw [hn]
  have hhd : ((b.txs.length == 0) && !(b.id == 1 && b.prev == zeros 32)) = b.isHeader := by
    rw [h8]
    cases b.txs <;> simp
  rw [hhd]

/-- header-only encoding: the decoded value is the header projection (no transactions) -/
theorem Block.decode_encode_header (fl : CodecFlags) (b : Block) (h : b.wf) :
    Block.decode fl (b.encode true) =
      .ok { b with txs := [], isHeader := !(b.id == 1 && b.prev == zeros 32) } := by
  obtain ⟨h1, h2, h3, h4, h5, h6, h7, h8⟩ := h
  have hw : b.wireNums.length = 26 := by simp [Block.wireNums, h5]
  have hl : (b.encode true).length = 389 := by
    simp only [Block.encode, ↓reduceIte, List.length_append, toBE_length, h1, h2, h3, h4, encU64s_length, hw,
      List.length_nil]
  unfold Block.decode
  rw [if_neg (by omega)]
  simp only [Block.encode, ↓reduceIte]
  rw [takeN_append _ _ _ (toBE_length _ _), takeN_append _ _ _ (toBE_length _ _),
    takeN_append _ _ _ (toBE_length _ _), takeN_append _ _ _ h1, takeN_append _ _ _ h2,
    takeN_append _ _ _ h3, takeN_append _ _ _ h4,
    takeN_append _ _ _ (by rw [encU64s_length, hw])]
  have hz : fromBE (toBE 4 0) = 0 := by decide
  simp only [hz, decBlockTxs, Res.bind, u64_toBE]
  have hd : decU64s 26 (encU64s b.wireNums) = b.wireNums := by
    have := decU64s_enc b.wireNums []
    rw [List.append_nil, hw] at this
    exact this
  rw [hd]
  have hn := wireNums_roundtrip b.nums h5
  unfold Block.wireNums
  rw [hn]
  simp

/-! ### totality -/
theorem take_drop_take {α} (bs : List α) (k m e : Nat) (h : k + m ≤ e) :
    ((bs.take e).drop k).take m = (bs.drop k).take m := by
  rw [List.drop_take, List.take_take, Nat.min_eq_left (by omega)]

theorem txClaimed_take (bs : Bytes) (e : Nat) (h : 16 ≤ e) : txClaimed (bs.take e) = txClaimed bs := by
  unfold txClaimed
  have a := take_drop_take bs 0 4 e (by omega)
  simp only [List.drop_zero] at a
  rw [a, take_drop_take bs 4 4 e (by omega), take_drop_take bs 8 4 e (by omega), take_drop_take bs 12 4 e (by omega)]

theorem decBlockTxs_ne_panic (fl : CodecFlags) (n : Nat) (bs : Bytes) : decBlockTxs fl n bs ≠ .panic := by
  induction n generalizing bs with
  | zero => simp [decBlockTxs]
  | succ n ih =>
    unfold decBlockTxs
    split; · simp
    dsimp only
    split; · simp
    split; · simp
    rename_i h16 _ hext
    apply bind_ne_panic
    · apply Tx.decode_ne_panic_of_extent
      have he : 16 ≤ txClaimed bs := by unfold txClaimed txExtent; omega
      have hfold : txExtent (fromBE (List.take 4 bs)) (fromBE (List.take 4 (List.drop 4 bs)))
          (fromBE (List.take 4 (List.drop 8 bs))) (fromBE (List.take 4 (List.drop 12 bs))) = txClaimed bs := rfl
      rw [hfold] at hext ⊢
      rw [txClaimed_take bs _ he, List.length_take]
      omega
    · intro t _
      apply bind_ne_panic _ _ (ih _)
      intro l _; simp

/-- `Block::deserialize_from_net` never panics — on the pinned tree as well: every transaction slice is
    length-checked before it is handed to the transaction decoder -/
theorem Block.decode_ne_panic (fl : CodecFlags) (bs : Bytes) : Block.decode fl bs ≠ .panic := by
  unfold Block.decode
  split; · simp
  repeat (apply takeN_ne_panic _ _ _ _ (by simp); intro _ _ _ _)
  dsimp only
  apply bind_ne_panic _ _ (decBlockTxs_ne_panic _ _ _)
  intro txs _; simp

end Saito
