-- This module serves as the root of the `Saito` library.
-- Import modules here that should be built as part of the library.
import Saito.Basic
