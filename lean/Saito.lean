import Saito.Model.Bytes
import Saito.Model.Flags
import Saito.Model.Codec
import Saito.Model.Codec2
import Saito.Lemmas.Bytes
import Saito.Lemmas.Codec
import Saito.Lemmas.CodecTotal
