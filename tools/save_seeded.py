#!/usr/bin/env python3
"""tools/save_seeded.py <pid> <n> <mutation dir> <confirm log> <missed 0|1> <detected_by text> [strengthened text]
records a confirmed seeded change as /verif/seeded/<pid>-<n>/ (patch.diff, demo.diff, meta.json)"""
import json, os, re, shutil, sys
pid, n, src, conflog, missed, det = sys.argv[1:7]
stren = sys.argv[7] if len(sys.argv) > 7 else ""
root = os.path.dirname(os.path.dirname(os.path.abspath(__file__)))
dst = os.path.join(root, "seeded", f"{pid}-{n}")
os.makedirs(dst, exist_ok=True)
shutil.copy(os.path.join(src, "patch.diff"), os.path.join(dst, "patch.diff"))
if os.path.exists(os.path.join(src, "demo.diff")):
    shutil.copy(os.path.join(src, "demo.diff"), os.path.join(dst, "demo.diff"))
conf = None
for l in open(conflog):
    if re.match(pid + r" demo_with", l):
        conf = l.strip()
m = json.load(open(os.path.join(src, "meta.json")))
out = {"property": pid, "origin": "independent sub-agent given only the property text and a scratch worktree of /repo (repaired tree)",
       "summary": m.get("summary"), "files_changed": m.get("files_changed"), "needs_to_manifest": m.get("needs_to_manifest"),
       "why_existing_tests_pass": m.get("why_existing_tests_pass"), "demo_command": m.get("demo_command"),
       "confirmed": {"how": "tools/confirm_seeded.sh in the scratch worktree: demo with change must fail, without change must pass, cargo test -p saito-core with change must pass", "result": conf},
       "checks_run": f"tools/try_seeded.sh {pid} seeded/{pid}-{n}/patch.diff  (quick tier, scratch copy of /repo via VERIF_REPO; /repo itself untouched)",
       "detected_by": [det], "initially_missed": missed == "1"}
if stren:
    out["strengthened"] = stren
json.dump(out, open(os.path.join(dst, "meta.json"), "w"), indent=1)
print("saved", dst, "confirmed:", conf is not None)
