#!/usr/bin/env python3
"""tools/integrate.py <agent-verif-dir> <base-commit> : merge a sub-agent's private copy of /verif back (3-way)."""
import os, sys, subprocess, json, shutil, filecmp
A, BASE = sys.argv[1].rstrip('/'), sys.argv[2]
V = '/verif'
SKIP_DIRS = ('.cache', '.git', 'replays', 'evidence', 'lean/.lake', 'harness/target', 'extract/target', '__pycache__', 'checklib/__pycache__')
SKIP_FILES = ('MANIFEST.json', 'known_findings.json', 'harness/Cargo.lock', 'lean/lake-manifest.json', 'lean/Saito/Gen/Locks.lean',
              'lean/Saito/Gen/Layout.lean', 'lean/Saito/Gen/Tags.lean', 'lean/Saito/Gen/Consts.lean')
def base(path):
    r = subprocess.run(['git', '-C', V, 'show', f'{BASE}:{path}'], capture_output=True)
    return r.stdout if r.returncode == 0 else None
new, taken, merged, conflicts = [], [], [], []
for root, dirs, files in os.walk(A):
    rel_root = os.path.relpath(root, A)
    dirs[:] = [d for d in dirs if not any(os.path.normpath(os.path.join(rel_root, d)) == s or os.path.normpath(os.path.join(rel_root, d)).startswith(s + '/') for s in SKIP_DIRS)]
    for f in files:
        rel = os.path.normpath(os.path.join(rel_root, f))
        if rel in SKIP_FILES or rel.endswith('.pyc'):
            continue
        src, dst = os.path.join(A, rel), os.path.join(V, rel)
        if not os.path.exists(dst):
            os.makedirs(os.path.dirname(dst), exist_ok=True); shutil.copy2(src, dst); new.append(rel); continue
        if filecmp.cmp(src, dst, shallow=False):
            continue
        if rel in ('harness/src/main.rs', 'lean/Driver/Main.lean'):
            b = base(rel).decode().splitlines()
            added = [l for l in open(src).read().splitlines() if l not in b and l.strip()]
            cur = open(dst).read().splitlines()
            added = [l for l in added if l not in cur]
            if rel.endswith('main.rs'):
                mods = [l for l in added if l.startswith('mod ')]
                arms = [l for l in added if not l.startswith('mod ')]
                last_mod = max(i for i, l in enumerate(cur) if l.startswith('mod '))
                cur[last_mod + 1:last_mod + 1] = mods
                k = next(i for i, l in enumerate(cur) if l.strip().startswith('_ => {'))
                cur[k:k] = arms
            else:
                imps = [l for l in added if l.startswith('import ')]
                arms = [l for l in added if not l.startswith('import ')]
                last_imp = max(i for i, l in enumerate(cur) if l.startswith('import '))
                cur[last_imp + 1:last_imp + 1] = imps
                k = next(i for i, l in enumerate(cur) if l.strip().startswith('| _ =>'))
                cur[k:k] = arms
            open(dst, 'w').write('\n'.join(cur) + '\n'); merged.append(rel + f' (+{len(added)} lines)'); continue
        b = base(rel)
        if b is None:
            conflicts.append(rel + ' (no base)'); continue
        if open(src, 'rb').read() == b:
            continue  # agent did not change it
        if open(dst, 'rb').read() == b:
            shutil.copy2(src, dst); taken.append(rel); continue
        open('/tmp/_base', 'wb').write(b)
        r = subprocess.run(['git', 'merge-file', '-p', dst, '/tmp/_base', src], capture_output=True)
        if r.returncode == 0:
            open(dst, 'wb').write(r.stdout); merged.append(rel)
        else:
            open(dst + '.conflict', 'wb').write(r.stdout); conflicts.append(rel)
# known findings: append entries of properties/keys not yet present
ka = json.load(open(os.path.join(A, 'known_findings.json')))['findings']
kb = json.loads(base('known_findings.json'))['findings']
kv = json.load(open(os.path.join(V, 'known_findings.json')))
have = {(f['property'], f['key']) for f in kv['findings']}
basekeys = {(f['property'], f['key']) for f in kb}
added = [f for f in ka if (f['property'], f['key']) not in have and (f['property'], f['key']) not in basekeys]
kv['findings'] += added
json.dump(kv, open(os.path.join(V, 'known_findings.json'), 'w'), indent=1, ensure_ascii=False)
print('new:', len(new)); [print('  ', x) for x in new[:40]]
print('taken:', taken); print('merged:', merged); print('CONFLICTS:', conflicts[:20]); print('known findings added:', [(f['property'], f['key']) for f in added])
