#!/bin/bash
# usage: tools/try_seeded.sh <property id> <patch.diff> [more property ids...]
# Applies a seeded change to a scratch copy of /repo (never to /repo itself) and runs the property's quick check
# against that copy (VERIF_REPO). Prints the VIOLATION lines and exit status.
# Every tried tree leaves its own build of saito-core in .cache/target-alt (about 0.6 GB each): remove that directory after a batch.
set -u
PID=$1; PATCH=$(readlink -f "$2"); shift 2
S=/tmp/seedtry/$PID.$$
mkdir -p /tmp/seedtry && rm -rf $S && rsync -a --exclude target --exclude .git /repo/ $S/ || exit 3
( cd $S && patch -p1 --quiet < $PATCH ) || { echo "patch does not apply"; rm -rf $S; exit 3; }
cd "$(cd "$(dirname "$0")/.." && pwd)"
for P in $PID "$@"; do
  VERIF_REPO=$S ./check $P --tier quick > /tmp/seedtry/$P.$$.log 2>&1; rc=$?
  echo "== $P exit=$rc"; grep -E "^VIOLATION|^KNOWN-FINDING|tier=" /tmp/seedtry/$P.$$.log | cut -c1-260
done
rm -rf $S
# restore generated tables to those of /repo (TRY_NO_RESTORE=1: the caller does it once at the end of a batch)
[ -n "${TRY_NO_RESTORE:-}" ] || ./check C20 --tier quick > /dev/null 2>&1
