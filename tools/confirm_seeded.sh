#!/bin/bash
# usage: tools/confirm_seeded.sh <worktree> <property> <demo args after 'cargo test -p saito-core --offline'>
# Confirms a seeded change independently: demo fails with it, passes without it, the existing saito-core suite passes with it.
W=$1; P=$2; shift 2
cd $W || exit 2
L=$W/_mutation/confirm.log; : > $L
git reset -q --hard HEAD ; git clean -qfd -e _mutation -e target
git apply _mutation/patch.diff && git apply _mutation/demo.diff || { echo "apply failed" | tee -a $L; exit 2; }
CARGO_NET_OFFLINE=true cargo test -p saito-core --offline "$@" -- --test-threads 1 > $W/_mutation/confirm_demo_with.log 2>&1; a=$?
git apply -R _mutation/patch.diff
CARGO_NET_OFFLINE=true cargo test -p saito-core --offline "$@" -- --test-threads 1 > $W/_mutation/confirm_demo_without.log 2>&1; b=$?
git reset -q --hard HEAD ; git clean -qfd -e _mutation -e target
git apply _mutation/patch.diff
CARGO_NET_OFFLINE=true cargo test -p saito-core --offline -- --test-threads 8 > $W/_mutation/confirm_suite_with.log 2>&1; c=$?
echo "$P demo_with_change_exit=$a demo_without_change_exit=$b suite_with_change_exit=$c $(grep -h 'test result' $W/_mutation/confirm_suite_with.log | head -1)" | tee -a $L
