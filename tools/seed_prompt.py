#!/usr/bin/env python3
"""usage: tools/seed_prompt.py <round dir under /tmp> <property id>...
Writes <round dir>/<id>.prompt.txt (the complete task of an independent sub-agent that seeds a breaking change; it is told the
property text only, nothing of /verif) and creates a detached scratch worktree of /repo at <round dir>/<id>.
The sites used by earlier seeded changes of the same property are named so that the new change lands elsewhere."""
import json, subprocess, sys, os, glob
T = '''You are a careful adversarial engineer. You have your own scratch git worktree of the Rust repository SaitoTech/saito-rust-workspace (a blockchain node: longest-chain fork choice with UTXO wind/unwind, block/transaction wire formats, mempool, peer sync) at {wt} . Work ONLY inside {wt} (never touch /repo or /verif; do not read anything under /verif). No network is available; cargo works offline (`cargo build --offline`, `cargo test -p saito-core --offline -- --test-threads 4`; the first build takes a few minutes; other builds run in parallel on this machine, so it may be slower).

The repository is supposed to satisfy this semantic property:

  Title: {title}
  Statement: {statement}
  Quantifier: {quant}

YOUR TASK: produce ONE realistic source change to the repository (a plausible refactoring slip, optimisation, "simplification", off-by-one, wrong condition, reordered statements, forgotten update on one code path, or two cooperating sites that each look fine alone — the kind of thing a real commit could introduce) that BREAKS this property while
  (a) the workspace still compiles, and
  (b) the existing test suite still passes (run `cargo test -p saito-core --offline -- --test-threads 4` before and after; tests that already fail or are flaky WITHOUT your change do not count — run the unmodified suite first to learn which those are), and
  (c) the breakage needs something SPECIFIC to manifest — a particular multi-step sequence of operations, a particular interleaving or arrival order, an unusual but legal input (boundary count, extreme value, specific field combination), a fault at a particular point — NOT something ordinary use or the first smoke test would expose at once.
Important: the code may ALREADY violate the property in some ways; your change must introduce a NEW, different violation (one that does not occur without your change). Keep the change small (ideally < 30 changed lines) and do not touch test code except for adding your demonstration.
{avoid}
Also write a DEMONSTRATION that fails WITH your change and passes WITHOUT it: preferably a new Rust test (e.g. a `#[test]`/`#[tokio::test]` in a new file or module clearly marked as the demonstration) that exercises the real code and asserts the property on the specific scenario. Run it both ways and record the outputs.

Deliver, in the directory {wt}/_mutation/ (create it):
  - patch.diff      : `git diff` of the source change ONLY (without the demonstration), applicable with `git apply` at the repository root
  - demo.diff       : `git diff` adding only the demonstration (applicable on top of either tree)
  - demo_args.txt   : the arguments that select the demonstration after `cargo test -p saito-core --offline` (e.g. the test name)
  - meta.json       : {{"property": "{pid}", "summary": "...", "files_changed": [...], "needs_to_manifest": "...", "why_existing_tests_pass": "...", "commands_run": [...], "demo_result_with_change": "...", "demo_result_without_change": "..."}}
Make sure patch.diff really applies to a clean checkout (`git apply -R --check _mutation/patch.diff` on your changed tree, or `git apply --check` in a scratch copy; do NOT use `git stash`: the stash is shared between all worktrees of this repository and other people work in them), then leave the worktree with your change applied.

Reply with a short summary: what you changed, what is needed for it to manifest, and the evidence (test results before/after, demo fails with / passes without).'''
def main():
    rd = sys.argv[1]; os.makedirs(rd, exist_ok=True)
    props = {json.loads(l)['id']: json.loads(l) for l in open(os.path.join(os.path.dirname(__file__), '..', 'properties.jsonl'))}
    for pid in sys.argv[2:]:
        p = props[pid]; used = []
        for m in sorted(glob.glob(os.path.join(os.path.dirname(__file__), '..', 'seeded', pid + '-*', 'meta.json'))):
            d = json.load(open(m)); used.append('   - ' + ', '.join(d.get('files_changed', [])) + ': ' + d.get('summary', '')[:220].replace('\n', ' '))
        avoid = ''
        if used:
            avoid = ('Earlier experiments already used the following spots; choose a DIFFERENT place and a different mechanism '
                     '(another function, another code path, another kind of slip):\n' + '\n'.join(used) + '\n')
        wt = os.path.join(rd, pid)
        open(os.path.join(rd, pid + '.prompt.txt'), 'w').write(T.format(wt=wt, title=p['title'], statement=p['statement'], quant=p['quantifier']['text'], pid=pid, avoid=avoid))
        subprocess.run(['git', '-C', '/repo', 'worktree', 'add', '--detach', wt, 'HEAD'], capture_output=True)
        print('prepared', wt)
main()
