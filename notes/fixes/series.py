#!/usr/bin/env python3
"""apply the fix series to a git tree (arg 1), one commit per fix"""
import subprocess, sys, os
tree = sys.argv[1]
os.chdir(tree)
def sh(*a):
    subprocess.run(a, check=True)
def commit(msg):
    sh('git', 'add', '-A')
    sh('git', '-c', 'user.name=builder', '-c', 'user.email=builder@localhost', 'commit', '-q', '-m', msg)
def sub(path, old, new, count=1):
    s = open(path).read()
    assert s.count(old) == count, (path, s.count(old), old[:70])
    open(path, 'w').write(s.replace(old, new))

N = '/verif/notes/fixes/'
diffs = [
 ('F1-tx-verdict.diff', "fix: reject a block when one of its transactions does not validate\n\nBlock::validate computed the verdict of every transaction but the closure went on\nand returned true, so a block containing an invalid transaction (for example one\nspending an output that does not exist) was accepted. Return false as soon as a\ntransaction fails validation."),
 ('F2-merkle.diff', "fix: always compare the merkle root of a full block\n\nThe merkle root check in Block::validate was skipped for blocks that carry a\nmerkle root already. Recompute and compare it for every full block."),
 ('F3-ringitem.diff', "fix: clear the longest-chain position of a ring item when its block is deleted\n\nRingItem::delete_block left lc_pos pointing at index 0 after removing the block\nthat was marked as longest chain, so an unrelated block at that height was treated\nas being on the longest chain. Reset lc_pos to None instead."),
 ('F4-dup-inputs.diff', "fix: reject a transaction that lists the same input twice\n\nThe duplicate-input check in Transaction::validate compared the length of a list\nwith the length of the list it was built from, so it never fired and a transaction\ncould count one output several times. Compare the number of distinct keys of the\ninputs that carry value with the number of such inputs."),
 ('F5-tx-decoder-bounds.diff', "fix: check the claimed lengths before slicing in Transaction::deserialize_from_net\n\nA buffer whose slip counts, message length or path length exceed the bytes that\nare present made the decoder panic with a slice out of range. Return an error."),
 ('F6-drop-peers.diff', "fix: release the peer lock before requesting the blockchain in handle_handshake_response\n\nThe peers write lock was still held while the blockchain lock was taken, which\ninverts the documented lock order (blockchain before peers) and can deadlock with\nthe consensus thread. Drop the guard first."),
 ('F7-fee-tx-count.diff', "fix: a block must carry exactly one fee transaction with a golden ticket and none without\n\nBlock::validate only compared the last fee transaction. Additional fee\ntransactions, or a fee transaction in a block without a golden ticket, were\naccepted and paid out."),
 ('F8-wallet-unwind.diff', "fix: restore a wallet slip with its own coordinates when a spend is unwound\n\nWhen a block spending one of our slips was unwound the slip was re-added with the\nblock id and transaction ordinal of the unwound block instead of those of the slip,\nso the restored slip pointed at an output that does not exist."),
 ('F9-wind-failure-restores.diff', "fix: wind the old chain back when winding the new chain fails\n\nAfter a wind failure Blockchain::validate kept passing the new chain to\nwind_chain and unwind_chain, so the loop wound the same blocks again and never\nreturned. Swap the roles of the two chains once a failure has been recorded, keep\nthe failure flag while the old chain is restored, and stop if the old chain is\nempty or does not validate any more."),
]
for f, msg in diffs:
    sh('git', 'apply', N + f)
    commit(msg)

rt = 'saito-core/src/core/routing_thread.rs'
sub(rt, '''            Message::Block(_) => {
                error!("received block message");
                unreachable!();
            }''', '''            Message::Block(_) => {
                // blocks are fetched over http, never pushed as messages. ignore the message
                warn!(
                    "received block message from peer : {:?}. ignoring",
                    peer_index
                );
            }''')
commit("fix: ignore a Block message from a peer instead of panicking\n\nA peer sending a message with the Block tag reached unreachable!() in the routing\nthread and took the node down.")
sub(rt, '''                self.network
                    .handle_received_key_list(peer_index, key_list)
                    .await
                    .unwrap();''', '''                if let Err(e) = self
                    .network
                    .handle_received_key_list(peer_index, key_list)
                    .await
                {
                    warn!(
                        "failed handling key list from peer : {:?}. {:?}",
                        peer_index, e
                    );
                }''')
commit("fix: do not unwrap the result of handle_received_key_list\n\nThe rate limiter returns an error once a peer sends too many key lists, and the\nrouting thread unwrapped it.")
sub(rt, '''            let peer = peers.find_peer_by_index(peer_index).unwrap();
            peer_key_list.push(peer.public_key.unwrap());
            peer_key_list.append(&mut peer.key_list.clone());''', '''            let peer = peers.find_peer_by_index(peer_index);
            if peer.is_none() || peer.unwrap().public_key.is_none() {
                warn!(
                    "ghost chain requested by peer : {:?} which has not completed the handshake",
                    peer_index
                );
                return;
            }
            let peer = peer.unwrap();
            peer_key_list.push(peer.public_key.unwrap());
            peer_key_list.append(&mut peer.key_list.clone());''')
commit("fix: refuse a ghost chain request from a peer without a public key\n\nA peer that has not completed the handshake has no public key yet, and the request\nhandler unwrapped it.")
sub('saito-core/src/core/consensus/peers/peer.rs', '''        if self.public_key.is_some() {
            assert_eq!(
                response.public_key,
                self.public_key.unwrap(),
                "This peer instance is to handle a peer with a different public key"
            );
        }
''', '''        if self.public_key.is_some() && self.public_key.unwrap() != response.public_key {
            warn!(
                "peer : {:?} answered the handshake with a different public key than the one expected",
                self.index
            );
            self.mark_as_disconnected(current_time);
            io_handler.disconnect_from_peer(self.index).await?;
            return Err(Error::from(ErrorKind::InvalidInput));
        }
''')
commit("fix: refuse a handshake response under a different key instead of asserting\n\nA peer that was challenged again could answer with a valid signature of another\nkey and hit the assert_eq in handle_handshake_response. Treat it like every other\nfailed check: disconnect the peer and return an error.")
sub('saito-core/src/core/consensus/golden_ticket.rs', '''#[serde_with::serde_as]
#[derive(Serialize, Deserialize, Debug, Clone)]
pub struct GoldenTicket {''', '''/// size of a serialized golden ticket (target + random + public key)
pub const GOLDEN_TICKET_SIZE: usize = 97;

#[serde_with::serde_as]
#[derive(Serialize, Deserialize, Debug, Clone)]
pub struct GoldenTicket {''')
sub('saito-core/src/core/consensus/block.rs', '''                TransactionType::GoldenTicket => {
                    has_golden_ticket = true;
                    golden_ticket_index = i as u64;
                }
                TransactionType::ATR => {
                    let mut vbytes: Vec<u8> = vec![];''', '''                TransactionType::GoldenTicket => {
                    if transaction.data.len() != GOLDEN_TICKET_SIZE {
                        warn!(
                            "golden ticket in block {} has an invalid length : {}",
                            self.id,
                            transaction.data.len()
                        );
                        return Err(Error::new(
                            ErrorKind::InvalidData,
                            "invalid golden ticket",
                        ));
                    }
                    has_golden_ticket = true;
                    golden_ticket_index = i as u64;
                }
                TransactionType::ATR => {
                    let mut vbytes: Vec<u8> = vec![];''')
sub('saito-core/src/core/consensus/mempool.rs', '''    pub async fn add_golden_ticket(&mut self, golden_ticket: Transaction) {
        let gt = GoldenTicket::deserialize_from_net(&golden_ticket.data);''', '''    pub async fn add_golden_ticket(&mut self, golden_ticket: Transaction) {
        if golden_ticket.data.len() != GOLDEN_TICKET_SIZE {
            warn!(
                "golden ticket has an invalid length : {}. not adding to mempool",
                golden_ticket.data.len()
            );
            return;
        }
        let gt = GoldenTicket::deserialize_from_net(&golden_ticket.data);''')
for p in ['saito-core/src/core/consensus/block.rs', 'saito-core/src/core/consensus/mempool.rs']:
    sub(p, 'use crate::core::consensus::golden_ticket::GoldenTicket;', 'use crate::core::consensus::golden_ticket::{GoldenTicket, GOLDEN_TICKET_SIZE};')
commit("fix: reject golden ticket transactions whose payload is not 97 bytes\n\nGoldenTicket::deserialize_from_net asserts on the length of its input. A golden\nticket transaction with a shorter or longer payload, received on its own or inside\na block, crashed the node in Mempool::add_golden_ticket or while the block was\nvalidated. Check the length in Block::generate and in add_golden_ticket.")
sub('saito-core/src/core/verification_thread.rs', '''        block.generate().unwrap();
''', '''        if block.generate().is_err() {
            warn!(
                "failed generating block data for block with buffer length : {:?}",
                buffer_len
            );
            let mut peers = self.peer_lock.write().await;
            if let Some(peer) = peers.find_peer_by_index_mut(peer_index) {
                peer.invalid_block_limiter.increase();
            }
            return;
        }
''')
commit("fix: do not unwrap block.generate() for a fetched block\n\nBlock::generate returns an error for a block in which two transactions spend the\nsame input. The verification thread unwrapped that error for blocks fetched from\npeers. Count the block as invalid for the peer and drop it.")
sub('saito-core/src/core/io/network.rs', '''        if transaction
            .from
            .first()
            .expect("from slip should exist")
            .public_key
            == public_key
        {''', '''        if transaction
            .from
            .first()
            .is_some_and(|slip| slip.public_key == public_key)
        {''')
commit("fix: propagate_transaction copes with a transaction without inputs\n\nA pooled transaction without input slips made propagate_transaction panic on\nexpect(\"from slip should exist\").")
sub('saito-core/src/core/msg/message.rs', '''            10 => Ok(Message::GhostChain(GhostChainSync::deserialize(buffer))),''', '''            10 => {
                // 32 bytes start hash + 4 bytes count + 82 bytes per entry
                if buffer.len() < 36 {
                    warn!(
                        "buffer size : {:?} is not valid for type : {:?}",
                        buffer.len(),
                        message_type
                    );
                    return Err(Error::from(ErrorKind::InvalidData));
                }
                let count = u32::from_be_bytes(buffer[32..36].try_into().unwrap()) as usize;
                if count
                    .checked_mul(82)
                    .and_then(|len| len.checked_add(36))
                    .map_or(true, |len| len > buffer.len())
                {
                    warn!(
                        "buffer size : {:?} is too short for entry count : {:?} for type : {:?}",
                        buffer.len(),
                        count,
                        message_type
                    );
                    return Err(Error::from(ErrorKind::InvalidData));
                }
                Ok(Message::GhostChain(GhostChainSync::deserialize(buffer)))
            }''')
commit("fix: check the size of a ghost chain message before decoding it\n\nGhostChainSync::deserialize slices its input without any length check, so a short\nmessage or one whose entry count exceeds the bytes present crashed the routing\nthread. Message::deserialize now refuses such a buffer.")
sub('saito-core/src/core/consensus/mempool.rs', '''            assert!(
                current_timestamp > previous_block_timestamp,
                "current timestamp = {:?} should be larger than previous block timestamp : {:?}",
                StatVariable::format_timestamp(current_timestamp),
                StatVariable::format_timestamp(previous_block_timestamp)
            );''', '''            if current_timestamp <= previous_block_timestamp {
                warn!(
                    "current timestamp = {:?} is not larger than previous block timestamp : {:?}. not bundling",
                    StatVariable::format_timestamp(current_timestamp),
                    StatVariable::format_timestamp(previous_block_timestamp)
                );
                return None;
            }''')
commit("fix: do not bundle a block while the clock is behind the tip instead of asserting\n\nA peer can deliver a block whose timestamp is ahead of the local clock. Once it is\nthe tip, bundle_block asserted that the current time is later and the node went\ndown on the next timer tick. Skip bundling until the clock has caught up.")
sub('saito-core/src/core/consensus/wallet.rs', '''    pub fn deserialize_from_disk(&mut self, bytes: &[u8]) {
        self.private_key = bytes[0..32].try_into().unwrap();
        self.public_key = bytes[32..65].try_into().unwrap();
    }''', '''    pub fn deserialize_from_disk(&mut self, bytes: &[u8]) -> Result<(), Error> {
        if bytes.len() < 65 {
            warn!("wallet buffer is too short : {:?}", bytes.len());
            return Err(Error::from(ErrorKind::InvalidData));
        }
        self.private_key = bytes[0..32].try_into().unwrap();
        self.public_key = bytes[32..65].try_into().unwrap();
        Ok(())
    }''')
sub('saito-rust/src/rust_io_handler.rs', '''        wallet.deserialize_from_disk(&buffer);
        Ok(())''', '''        wallet.deserialize_from_disk(&buffer)''')
commit("fix: Wallet::deserialize_from_disk returns an error for a truncated wallet file\n\nA wallet file shorter than 65 bytes made the node panic on start-up with a slice\nout of range.")
