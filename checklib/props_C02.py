"""C02 — token supply is conserved (no inflation, no silent loss)."""


def _nontrivial(op, a):
    if op.startswith("blk "):
        return True
    if op.startswith("tx "):
        return "acc=1" in a or a == "panic"
    return False


PROP = {
    "technique": "Lean 4 theorems over an executable model of (a) the u64 sums of Transaction::generate_total_fees and the out<=in guard of "
                 "Transaction::validate with wrap / panic / checked semantics, (b) the payout partition of Block::generate_consensus_values, the header "
                 "arithmetic of Block::create, rebroadcast (ATR) accounting and winding into the spendable set, with supply = what "
                 "Blockchain::check_total_supply sums, over Nat; differential run against the real code in BOTH build profiles (dev: overflow "
                 "panics; prodlike: overflow wraps) on real transactions and on two real nodes producing and exchanging real blocks; direct u128 "
                 "supply monitor after every accepted block",
    "level_text": "Kernel-checked for ALL inputs: the production sum is the true sum modulo 2^64 (sum_wraps); with checked sums an accepted transaction "
                  "never pays out more than it consumes in unbounded arithmetic, for every amount vector (tx_no_wrap_fixed; the dev profile too: "
                  "tx_dev_sound; pinned tree: only while sums stay below 2^64, tx_partial); for every fee amount, EVERY cap function and every "
                  "ticket pattern (ticket/no ticket x previous ticket/no ticket x grandparent known or not x zero keys) fee-transaction outputs + "
                  "treasury + graveyard increments + what the zero-miner-key defect drops = the fees being distributed (payout_partition); one "
                  "accepted block with honest accounting changes the supply by exactly minus that drop (block_supply_exact), hence not at all with "
                  "a non-zero ticket key (block_conserves), including rebroadcasts with any multiplier/fee when the 5% branch is sound; by "
                  "induction every history keeps supply = genesis issuance (history_conserves, supply_is_issuance) and so does every "
                  "reorganisation of any depth (reorg_conserves). The model (incl. its three defects) is tied to the code field by field: every "
                  "produced block's total_fees(_new/_atr), previous_block_unpaid, the five payouts, treasury, graveyard, the two smoothed "
                  "averages, the fee-transaction outputs and every rebroadcast output are compared with `account`, and the node's supply "
                  "(u128) with the model's Nat value after every accepted block.",
    "level_note": "On the pinned tree the property is violated in three ways, all reproduced on the real code (known findings): u64 wrap-around of the "
                  "transaction sums in the production profile (2^64 units minted, the node's own supply check wraps as well and stays silent), a "
                  "ticket with the all-zero key drops the miner half, and a rebroadcast with multiplier >= 2 and zero fee mints a*(m-1) per output. "
                  "Hypotheses of the block-level theorems (Inv, Honest) are listed in Props/C02.lean; they are what transaction validation and "
                  "key uniqueness provide and what the correspondence run checks (header fields = model's).",
    "lean_modules": ["Saito.Props.C02"],
    "suites": ["supply"],
    "profiles": ["dev", "prodlike"],
    "relevant": lambda op, a, b: True,
    "nontrivial": _nontrivial,
    "rule": "corpus/C02/*.ops first. (a) transactions: EXHAUSTIVE over 1-2 inputs x 1-3 outputs drawn from {0,1,2,2^63,2^64-2,2^64-1} (thorough: "
            "9 boundary values), empty input/output lists, 1500 (thorough 6000) random vectors of 1-6 boundary values, as many balanced "
            "(outputs = inputs - fee) vectors and 375 vectors whose outputs equal the inputs + 2^64; each is a real signed Normal transaction run "
            "through the real generate_total_fees and validate (utxo set = its inputs) in BOTH profiles. (b) histories: three scripted witnesses "
            "(wrap-around mint block, all-zero ticket key, rebroadcast multiplier 6) then 45 (thorough 500) random honest histories of 24-40 "
            "(30-60) blocks for genesis_period 5/8/12 (window wraps 2-8 times, every still-unspent output is rebroadcast or collected as "
            "dust), 20% of them issuing the whole u64 range (2^64-1, outputs of 2^63), every third with staking ON (social stake requirement "
            "500/5000/40000, period 3: one BlockStake transaction per block), plus 6+6 (60+60) small-amount histories with high / low "
            "fees that drive the rebroadcast multiplier above one; each honest history ends with one block whose accounting field (14 fields: "
            "treasury, graveyard, unpaid, total_fees*, the five payouts, a fee-transaction output) was falsified and re-signed by its creator, "
            "offered to the other node (must be rejected); two real nodes, each an honest producer on its OWN tip via the real "
            "Block::create on its own blockchain and storage, 0-3 transactions per block from several payers with fees from 0 to the whole "
            "input, tickets in all four two-block patterns (subject to the 2-in-6 density rule), one block in four inside a fork episode (1-2 "
            "against 2-4 blocks, then exchange: reorganisation on one node, side chain on the other). non-trivial = every produced block, "
            "every accepted or panicking transaction",
    "assumptions": [
        "staking is explored with honest BlockStake transactions only (inputs = outputs, one per block); forged BlockStake / SPV / Issuance-typed transactions "
        "(the privileged-type defects of C01) are not generated here; NFT-bound slips are not generated",
        "histories are restricted to honest producers on their own tip that never spend an output of the block being rebroadcast in the same block; "
        "a history stops when a node rejects its own block (observed exactly when the rebroadcast multiplier is >= 2 and the rebroadcast fee is non-zero: "
        "producer and validator compute different consensus values; counted under C07/own-block-rejected) or when a node panics",
        "the caps (avg_total_fees as f64 * 1.5) as u64 are recomputed by the harness with the same float expression and passed to the model as a number; "
        "the theorems hold for an arbitrary cap function; the rebroadcast fee (transaction size x previous avg fee per byte), the three 'is the all-zero key' "
        "bits (recomputed with the real find_winning_router) and utxo key identities are oracle inputs",
        "transaction-level run: signed Normal transactions with Normal slips, at most 6 slips per side (the 255-slip limits and Bound slips are outside the model)",
        "Honest/Inv of Lemmas/Supply.lean: inputs spendable, distinct and in-window, new keys fresh, each input sum < 2^64, treasury subtraction does not underflow",
    ],
}
