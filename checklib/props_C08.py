"""C08 — routing work gates block production; payouts go only to eligible parties."""


def _tok(a, k):
    for t in a.split(" "):
        if t.startswith(k + "="):
            return t[len(k) + 1:]
    return ""


def _nontrivial(op, a):
    kind = op.split(" ", 1)[0]
    if kind in ("need", "next"):
        return a not in ("0", "10000000000000000000", "panic")      # a point on the float curve
    if kind == "cap":
        return True
    if kind == "tx":
        return _tok(a, "work") not in ("", "0")                     # a transaction whose routing work counts
    if kind in ("win", "fwr"):
        return a not in ("key=0", "panic")
    if kind == "blk":
        return True                                                 # every real block offered to the node
    if kind == "fee":
        return a != "outs=-"                                        # a fee transaction that pays somebody
    return False


PROP = {
    "technique": "Lean 4 theorems over executable models of burnfee.rs (abstract float operations with explicit IEEE monotonicity "
                 "laws for the proofs, native binary64 for execution), generate_total_work / validate_routing_path / "
                 "get_winning_routing_node / find_winning_router / the payout section of generate_consensus_values / the work gate, "
                 "transaction sweep and fee-transaction test of Block::validate; bit-exact differential run against the real functions "
                 "and real blocks on a real node; direct monitors with an independent oracle for valid routing work",
    "level_text": "Kernel-checked for every burn fee, timestamp, heartbeat, transaction set, path shape and lottery number: the requirement "
                  "is 0 from two heartbeats on and 10^19 for a block not later than its parent (workNeeded_zero, workNeeded_misordered); it "
                  "never increases with elapsed time (workNeeded_antitone_pos for positive offsets; workNeeded_antitone for all offsets under "
                  "the explicit cap hypothesis, which is shown necessary); a block is accepted only if the work the node counts meets the "
                  "requirement (accepted_has_work), and with the transaction verdict propagated that work comes only through non-empty, "
                  "contiguous, self-hop-free paths ending at the creator whose every hop signature verifies (accepted_has_valid_work_fixed); "
                  "work is fees halved per hop, rounding up, never above the fees (workForMe_char, halveN_closed, workForMe_le_fees); the "
                  "lottery winner of a transaction / block is a hop `to` (or the sender of a path-less transaction, or nobody), and neither "
                  "the unreachable! of get_winning_routing_node nor the assert_ne! of find_winning_router can fire (winning_router_on_path, "
                  "find_winning_router_on_path); every output of the expected fee transaction goes to the ticket's key or a key on a routing "
                  "path of a paid block and the outputs never exceed the fees of the paid blocks, for an arbitrary cap (payout_eligible, "
                  "payout_bounded, payout_shares); with the fee-transaction test exact an accepted block creates no other fee output "
                  "(accepted_pays_only_eligible_fixed). The models are tied to the code by a bit-exact run of both burn-fee functions and "
                  "the x1.5 cap on the u64 x Timestamp edge grid plus random points, by real transactions with real hop signatures, and by "
                  "real blocks (one nolan short / exact / over, timestamps on both sides of every threshold) offered to a real node.",
    "level_note": "PARTIAL: the IEEE-754 monotonicity laws (correctly rounded division antitone in a positive divisor; multiplication by a "
                  "non-negative constant, sqrt, round and the saturating cast monotone) are ASSUMED as the hypotheses FloatLaws / "
                  "FloatLawsSqrt, not proved about native floats; they are shown satisfiable (exact integer instance) and sampled on the "
                  "real function by the monotonicity monitor. On the pinned tree the property is violated (known findings): forged or "
                  "self-hop paths count as work because Block::validate discards the transaction verdict; a second fee transaction, or one "
                  "in a ticket-less block, passes validation; a node that joined mid-chain compares no fee transaction at all; the 10^19 sentinel is below the requirement for burn fees >= 10^19.",
    "lean_modules": ["Saito.Props.C08"],
    "suites": ["bf"],
    "relevant": lambda op, a, b: True,
    "nontrivial": _nontrivial,
    "rule": "corpus/C08/*.ops first; (a) both burn-fee functions on the full edge grid burn fee {0,1,2,5e7-1,5e7,1e8,2^32,2^53-1,2^53,2^53+1,"
            "2^63-1,2^63,2^63+1,1e19-1,1e19,1e19+1,2^64-2,2^64-1} x previous timestamp {0,1,1.7e12,2^53-1,2^53+1,2^63,2^64-2,2^64-1} x "
            "heartbeat {0,1,2,100,5000,2^32,2^53+1,2^62,2^63-1,2^63,2^64-1} x elapsed {0,1,2,3,7,hb-1,hb,hb+1,2hb-1,2hb,2hb+1,2^53+1,huge, "
            "and current < previous}, plus 60k (thorough 200k) random points and the x1.5 cap on edge and random averages, real Rust vs "
            "native-Float model, compared as integers bit for bit; 150k (thorough 400k) random (burn fee, parent time, heartbeat, t1<=t2) "
            "triples on the real function for the monotonicity / zero-after-2hb / distance-to-exact-quotient monitors; (b) 2500 (thorough "
            "6000) real signed transactions with edge and random fees (0,1,2,3,2^32,2^53+1,2^62,2^63-1,...) and paths of 0-7 hops built "
            "with real keys (valid; not ending at the creator; first hop not from the sender; broken contiguity; self-hop; forged hop "
            "signature: garbage, zero, wrong signer, signed for another recipient; combinations) - total_work_for_me, "
            "validate_routing_path, the harness's own oracle of valid work, and get_winning_routing_node on lottery numbers at every "
            "threshold of work_by_hop and random; (c) chains genesis -> [A0] -> A -> B -> C of real blocks (Block::create, transactions "
            "re-ordered, re-signed) on TWO real nodes - one fed from genesis (validate_against_utxo = true) and one that joined mid-chain (fed "
            "from block 2 on, never receives block 1: has_total_supply_loaded() = false, measured on the node and passed to the model): B at every elapsed value {1,2,3,50,99,100,101,150,198,199,200,201,400,0,-1,-500} ms "
            "(heartbeat 100) x work {one short, exact, one over, none, well over, half} x filler path kinds {valid 1 hop, valid 2 hops, "
            "forwarder, forged, self-hop}, plus 400 (thorough 1500) random chains; (d) the fee transaction of every ticket block against "
            "the model (capped and uncapped, parent with / without ticket), and blocks whose fee transactions were tampered with (key, "
            "amount, second fee transaction, fee transaction removed, fee transaction without ticket). non-trivial = distinct case on "
            "the float curve / transaction whose work counts / lottery with a winner / any real block / fee transaction with outputs",
    "assumptions": [
        "IEEE-754 laws FloatLaws / FloatLawsSqrt (assumed, not proved): integer->double conversion monotone and positive on positive integers; correctly rounded "
        "division antitone in a positive divisor and monotone in the dividend; multiplication by a non-negative constant, sqrt, round-half-away and the saturating "
        "cast monotone",
        "heartbeat < 2^63 (else `2 * heartbeat` overflows: panic in the dev profile - modelled as an explicit outcome and compared)",
        "u64 sums do not overflow: fees < 2^63 per transaction (aggregate routing work < 2 x fees), total work of a block < 2^64",
        "no ATR transactions (histories shorter than the genesis period); the parent (and for payouts the grandparent) of the block is held by the node",
        "hop signature validity is an oracle bit supplied by the harness (real secp256k1 verification); hashes behind lottery numbers are computed by the harness with the real blake3",
        "a first hop signed by a key other than the sender counts as valid (validate_routing_path does not tie hop 0 to the sender; Network::propagate_transaction "
        "legitimately produces such paths when a node forwards a path-less transaction)",
        "kinds of validating node: one holding block 1, one that joined mid-chain with fewer than genesis_period blocks (validate_against_utxo = false: the header "
        "fee/payout/treasury/graveyard fields and the fee-transaction hash are not compared and no supply check runs; the work gate, burn fee, difficulty, ticket "
        "solution and transaction sweep are applied all the same)",
        "supply-check outcome of the model (blockOutcome) presumes the block is otherwise honest and extends the tip",
    ],
    "repair_check": "the repaired-flag branches of the model were compared with a patched copy of saito-core (notes/candidate-fix-C08.diff: "
                    "`if !valid_tx { return false; }` in the sweep of Block::validate; reject ft_num > 0 without a ticket and ft_num != 1 with one): "
                    "flags measured txv/feex = 1/1, 1/0, 0/1 — 0 disagreements in each configuration, and exactly the findings of the unrepaired "
                    "defects (plus the sentinel finding) remained; with both patches `cargo test -p saito-core --offline` on a full copy of the tree "
                    "still reports 118 passed / 0 failed / 6 ignored (+ 26 doc tests)",
    "trusted_extra": ["harness/src/work.rs: oracle_valid_work (closed form ceil(fees / 2^(hops-1)) under real signature verification), block factory re-ordering/re-signing"],
}
