"""C11 — no sequence of peer inputs crashes or stalls the node."""


import os
import subprocess


def cls(a):
    return a.split(" ", 1)[0]


def _replay(obj, ctx):
    """./check C11 --replay <file>: re-run the recorded event sequence on the real handlers, step by step
    (used by the `replay` hook of ./check; needs the harness binary built by a previous ./check C11)."""
    log = ctx["log"]
    inp = obj.get("input") or {}
    case = inp.get("case") if isinstance(inp.get("case"), dict) else {}
    binp = os.path.join(ctx["cache"], "target", "debug", "harness")
    if "events" not in case or not os.path.exists(binp):
        log(str(obj)[:4000])
        return 0
    pre = {1: "spv ", 2: "browser "}.get(case.get("mode", 0), "")
    try:
        p = subprocess.run([binp, "disp-explore", pre + case["events"], "x", "x"], stdout=subprocess.PIPE, stderr=subprocess.STDOUT,
                           text=True, timeout=30, env=dict(os.environ, VERIF_ROOT=ctx["root"]))
        log(p.stdout.strip())
    except subprocess.TimeoutExpired:
        log("implementation: the handler did not return within 30 s (stall)")
    return 0


def _post(ctx):
    """Stalls that need an interleaving: the suite drives the three handlers one call at a time, so two handlers waiting for
    each other's lock never shows there. What excludes it is the lock order (C20: `no_deadlock_of_ranked` over the table the
    translator regenerates from the current sources): a nested acquisition against the order in native code, not listed under
    C20, is reported here as well, with the edge as the replay."""
    import json
    p = os.path.join(ctx["cache"], "extract", "report.json")
    if not os.path.exists(p):
        return {"findings": []}
    r = json.load(open(p))
    kf = json.load(open(os.path.join(ctx["root"], "known_findings.json")))
    kf = kf["findings"] if isinstance(kf, dict) else kf
    listed = {k["key"] for k in kf if k.get("property") == "C20" and k.get("status") == "known"}
    findings, n = [], 0
    for e in r.get("edges", []):
        n += 1
        if e["held"] < e["acquired"]:
            continue
        if f'C20/{e["fn"]}/{e["held"]}->{e["acquired"]}' in listed:
            continue
        key = f'C11/stall-possible/lock-order/{e["fn"]}/{e["held"]}->{e["acquired"]}'
        if not any(f["key"] == key for f in findings):
            findings.append({"key": key, "kind": "nested lock acquisition against the documented order in a handler (static, from the regenerated table): "
                             "two handlers can wait for each other",
                             "what": e["provenance"],
                             "replay": {"function": e["fn"], "held_rank": e["held"], "acquired_rank": e["acquired"], "at": f'{e["file"]}:{e["line"]}',
                                        "call_path": e["via"] or "(direct acquisition)", "inner_acquisition_at": e["acquired_at"],
                                        "how_to_reproduce": "hold the lower-ranked lock in another task (the order everywhere else) and let it ask for the higher-ranked "
                                                            "one while this function is between its two acquisitions"}})
    return {"findings": findings, "evaluations": 0, "hist": {"lock-edges-looked-at": n}}


PROP = {
    "technique": "Lean 4 theorems over an executable model of the DECISION logic of the three event handlers (which check happens in which order "
                 "before each panic site; panic and stall are explicit outcomes; one flag per reproduced site) + differential run against the REAL "
                 "RoutingThread / VerificationThread / ConsensusThread wired with in-memory channels and IO, every handler call under catch_unwind, "
                 "every case in a child process with a watchdog; direct monitors for panic, stall and state change by refused input",
    "level_text": "Kernel-checked: with the twelve reproduced defects repaired, for EVERY node summary (peers: exists/status/key/static/challenge/four rate "
                  "limiters; mode; chain summary; the three inter-thread queues) and EVERY event (15 message tags x payload class, connection events, "
                  "fetched-block classes, handler-schedule steps) the handler outcome is handled/rejected/rateLimited/disconnected, never panic or stall "
                  "(C11_full), hence for every event SEQUENCE by induction over the list (no_crash_sequence); for every flag vector a refused input leaves "
                  "every other peer's record, mode, chain summary and pending pool unchanged (C11_rejected_inert); for the pinned tree the handlers panic "
                  "EXACTLY on the listed (node, event) classes and stall exactly on one (pinned_panic_exact, pinned_stall_exact, pinned_partial), each with a "
                  "kernel-checked witness sequence that the harness replays on the real code. The model is tied to the code per step: (summary read from the "
                  "real node, event class) -> outcome class, reply-sent bit, queue growth, sender's status/key/challenge after the call.",
    "level_note": "PARTIAL by construction: the model carries the handlers' decision logic; tokio channel closure / back-pressure (the busy loop of "
                  "send_to_verification_thread is guarded by is_ready_to_process in run_thread and is not reached with one send per event), sockets and timers are "
                  "runtime behaviour it cannot exhibit; a stall that needs two handlers to interleave (each waiting for the other's lock) cannot occur in a suite that calls one handler at a time: "
                  "it is excluded by the lock order, so a nested acquisition against that order which C20 does not list is reported under C11 as well (static, from the regenerated lock table); "
                  "what Blockchain::add_block does with a block is an input class here (Model/Chain.lean models it for C03-C05). "
                  "On the pinned tree the property is violated at twelve panic sites and one livelock (known_findings.json); ./check passes with KNOWN-FINDING "
                  "lines and reports any panic/stall outside the listed (handler, site, input class) triples as a VIOLATION.",
    "lean_modules": ["Saito.Props.C11"],
    "replay": _replay,
    "post": _post,
    "suites": ["disp"],
    "relevant": lambda op, a, b: True,
    "nontrivial": lambda op, a: cls(a) != "handled",
    "rule": "corpus/C11/*.ops and the 12 witnesses first; then SYSTEMATIC: every message class (all 15 tags: challenge, 16 response variants "
            "(version set / signature valid / minor version / own or other key), tag-3 block, 10 transaction classes incl. golden tickets with 96/98-byte "
            "payloads and Issuance/ATR-typed input-less transactions, truncated tag 4, three chain requests incl. id 2^64-1, four header hashes incl. id 0 and "
            "2^64-1, ping, spv, services, ghost chains, short tag 10, ghost requests incl. id 2^64-2, app/result/error, key lists of 0/1/1000 keys, six "
            "undecodable buffers) from every sender state (no handshake / handshake done / fresh challenge outstanding / disconnected record / static never "
            "connected / static connected / static re-connected after a completed handshake / second connection / the honest peer's connection / unknown index), "
            "full and lite mode; every fetched-block class (garbage, wrong hash, first tx repeats an input, valid next, future-dated, known, tampered, "
            "golden ticket with 96-byte payload, spends a non-existent output) from four senders; connection events; bursts across each rate limit "
            "(101 challenges, 100+3 key lists across a window, message limit crossed after 99 997 counted messages, 11 invalid buffers); then RANDOM "
            "sequences of 2..6 (thorough 2..10) peer inputs interleaved with honest traffic (valid transactions, announced+fetched next blocks, pings, key "
            "lists) under random handler schedules (verification / consensus / timer tick / clock advance run eagerly, late or out of phase; everything "
            "queued is drained at the end); two thirds of the random sequences avoid the input classes known to kill the pinned node so that sequences run to "
            "full length; the side-branch livelock alone, interleaved and defused; then the HOSTILE TRANSACTION SHAPE SWEEP (monitor-only: recorded as "
            "`sweep ...` lines, not compared with the model): every transaction type (all 9) x 0..4 inputs x 0..4 outputs x slip-type patterns per side "
            "(all Normal; first Bound; Bound,Normal,Bound,..; first BlockStake; mixed; thorough also first ATR) x signed by the attacker's own key / unsigned, zero "
            "amounts, delivered as a tag-4 message from the peer without handshake AND inside an otherwise valid re-signed fetched block, each followed by "
            "verification, consensus and a timer tick (many shapes per node; the node is re-created after a panic and every 40 shapes); any panic/stall is "
            "reported under C11/<handler>/<site>/<tx type>-tx-<slip-count class>. Then the BOUNDARY SWEEP (monitor-only as well): every integer field the suite sends on 0 / 1 / MAX-1 / MAX of its type — "
            "input slip_index patterns 253,254,255 / 254,255,0 / 255,0,1 / 255,255,255 / 255,254,253 on Bound, Normal, BlockStake and ATR shapes that reach the "
            "index comparisons; timestamp, txs_replacements, amounts, block_id, tx_ordinal of twelve base transaction shapes (message and fetched block); block ids "
            "of ghost-chain requests, blockchain requests and header hashes x four fork-id patterns, before and after the handshake; ghost chains with boundary ids "
            "and timestamps; api message index; handshake versions; every one of the 27 integer header fields of a fetched block (re-signed), the block id also on "
            "2,3,5,10,2^32-1; the BlockFetched event's own block id. The worker runs under `ulimit -v`; a stalled sweep case is resumed at the next group. Every handler call runs the real code under catch_unwind in a child "
            "process with a 2.5 s watchdog. non-trivial = distinct step whose outcome is not `handled` (rejected, rate limited, disconnected, panic, stall)",
    "flags_measured": "12 site flags (1 iff the site's witness sequence no longer panics/stalls on the tree under test) + 3 outcome-class probes smrej / "
                      "smrejbrowser / smrejspv (1 iff a fetched block that spends a non-existent output is REJECTED by a full / browser / lite node); each witness "
                      "runs on the real handlers in a child process with a timeout before the cases; the vector is the first line sent to the model driver",
    "assumptions": [
        "outcome classes are derived from observables only: panic (catch_unwind), stall (watchdog), disconnected (io.disconnect_from_peer called for the sender), "
        "rateLimited (handler returned None with the message limit exceeded, or returned without effect while the tag's own limiter is exceeded), rejected "
        "(routing returned None; verification forwarded nothing; consensus increased the sender's invalid-block counter / added no golden ticket; tags 3 and 11 "
        "returning without a reply), handled otherwise",
        "the oracle bit `bundled` of a timer tick (did the node's own can_bundle_block/Block::create produce a block) is read from the implementation's "
        "blocks_created counter: the model does not re-derive consensus timing",
        "rate-limiter counters are read from the derived Debug output of RateLimiter (its fields are private); the message-limit case pre-loads the counter "
        "through the public RateLimiter::increase instead of sending 10^5 messages",
        "the node's clock is a controllable KeepTime; a timer tick advances it by 1 s, `advance` by 61 s",
        "chain histories are in-order and shorter than the genesis period; blocks delivered before their parent are C03/C05 territory and are not generated here",
        "panics from arithmetic overflow exist only in builds with overflow checks (e.g. ghost-chain request with block id 2^64-1, routing_thread.rs:337) and are "
        "not generated; release builds wrap",
    ],
}
