def cls(a):
    return a.split(" ", 1)[0]


def _nontrivial(op, a):
    # a produced block (bundle → block …) or a validation verdict; `none` answers of the gates are the trivial ones
    return a.startswith("block ") or a.startswith("ok=")


PROP = dict(
    technique="Lean 4 frame theorem over an executable model of generate_consensus_values / Block::create / Block::validate / "
              "Mempool::bundle_block (defect flags), kernel-checked witnesses of every reproduced defect, and a differential run: "
              "two independent real nodes, blocks assembled by the real Mempool::bundle_block and delivered through "
              "Blockchain::add_block, every consensus value and verdict compared with the model; direct monitor on the verdicts",
    level_text="Kernel-checked for every pool, ticket, timestamp and chain context: generate_consensus_values on the finished block equals "
               "what it returned while the block was created on every field validate compares (gcv_frame); hence, with the two "
               "rebroadcast defects repaired, every block bundle_block returns passes validate on the producer and on any node "
               "with the same chain context (C07_full, C07_full_other_node, C07_fixed), for every well-formed pool (PoolWF: no "
               "Issuance/ATR/GoldenTicket/BlockStake typed tx; pooled txs valid once the per-tx verdict gates validity; no Fee-typed "
               "tx once validate fixes the number of fee transactions - flag feeTxCount, surplus_fee_witness). For the "
               "pinned tree the same is proved whenever no rebroadcast carries a payout (C07_partial, noPayout_before_wrap, "
               "noPayout_mult_one). The model agrees with the real code on every produced block, every ConsensusValues field of "
               "producer and both validators, and every verdict.",
    level_note="The pinned tree violates the property (known findings): with an ATR payout the producer computes the 5 % cap on "
               "self.treasury = 0 and the node rejects its own block (and every later attempt: the chain halts); the rebroadcast "
               "hash is taken before the cap rewrites the outputs; Issuance/ATR/Fee-typed txs enter the pool; the routing-work "
               "counter survives a failed Block::create; a pooled tx spending an output that has left the window makes the accepted "
               "block crash check_total_supply. Float functions (burn fee, work needed, 1.5x and 5 % caps), hashes and routers are "
               "opaque parameters of the theorems (the same function on both sides); NFT triples, u64 overflow and the supply "
               "self-check are not modelled.",
    lean_modules=["Saito.Props.C07"],
    suites=["produce"],
    relevant=lambda op, a, b: True,
    nontrivial=_nontrivial,
    rule="9 corpus scenarios (witnesses w1-w6, staking x1, y1), a scripted family of 12 'a delivered block makes pending routing work unspendable' scenarios (one node pools a work-bearing routed tx A and a small tx B, the other node delivers a block with a conflicting spend of A's input, then the first node's producer fires 5.2 s .. 2 heartbeats - 1 ms after the tip; swept over A's fee 12 000/40 000/90 000 and hops 1/2, B's fee 0/150/900, four offsets, which node waits, ticket present/absent), then 500 (quick) / 3000 (thorough) seeded random scenarios on two fresh real nodes (keys 1, 2) with "
         "genesis_period in {5,8,12}, heartbeat 10 s, prune_after in {3,50}: per round a producer (A or B), 0-6 pool transactions "
         "(4 payers, fees 0 / 1 / <100 / <10^4 / <10^5 / exactly at and one above the routing-work threshold / whale fees up to "
         "2*10^8 with 0-400 kB payload, 0-4 routing hops ending at the producer, occasionally an Issuance/ATR/Fee-typed "
         "transaction as a peer could send it), golden ticket present/absent (mined against the tip), timestamp offset 1 ms .. "
         "5 heartbeats on both sides of the 5 s jitter and the 2-heartbeat thresholds; chains are grown to 2..gp and to "
         "gp+2..2gp+3 blocks (before / after the rebroadcast window wraps, with an unpaid whale fee feeding the treasury so that "
         "payout multipliers above 1 occur); staking requirement 0 in 5 of 6 scenarios (the producer's zero-amount staking tx is in every block) "
         "and 1000 with a 2-block lock in 1 of 6 (producers funded at genesis, the wallet builds the staking tx). "
         "Producer path = Mempool::add_transaction_if_validates, add_golden_ticket + lookup by tip, Mempool::bundle_block; each "
         "produced block is validated (Block::validate and generate_consensus_values directly, then Blockchain::add_block) on the "
         "producer and on the other node. Compared with the model: admission, none/block decision, every header field, tx-type "
         "summary, fee tx, rebroadcast txs, 34 ConsensusValues fields of the producer and of both validators, hash agreement, "
         "verdicts. Non-trivial = distinct produced block or validation verdict (gate refusals `none` are trivial).",
    assumptions=[
        "with staking on, a bundle_block that returns None after Block::create failed is not compared with the model (the staking "
        "transaction the real wallet built is lost with the pool; counted as bundle:none-create-failed-with-staking-on-not-compared)",
        "no NFT (Bound) slips in rebroadcast blocks; amounts far below 2^64 (overflow is not modelled)",
        "burn fee / routing work needed are passed to the model as the value the real BurnFee functions return for the round's "
        "arguments; the 1.5x and 5 % caps are evaluated by the driver with IEEE doubles as the Rust expression does",
        "both nodes are fed identical blocks in the same order (no forks); the context the harness extracts from node B is "
        "compared literally with node A's (monitor C07/context-differs-on-same-chain)",
        "the flag txv (per-transaction verdict) is measured by the chain suite's witness; atrkey by the ATR witness w1; "
        "feecount (fee-transaction count rule) by w4b: Block::validate on the block carrying a surplus fee transaction",
    ],
)
