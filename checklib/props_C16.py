"""C16 — the block-fetch scheduler (BlockchainSyncState) is bounded, ordered and complete."""


def cls(a):
    return a.split(" ", 1)[0]


PROP = {
    "technique": "Lean 4 invariant proofs by induction over arbitrary operation sequences of an executable model of "
                 "BlockchainSyncState (announce, build, select, fetched, failed, remove) + differential run of the real "
                 "struct (driven through RoutingThread::process_event for the pub(crate) build step) against the model, "
                 "exhaustive over a small universe and random beyond, with a model-independent monitor",
    "level_text": "Kernel-checked, for every operation sequence from the initial state and every batch size: the per-peer Fetching count "
                  "never exceeds the batch size (the usize subtraction `batch_size - fetching_count` cannot underflow, "
                  "get_blocks_to_fetch_per_peer never panics), every selected list is sorted by (id, hash), no (hash,id) pair is "
                  "queued or in flight twice for one peer, retry counters stay <= MAX_RETRIES+1 and an entry is re-queued at most "
                  "MAX_RETRIES times while it lives in the queue, and under the fair schedule (everything in flight completes, then "
                  "select; closed system) a queued entry is requested within ceil((w+1)/batch) rounds, w counting the queued entries "
                  "ahead of it once and the failed-but-retriable ones twice (<= ceil(len/batch) when nothing is failed). The model is "
                  "tied to the code by running both on the same operation sequences and comparing every public observation.",
    "level_note": "Pinned tree: the queue is deduplicated on (hash,id), so one block announced under two ids by the same peer is "
                  "requested twice at once and the answer can leave a stale Fetching entry (known findings; witness theorems). "
                  "The per-hash statements are proved for the repaired dedup rule (flag dedupByHash) and, for the pinned rule, "
                  "under the explicit hypothesis that the queue holds each hash once.",
    "lean_modules": ["Saito.Props.C16", "Saito.Props.C16Gen"],
    "uses_gen": True,
    "suites": ["sync"],
    "relevant": lambda op, a, b: True,
    # non-trivial: a sequence in which the scheduler actually requested something or refused to (non-empty queues)
    "nontrivial": lambda op, a: ("sel=p" in a) or (" p" in a),
    "rule": "request = a whole operation sequence from the initial state (batch size, peers with a fetch url, then ops "
            "add/have/unhave/upd/select/fetched/failed/remove). Exhaustive: every sequence of length <= 4 (quick) / <= 5 (thorough; "
            "<= 4 for batch 3) over the alphabet {add p i h, failed i h p | p in {1,2}, h in {1,2,3}, i in {1,2}} + {fetched h, "
            "remove h | h in {1,2,3}} + {build;select round (upd 255), select, have 1} (33 ops) whose first op is an announcement "
            "from peer 1 or `have 1` (any other first op is a no-op on the empty state or the mirror image under swapping the peers), "
            "for batch 1, 2, 3; the observable state after the last op is compared (every proper prefix is itself enumerated). "
            "Random: 50 000 (quick) / 200 000 (thorough) sequences of length 1..40 over 3 peers (one without fetch url), peer 0 "
            "broadcasts, 6 hashes, 4 ids, batch in {0,1,2,3,5}, each followed by the fair drain schedule; the state after every op "
            "is compared. Targeted: one entry failing 503 times (MAX_RETRIES_PER_BLOCK = 500), corpus witnesses. Observations: "
            "get_fetching_block_count, get_stats (front id, back id, fetching count, unbuilt announcements per peer), the lists "
            "returned by get_blocks_to_fetch_per_peer, the fetch_block_from_peer calls at the I/O boundary. "
            "non-trivial = distinct sequence that leaves a non-empty queue or requests a block",
    "assumptions": [
        "'in flight' is the scheduler's own notion: entries in state Fetching. remove_entry / mark_as_fetched drop the entries of "
        "*all* peers for a hash, so an HTTP request already issued to another peer may still be outstanding when its slot is reused "
        "(InterfaceIO has no cancel); the I/O-level count can therefore exceed the batch size by design",
        "per-entry status and retry counters are private; they are compared through their effects (selected lists, fetching counts, "
        "queue ends) only",
        "peer index 0 is never a key of the PeerCollection (PeerCounter starts at 1): hypothesis 0 ∉ urlPeers of the theorems",
        "HashMap iteration order is irrelevant: every loop of the struct treats the peers independently (checked by reading; the "
        "model uses association lists)",
        "liveness is stated for a closed system (no new announcements during the rounds): lower block ids announced later "
        "legitimately overtake",
    ],
}
