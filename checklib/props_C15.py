def _pair_nontrivial(a):
    # a checkpoint matched (estimate above 0) or a window collision is present
    return " anc=0 " not in (a + " ") or a.endswith("nwc=0")


PROP = dict(
    technique="Lean 4 theorems over executable models of generate_fork_id / generate_last_shared_ancestor / the announcement loop and of the "
              "fetched-block delivery (mempool queue + retry rule over the add_block model); differential run against the real functions on real chains "
              "and against two real nodes (RoutingThread + ConsensusThread + VerificationThread) joined by a deterministic scheduler; direct monitors",
    level_text="Kernel-checked for all chains, all lengths, any weight table and window function: (1) the peer's common-ancestor estimate is never later than the "
               "true fork point provided the 16-bit window comparisons succeed only for equal blocks (explicit decidable hypothesis; without it the statement is "
               "false — kernel-checked witness AND a pair of real honest blocks); (2) the announcement covers every block the requester lacks (composition "
               "request_complete); (3) a requester holding a prefix (>= genesis) of the peer's linear all-valid chain ends on the peer's tip under EVERY permutation of "
               "the block deliveries, for every chain length below genesis_period (delivery_order_free_linear: add_block evaluated symbolically — ring, fork choice, "
               "ticket window, wind, supply check — plus the mempool queue / retry rule); for a forked requester the same conclusion along any suffix on which add_block "
               "behaves as a ladder (delivery_order_free_partial; the ladder is checked by kernel evaluation on concrete forks). The models agree with the real code on every fork-id / ancestor call of "
               "real chain pairs with lengths and fork points around the checkpoints 10…110 and on every ConsensusEvent::BlockFetched of every explored schedule "
               "(exhaustive for small pairs, random beyond).",
    level_note="partial: real-time and socket behaviour (timers, reconnection, rate limiters against a wall clock, HTTP block fetch, multi-peer races) are not "
               "modelled — the scheduler explores orders of handler events only; for a FORKED requester the ladder conditions and C05 adoption of the in-order delivery (unwind/wind) are hypotheses of "
               "delivery_order_free_partial (checked by kernel evaluation on concrete forks and by the correspondence run), not theorems for all forks; "
               "blocks with value transfers are covered by correspondence only (the linear theorem is for ticket-carrying, value-free blocks). On the pinned "
               "tree the property is violated (known findings): the retry rule that would make delivery order irrelevant is gated by initial_loading_completed, "
               "which no code ever sets; an empty node accepts any first block; a 16-bit window collision moves the estimate past the fork point.",
    lean_modules=["Saito.Props.C15"],
    suites=["forkid"],
    # every line is relevant, also deliveries after a parent-less block went through add_block's main path (pinned orphan branch):
    # the chain model's oracle bit okNoParent (measured with node::validates_without_parent) expresses the real verdict there
    relevant=lambda op, a, b: True,
    nontrivial=lambda op, a: (op.startswith("pair") and _pair_nontrivial(a)) or (op.startswith("deliver") and ("queue=[]" not in a or op.endswith(" parentless-history"))),
    rule="(a) fork-id level: one real trunk chain of 113 (quick) / 117 (thorough) blocks and real branches forking off at 13 (quick) / 32 (thorough) points "
         "around the checkpoints (0,8,9,10,19,20,29,44,49,59,74,99,…) plus an unrelated chain and the committed collision pair; every combination of "
         "requester length x peer length from the sets {1,2,9,10,11,19,20,21,…,110,111} in both roles; the real generate_fork_id on a real node holding "
         "exactly the requester's blocks, the real generate_last_shared_ancestor on a real node holding exactly the peer's blocks; compared with the model "
         "(fork id bytes, estimate) and with the harness's own fork point / collision check. (a') the same calls on a peer that first held the REQUESTER's fork as its longest chain and then reorganised onto its own longer fork (its ring items hold the requester's block first): the answer must equal the model's, which sees the peer's longest chain only (op token `side`). (b) protocol level: requester empty / shorter / forked, peer "
         "longer by 1..3 (exhaustive depth-first enumeration of ALL schedules of message deliveries and fetch completions, also of the three inter-thread "
         "channels for the smallest pairs; capped at 2500 (quick) / 20000 (thorough) schedules per pair, the evidence says which pairs were exhausted), and "
         "lengths 8..31 around the checkpoints with random schedules, FIFO and unordered links, fetch batch 1/2/10, with and without the real handshake; "
         "both values of initial_loading_completed; pairs in which the peer holds the requester's fork as an older side chain (fork lengths 6..21, fork point / tips straddling the checkpoints 10, 20, 30; in-order and random schedules). A consensus handler that does not return is answered `stall` (child process killed after 2.5 s, the case is resumed after that schedule). non-trivial = pair whose estimate is a checkpoint above 0 or that has a window collision; delivery "
         "that left a block queued for retry or happened at/after a parent-less block went through add_block (token `parentless-history`, statistics only)",
    assumptions=[
        "chains from genesis, shorter than genesis_period (no purge, no ring wrap); block ids start at 1",
        "a block hash determines its height and its ancestors (heightInHash, prefixClosed: idealised hash function)",
        "noWindowCollision: the hypothesis of ancestor_sound; the evidence histogram forkid:*:window-collision counts how often real chain pairs violate it "
        "(only the ground pair of corpus/C15/collision.json in these runs; expected rate about 16/65536 per pair)",
        "the peer is honest and serves every block it announced; one peer; no timer events (no reconnection, no periodic re-request)",
        "validity of a block handed to add_block while its parent is unknown is an oracle bit (okNoParent, measured by running the real Block::validate on a scratch node without the parent)",
    ],
)
