"""C14 — the transaction pool stays consistent with the ledger; it never loses or locks funds."""


def _cls(a):
    for t in a.split(" "):
        if t.startswith("res="):
            return t[4:]
    return a.split(" ", 1)[0]


PROP = {
    "technique": "Lean 4 invariant proof over an executable model of Mempool::add_transaction_if_validates / add_transaction / bundle_block "
                 "(+ Block::create's drain and double-spend check) / Blockchain::remove_block_transactions / add_block_transactions_back, composed "
                 "with the chain model for the ledger; differential run against a real node (real signed transactions, real blocks, the real "
                 "bundle_block and add_block) over exhaustive short and random long operation sequences; independent direct monitors",
    "level_text": "Kernel-checked, for every ledger a block addition or reorganisation may produce and every finite interleaving of arrivals "
                  "(valid, conflicting, duplicate, malformed), bundles, block additions, reorganisations and rejected blocks: with the five listed "
                  "defects repaired the pool invariant (no output spent twice by pooled transactions; reservations = inputs of the pooled "
                  "transactions; every pooled transaction valid against the ledger; work counter = sum) is preserved (C14_full, reachable_inv, "
                  "C14_deliver on the node = chain model + pool), every unspent output that no pooled transaction spends is accepted when a valid "
                  "transaction spends it (C14_spendable, C14_spendable_output), bundling returns a valid block body carrying exactly the pool or "
                  "leaves the pool unchanged (C14_bundle, C14_bundle_none_unchanged). For the pinned tree: a witness theorem per defect "
                  "(stale_reservation_witness, readd_witness, bundle_lost_witness, issuance_witness, repeated_input_witness), the general theorem "
                  "that a stale reservation is never released again whatever happens later (C14_witness_locked_forever), and what still holds "
                  "(C14_partial_valid for every flag setting; C14_partial: exclusivity of inputs while no own block is rejected). The model is tied "
                  "to the code by comparing, after every operation, the pooled transaction set, the utxo_map keys, the routing-work counter, "
                  "new_tx_added, the operation's result class and (for blocks) add_block's result and the spendable set.",
    "level_note": "On the pinned tree the property is violated (known findings: five defects, reproduced on the real code with concrete operation "
                  "sequences, two of them reachable from peer messages alone); ./check passes with KNOWN-FINDING lines and reports any violation with "
                  "a history outside the listed classes (e.g. on a clean history) as a VIOLATION.",
    "lean_modules": ["Saito.Props.C14"],
    "suites": ["pool"],
    "relevant": lambda op, a, b: True,
    # a compared line after which the pool or its reservations are non-empty, or a bundle / block outcome other than the trivial one
    "nontrivial": lambda op, a: ("pool=[]" not in a) or ("resv=[]" not in a) or _cls(a) in ("some", "invalid", "added_side", "panic", "refused"),
    "rule": "corpus/C14/*.ops and the five witness sequences first; then EXHAUSTIVE: every sequence of 3 (thorough 4) operations over a 12-letter "
            "alphabet {2-input arrival, conflicting arrival, arrival on a reserved-but-unused output, bundle late/early, peer block confirming / "
            "conflicting, own block rejected, side block confirming, reorganisation, issuance-typed arrival, repeated-input arrival} from the "
            "bare state, and every pair (thorough: also every triple over 14 letters) over the WHOLE 26-letter alphabet from a state with chain "
            "height 2 and two pooled transactions; then 400 (thorough 3000) random weighted sequences of 4..12 (thorough 4..25) operations. "
            "The 26 operations: arrivals (1 input, 2 inputs, with a zero-amount input, conflicting with a pooled transaction, duplicate, spending a "
            "spent output, re-offer of a dropped transaction, issuance-typed, bad signature, ticket-typed (panics), repeated input, on a "
            "reserved-but-unused output), the real bundle_block at +12 s / +6 s (needs routing work) / +1 ms (jitter gate) / +0 (assert) followed "
            "by the real add_block of the produced block, peer blocks built with the real Block::create that confirm / conflict with / ignore "
            "pooled transactions, side blocks, reorganisations (up to 3 blocks), rejected blocks (own key with pooled or fresh transactions, own "
            "bundled block tampered, foreign key). Every transaction is really signed (3 user keys), every block really created and validated; "
            "non-trivial = distinct compared line with a non-empty pool or reservation set, or a refused / rejected / side / bundled outcome",
    "assumptions": [
        "utxo keys of distinct outputs are distinct; a transaction's signature identifies it (ids in the model)",
        "the checks of Transaction::validate that do not read the ledger (signature, routing path, outputs <= inputs) are one oracle bit per "
        "transaction, taken from the real validator; the timing / routing-work / ticket gates of can_bundle_block are inputs computed with the "
        "repo's own BurnFee / is_golden_ticket_count_valid functions; routing work per transaction is taken from the real generate()",
        "the staking transaction that bundle_block creates and Block::create drains in the same call is not represented (stake requirement 0: "
        "no inputs, no work); blocks_queue is empty when bundling (the produced block is handed straight to add_block, as "
        "add_blocks_from_mempool does)",
        "a rejected block leaves the ledger's spendable set unchanged (property C04) — hypothesis of C14_deliver, built into `step`",
        "the chain already holds its first block (the bootstrap path in which the node pools its own issuance transactions before block 1, "
        "consensus_thread.rs:133, is outside the model); the repaired semantics of the five flags is that of notes/candidate-fix-C14.diff, which "
        "was applied to a scratch copy of the tree: saito-core's unit tests still pass (118/0/6) and this suite then measures all five flags "
        "as repaired with 0 disagreements and 0 monitor failures",
        "histories shorter than genesis_period (no pruning / rebroadcast); the golden-ticket collection of the pool is out of scope",
    ],
}
