"""C17 — the handshake authenticates the peer's key."""


def cls(a):
    return a.split(" ", 1)[0]


def _is_step(op):
    t = op.split(" ")
    if t and t[0] == "try":
        t = t[1:]
    return t and t[0] in ("connect", "disconnect", "deliver", "addstatic", "asign")


PROP = {
    "technique": "Lean 4 invariant proofs over an executable Dolev-Yao model of the handshake handlers (event log Issued/Signed/Accepted) "
                 "+ differential run of the real Network/PeerCollection/Peer handlers with real secp256k1 keys under attacker scripts "
                 "+ a direct authentication monitor on the implementation",
    "level_text": "Kernel-checked, for every finite sequence of operations (connect, disconnect, delivery of any challenge or of any response the "
                  "attacker can derive: observed signatures in any combination with free key/challenge/version fields, own-key signatures) on any "
                  "number of honest nodes and connections: every Accepted(c,K,n) event is preceded in the log by Issued(c,n) on that very connection "
                  "and by a signature by K over n; an honest key's signatures are only ever made by its owner's handlers, after the nonce was issued; "
                  "each (connection, challenge) is accepted at most once; a Connected peer entry and every address_to_peers entry is backed by such an "
                  "Accepted event; a bad response (wrong/replayed/reflected nonce, bad signature, unsolicited, version unset/incompatible) disconnects "
                  "its own connection and leaves every other peer entry and address_to_peers untouched. The model is tied to the code by running both on "
                  "the same attacker scripts and diffing status/key/challenge of every connection, address_to_peers and the messages sent after every step.",
    "level_note": "Relay through an honest signer (handle_handshake_challenge signs any 32 bytes for any existing peer entry, in any state) is outside what "
                  "challenge-response can exclude: the theorems conclude that a signature BY K over THIS connection's fresh challenge exists, not who carried it. "
                  "The key-mismatch assert of Peer::handle_handshake_response is an explicit `panic` outcome (property C11), state unchanged.",
    "lean_modules": ["Saito.Props.C17"],
    "suites": ["hs"],
    "relevant": lambda op, a, b: True,
    # non-trivial = a step on which the real handlers did something observable (sent, disconnected, accepted or panicked)
    "nontrivial": lambda op, a: _is_step(op) and not a.startswith("ok [] |") and cls(a) != "rejected",
    "rule": "corpus/C17/*.ops first; then EXHAUSTIVE search over attacker scripts of depth 5 (quick) / 6 (thorough) on 2 honest nodes and 3 connections "
            "(0/1 incoming at node 0, 1/1 node 1's outgoing static peer, 0/2 a second incoming connection at node 0) over the alphabet {connect c, disconnect c, "
            "deliver to c: every known challenge nonce incl. the zero constant; every response observed so far verbatim (replay/redirect/reflect); the latest "
            "observed response with version unset / incompatible / key swapped to the attacker's; attacker-signed responses over every known nonce under its own "
            "key and under a claimed honest key; a garbage signature}, sub-trees with identical canonical world state (implementation state + attacker knowledge + "
            "monitor books) merged; then 2500 (quick) / 20000 (thorough) random scripts of length 30 over 4 connections mixing honest relaying with free "
            "composition from everything known (any existing signature term with any key/challenge/version), disconnects and reconnects. After every step the "
            "full dump (status, stored challenge id, key, static flag of every peer entry of both nodes, address_to_peers, messages sent, nonce counter) is "
            "compared with the Lean model; non-trivial = distinct step on which the real handlers sent, disconnected, accepted or panicked.",
    "assumptions": [
        "idealised cryptography: a signature verifies only under the key and message it was made for; 32-byte random challenges never repeat and cannot be guessed before they are issued",
        "fewer than 100 handshake messages per peer entry per minute (the handshake rate limiter is not modelled)",
        "STUN peers (Network::handle_new_stun_peer, created Connected by the local application, not by a remote message) are outside the model",
        "which of several disconnected old entries with the same key remove_reconnected_peer finds first (HashMap iteration order) is an explicit choice parameter of the model: theorems hold for every choice, the correspondence run passes the implementation's observed choice to the model as a hint that the model validates",
    ],
}
