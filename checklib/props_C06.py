"""C06 — a block's identity binds its content and its creator."""


def _label(op):
    for t in op.split(" ", 3)[:3]:
        if t.startswith("e="):
            return t[2:]
    return ""


_SEALS = ("Keep", "Creator", "Other", "RootOnly", "ZeroRoot")


def _is_c06(op):
    return op.startswith("wire ") or (op.startswith("blk ") and _label(op).rsplit("/", 1)[-1] in _SEALS)


PROP = {
    "technique": "Lean 4 theorems on block identity as terms (hash = H2(prev, H1(signed header)), commitment = M over ordered leaf hashes, "
                 "idealised signatures) under injectivity hypotheses shown satisfiable, + differential run of every transaction-list / header edit "
                 "through VerificationThread::verify_block, Block::generate, Block::validate and Blockchain::add_block on real blocks",
    "level_text": "Kernel-checked for every digest type and injective combiners: with merkleAlwaysCompared repaired, two accepted blocks with the "
                  "same hash have the same signed header, creator and ordered transaction hashes (C06_full); with inputLocationSigned repaired too, "
                  "the same transactions including which outputs they spend (C06_full_strong); every change / addition / removal / reordering of the "
                  "transaction list after signing, every header change under the old signature and every foreign signature is refused (edit_*); "
                  "verify_block looks at the header only (wire_checks_header_only, wire_iff). Witnesses: on the pinned tree a swapped / shortened "
                  "list, and a re-pointed input, are accepted under the original hash. The model agrees with the real code on every generated edit, "
                  "before and after the candidate repair.",
    "level_note": "On the pinned tree the property is violated (known findings: the stored root is never compared; the transaction hash does not bind "
                  "the location of the spent outputs). ./check passes with KNOWN-FINDING lines.",
    "lean_modules": ["Saito.Props.C06", "Saito.Props.C06Gen"],
    "uses_gen": True,
    "suites": ["txv"],
    "relevant": lambda op, a, b: _is_c06(op),
    "nontrivial": lambda op, a: _is_c06(op) and "/none/" not in _label(op),
    "rule": "corpus/C06/*.ops first. Then for each chain state of the txv suite (4) and each honest candidate block (with / without golden ticket): "
            "every swap of two positions, and for each user transaction: drop, duplicate, add another valid transaction, alter data, alter an "
            "output's owner, alter an output's amount, re-point an input to another output of the same owner/amount/index — each x {header kept; "
            "root recomputed and re-signed by the creator; re-signed by another key; root recomputed, old signature; root zeroed on the wire}; "
            "header edits (root, creator, timestamp, id, parent) with the old signature, re-signed by another key, and (root) re-signed by the "
            "creator. Each edited block is serialised and offered (a) to verify_block with the ORIGINAL's advertised id and hash, (b) to "
            "Block::validate and add_block on a fresh node. Hash equality is compared as term equality on (prev, signed bytes) identifiers. "
            "non-trivial = distinct edited case",
    "assumptions": [
        "blake3 / secp256k1 idealised: combiners injective, signatures unforgeable (InjHashes, Sig); equality of digests is taken as equality of terms",
        "the checks of Block::validate other than creator signature and commitment are the oracle bit restOk / hdr",
        "a block re-signed by its creator with a recomputed root is a different block (different hash): C06 does not forbid it",
    ],
    "repair_check": "compared with a patched scratch copy (block.rs:3113 condition removed): flag merkle measured 1, 0 disagreements, honest blocks accepted, "
                    "all tx-list findings gone; the input-location finding remains",
}
