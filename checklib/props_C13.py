def cls(a):
    for t in a.split(" "):
        if t.startswith("res="):
            return t[4:]
    return a.split(" ", 1)[0]


def _did_something(op, a):
    if op.startswith("blk "):
        return "rb=[]" not in a or " dust=0 " not in a or cls(a) != "ok"
    if op.startswith("reorg "):
        return "unwind=-" not in op
    if op.startswith("probe "):
        return True
    return False


def _replay(obj, ctx):
    """./check C13 --replay <file>: re-run the recorded history on the real code and print its lines"""
    import os, subprocess
    inp = obj.get("input") or {}
    binp = os.path.join(ctx["root"], ".cache", "target", "debug", "harness")
    if "history" in inp and os.path.exists(binp):
        o = subprocess.run([binp, "atr-one"] + inp["history"].split(" "), stdout=subprocess.PIPE, stderr=subprocess.STDOUT, text=True).stdout
        ctx["log"](o.strip()[:20000])
    else:
        ctx["log"](str(obj)[:4000])
    return 0


PROP = {
    "replay": _replay,
    "technique": "Lean 4 theorems over an executable model of the ATR section of Block::generate_consensus_values (selection, dust, per-slip fee, payout "
                 "multiplier, 5 % cap, commitment hash), of the effect of winding the ATR transactions on the spendable set and of the window rule for inputs; "
                 "differential run against real nodes (real Block::create as honest producer on the node's own tip, real generate_consensus_values as validator, "
                 "real add_block) over histories that wrap the retention window 1-3 times; independent bookkeeping monitors",
    "level_text": "Kernel-checked, for every expiring block, every spendable set and every parameter vector (fee, treasury, average rebroadcast volume, cap): with the "
                  "repaired flags each eligible output of block n-gp-1 is the input of exactly one ATR transaction of block n or is dust-collected exactly once "
                  "(atr_exactly_once, atr_rebroadcast_or_dust), the new output has the same owner and amount = value + payout share - fee as the code computes "
                  "(atr_same_owner_value, atr_value_conserved), the original is not spendable after winding (atr_original_unspendable), every ATR transaction comes "
                  "from an eligible output (atr_nothing_else), nothing is rebroadcast twice (atr_not_twice, atr_not_twice_later), an input older than the window is "
                  "rejected (expired_unspendable). For the pinned flags the same statements are proved under `multiplier = 1` (_partial) and five kernel-checked "
                  "witnesses reproduce the defects. The model's answer (ATR transactions, fees, payout, validator values, verdict ok/invalid/supply-panic, expired "
                  "utxo entries after the block, window probes, reorganisations across the edge) is compared with the real node on every produced block.",
    "level_note": "On the pinned tree the property holds only while the payout multiplier is 1 and no output is dust: with multiplier >= 2 the node rejects (or "
                  "panics on) its own block and the ATR input does not spend the original; dust-collected outputs stay spendable (no window test). These are "
                  "known findings; the check passes with KNOWN-FINDING lines and reports any failure outside the listed classes. NFT (Bound) triples: the cut of one transaction's collected outputs into single outputs and "
                  "triples (AtrScan.scan) and the amounts per group (AtrScan.payloads / acct: what comes back, what is collected, the contributions to the block's "
                  "totals) are modelled and proved for every list of outputs (Saito.C13.Scan.*, Saito.C13.Amounts.*) and compared with the real blocks of the "
                  "triple histories (with and without fees; amounts for multiplier 1 only — the 5 % cap branch is not followed per transaction); keys, window "
                  "positions and the utxo effects of a triple's rebroadcast are covered by direct monitors only.",
    "lean_modules": ["Saito.Props.C13"],
    "suites": ["atr"],
    "relevant": lambda op, a, b: True,
    "nontrivial": _did_something,
    "rule": "corpus/C13/*.ops first (witness histories of the listed findings, a pruned-block history, a fork across the edge); then for genesis_period in {5,8,12} x "
            "window wraps {1,2,3} x fee class {0, per-byte fee below gp (average stays 0), per-byte fee >> gp (dust appears)} x looping value {large: multiplier "
            "stays 1, small: multiplier grows >= 2}: a seeded history of gp*(wraps+1)+3..5 blocks on a real node; every block is built by the real Block::create "
            "on the node's own tip (bank transaction with 1-3 side outputs of 7..10^6, random spends of earlier outputs, golden tickets every second block plus "
            "random extras, prune_after in {gp/2+1, never}); half of the large-value histories fork at a random height: branch A (1-2 blocks) on the node, branch "
            "B (one longer) built by a second real node, delivered to the first (reorganisation across the window edge). Per produced block n > gp+1 one `blk` "
            "line (outputs of block n-gp-1, edge utxo, previous header values -> ATR transactions, fees, payout, slips, validator's values and hash agreement, "
            "verdict, expired utxo entries afterwards), up to 4 `probe` lines (Transaction::validate of a spend of an output of blocks tip-gp-2, tip-gp-1 and of "
            "the oldest utxo entry), one `reorg` line per fork. non-trivial = block whose ATR section rebroadcast or dust-collected something or was not accepted, "
            "every probe, every adopted fork. quick: 10 seeds per cell, thorough: 60. Triple histories: a bound triple created in block 2 and carried around the window three "
            "times, gp in {4,5,7} without fees and gp in {4,6} with a fee-paying payment in every block (rebroadcast fee above 0): `scan` and `acct` lines per wrap.",
    "assumptions": ["the block-level model (Saito.Atr) covers single-slip rebroadcasts; bound triples are modelled per transaction (AtrScan) and otherwise monitored",
                    "amounts stay far below 2^64 / multiplier (no u64 overflow in amount*multiplier); (t as f64 * 0.05) as u64 = t/20 for the treasuries reached",
                    "utxo keys of distinct outputs of one block are distinct (they embed tx ordinal and slip index) — hypothesis `Nodup` of the theorems",
                    "the commitment hash is injective on the list of (input owner/amount/index/type, output owner/amount, payload) tuples",
                    "blocks are produced by an honest producer; a malicious producer's ATR set is rejected by the slip-count / hash comparison only to the extent C07 holds"],
}
