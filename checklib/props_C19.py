"""C19 — wallet accounting matches the ledger."""


def _head(a):
    return a.split(" ", 1)[0]


PROP = {
    "technique": "Lean 4 invariant proof over an executable model of the wallet (add_slip / delete_slip / on_chain_reorganization / "
                 "delete_block / remove_old_slips / generate_slips / pending, Transaction::create_with_multiple_payments; u64 panics "
                 "explicit) + link to the C03 ledger model (windU) + differential run against the real Wallet on synthetic blocks "
                 "and against a real Node (real blocks, ATR, purge, forks) with direct monitors",
    "level_text": "Kernel-checked, for every call sequence and every flag setting: in every reachable wallet state the available balance equals the sum of the "
                  "recorded amounts of the keys listed as unspent, the list is duplicate-free, inside the slip map, disjoint from the staking "
                  "list (reachable_inv, balance_is_sum_of_unspent), is exactly the set of known slips not marked spent and neither staking nor "
                  "bound (unspent_characterised), and the u64 subtractions never underflow (no_underflow). On wind-only histories inside the "
                  "window the unspent list is exactly the C03 ledger (windU over the same blocks) filtered by the wallet's key, value and slip "
                  "type, minus the slips committed to built transactions (linear_matches_ledger); for wind-only histories of ANY length "
                  "(non-decreasing block ids, expiry by remove_old_slips included) the same with the ledger side restricted to in-window "
                  "outputs, newest id <= output's block id + genesis_period (linear_matches_ledger_window). With the two listed defects repaired every "
                  "built transaction has pairwise distinct inputs, all listed as unspent before the call, outputs + attached fee = inputs, and "
                  "its inputs are spendable in-window ledger outputs (built_tx_wellformed, built_tx_wellformed_reachable, built_tx_validates, "
                  "built_tx_validates_window); for the "
                  "pinned tree witnesses (unwind_witness, duplicate_input_witness, window_edge_witness) and what still holds (built_tx_partial). "
                  "The model is tied to the code by replaying the same calls on the real Wallet (synthetic blocks: all slip types, NFT triples, "
                  "0 / 2^63 / 2^64-1 amounts, arbitrary wind/unwind/delete/expire order) and on a real Node whose wallet receives and spends "
                  "(real Block::create on the node's own chain incl. fee/ATR transactions and the purge at 2*genesis_period; forks that overtake "
                  "and are overtaken again), comparing balance, slip map (amount, block id, tx ordinal, slip index, lc, spent, type), unspent, "
                  "staking, NFT and pending lists and every returned transaction after every call.",
    "level_note": "The ledger theorems assume blocks without Bound slips (an NFT triple's middle slip is deliberately kept out of the spendable list) and "
                  "take the ledger to be the C03 model (windU); that ATR rebroadcast / purge at 2*genesis_period of the real chain keep the real utxo set "
                  "in step with that model past the window is established by the node-layer monitor (real blocks up to 2*genesis_period+8), not by a "
                  "theorem. Histories with reorganisation: only the accounting invariant is claimed (as in the property). The flag calibration and the "
                  "repaired-flag branch of the model were also run against a patched copy of the tree (notes/candidate-fix-C19.diff): 716k cases, 0 "
                  "disagreements, no monitor failure. On the pinned tree the third sentence of the property is violated in two ways (known findings); ./check passes with "
                  "KNOWN-FINDING lines and reports any failure outside the listed classes.",
    "lean_modules": ["Saito.Props.C19"],
    "suites": ["wallet"],
    "relevant": lambda op, a, b: True,
    "nontrivial": lambda op, a: _head(a) in ("tx", "ret=1") or a.startswith("in=[") or (op == "obs"),
    "rule": "corpus/C19/*.ops first (witnesses of the listed defects, arithmetic and slip-type edges); then 3000 (thorough 30000) random wallet-layer "
            "scripts of 8..40 calls generated against the live wallet (wind fresh synthetic block of 1-3 transactions with 0-4 outputs / 0-3 inputs "
            "drawn from earlier outputs, unwind last, re-wind, any block any direction, delete_block, remove_old_slips, direct add/delete, "
            "generate_slips, create with amounts 0 / =balance / balance+1 / 2^63 / 2^64-1 / several payees / mismatched key count / fee above "
            "balance, add_to_pending, mining the built transaction into the next block; genesis_period 3,4,6,100; slip types Normal/ATR/"
            "MinerOutput/BlockStake/Bound incl. [Bound,x,Bound] triples); then node layer: 4 witness histories, 120 (thorough 1500) histories "
            "of 8..18 steps with forks of depth 1-3 that overtake and are overtaken again (genesis_period 30), 40 (thorough 400) linear histories "
            "past 2*genesis_period for genesis_period 6,7,8,10 (ATR rebroadcast, expiry, purge), steps = {peer pays me (1-2 outputs), idle block, "
            "I create (1-3 payees, amount 0 / small / half / =balance / balance+1 / 2^64-1, fee 0 / small / above balance), my oldest valid "
            "pending transaction is mined, fork}; the iteration order of the wallet's hash set is observed and handed to the model as an oracle. "
            "non-trivial = distinct call that built a transaction, changed the wallet (ret=1), selected slips, or a node-layer observation",
    "assumptions": [
        "every slip of a block carries a utxoset_key consistent with its fields (true after Block::generate / parse_slip_from_utxokey)",
        "full blocks only: no SPV transaction (txs_replacements = 1), every transaction has its hash_for_signature",
        "the iteration order of AHashSet is arbitrary (process-random): theorems hold for every order; the run passes the observed order to the model",
        "node layer: wallet events of an add_block call are derived by the harness from the tip before/after and its own block tree "
            "(unwind old branch newest first, wind new branch oldest first, purge of id-2*genesis_period after a wind that raises the height)",
        "in-window for the ledger monitor: block_id + genesis_period >= latest block id (block N rebroadcasts or drops the outputs of block N-genesis_period-1)",
        "golden tickets only in even-numbered blocks (difficulty stays 0); only transactions that pass Transaction::validate are mined, so the chain-level "
            "defects of C03/C04/C11 are not triggered",
    ],
}
