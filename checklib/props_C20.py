"""C20 — shared locks are taken in the documented global order.

Decided statically (Tie A): `extract` regenerates lean/Saito/Gen/Locks.lean and a JSON report from the current
sources; Lean re-checks the per-tree obligations over the regenerated table; this file turns the report into
KNOWN-FINDING / VIOLATION decisions with a replay file (function, file:line, call path) per offending edge.
There is no harness suite."""
import json, os


def _load(ctx):
    p = os.path.join(ctx["cache"], "extract", "report.json")
    if not os.path.exists(p):
        return None
    return json.load(open(p))


def _edge_replay(e, tree):
    return {"tree": tree, "function": e["fn"], "held_rank": e["held"], "acquired_rank": e["acquired"],
            "at": f'{e["file"]}:{e["line"]}', "held_guard_taken_at_line": e["held_line"] or "implied by &self of the shared structure",
            "call_path": e["via"] or "(direct acquisition)", "inner_acquisition_at": e["acquired_at"],
            "call_resolution": e["how"], "gated": e.get("gated"), "provenance": e["provenance"],
            "how_to_reproduce": "open the file at the line: the guard named above is still alive (let-bound, not dropped, "
                                "or a temporary of the same statement) when the acquisition / call is made"}


def post(ctx):
    r = _load(ctx)
    findings, samples, hist = [], [], {}
    if r is None:
        return {"findings": [{"key": "C20/no-extractor-report", "kind": "translator produced no report",
                              "what": ctx.get("extract_msg", "")[-1500:], "replay": None}]}
    known = ctx["known"]

    def add(key, what, replay, kind="nested lock acquisition against the documented order (static, from the regenerated table)"):
        if not any(f["key"] == key for f in findings):
            findings.append({"key": key, "what": what, "replay": replay, "kind": kind})

    # --- native crates: every non-ascending edge
    keys = set()
    for e in r["edges"]:
        k = (e["fn"], e["held"], e["acquired"])
        keys.add(k)
        hist[f'native:{e["held"]}->{e["acquired"]}'] = hist.get(f'native:{e["held"]}->{e["acquired"]}', 0) + 1
        if not e["held"] < e["acquired"]:
            add(f'C20/{e["fn"]}/{e["held"]}->{e["acquired"]}', e["provenance"], _edge_replay(e, "native (saito-core/saito-rust/saito-spammer)"))
    # --- wasm: nesting outside the gate, re-acquisition of a held lock
    for e in r["wasm_edges"]:
        keys.add(("wasm-table", e["fn"], e["held"], e["acquired"]))
        hist[f'wasm:{e["held"]}->{e["acquired"]}:{"gated" if e["gated"] else "UNGATED"}'] = hist.get(f'wasm:{e["held"]}->{e["acquired"]}:{"gated" if e["gated"] else "UNGATED"}', 0) + 1
        if not e["gated"]:
            add(f'C20/{e["fn"]}/{e["held"]}->{e["acquired"]}/outside-gate', e["provenance"], _edge_replay(e, "saito-wasm"))
        if e["held"] == e["acquired"]:
            add(f'C20/{e["fn"]}/{e["held"]}->{e["acquired"]}', e["provenance"], _edge_replay(e, "saito-wasm"))
    # --- wasm entry points that touch a shared lock without the gate: grouped by type, membership is exact
    ungated = [w for w in r["wasm_entries"] if w["touches"] and not w["gated"]]
    listed = {}
    for kf in known:
        for m in kf.get("members", []):
            listed[m] = kf["key"]
    for w in ungated:
        if w["name"] in listed:
            add(listed[w["name"]], "exported entry points reach a shared lock without taking the SAITO mutex first", None)
        else:
            add(f'C20/wasm-gate/{w["name"]}', f'{w["name"]} ({w["file"]}:{w["line"]}) reaches a shared lock without taking the SAITO mutex first',
                {"tree": "saito-wasm", "function": w["name"], "at": f'{w["file"]}:{w["line"]}',
                 "how_to_reproduce": "read the function: a `.read()/.write().await` on a shared lock (or a call that makes one) occurs while no `SAITO.lock().await` guard is alive"})
    # --- translator health
    for u in r["unranked"]:
        add("C20/unranked-lock", "an acquisition could not be ranked: " + u, {"site": u}, kind="translator could not rank a lock")
    for u in r["reconcile_errors"]:
        add("C20/site-reconciliation", u, {"errors": r["reconcile_errors"][:50]}, kind="translator missed an acquisition site")

    bad = [e for e in r["edges"] if not e["held"] < e["acquired"]]
    samples = [e["provenance"] for e in (bad[:4] + [e for e in r["edges"] if e["held"] < e["acquired"]][:4])]
    extra = {
        "acquisition_sites": r["sites"], "test_sites": r["test_sites"], "wasm_sites": r["wasm_sites"],
        "functions": r["functions"], "files": r["files"],
        "native_edges": len(r["edges"]), "native_non_ascending": len(bad),
        "wasm_edges": len(r["wasm_edges"]), "wasm_edges_outside_gate": len([e for e in r["wasm_edges"] if not e["gated"]]),
        "wasm_entries": len(r["wasm_entries"]), "wasm_entries_touching": len([w for w in r["wasm_entries"] if w["touches"]]),
        "wasm_entries_ungated": [w["name"] for w in ungated],
        "ambiguous_calls_contributing_edges": r["ambiguous"], "locks_ranked_by_name_only": r["name_ranked"],
        "other_locks_not_shared": r["other_locks"], "unparsed_macros": r["notes"],
        "callee_names_under_guard_not_in_analysed_crates": r.get("unresolved_callee_names_under_guard", []),
        "handshake_deadlock_witness_hypotheses_hold": any(e["held"] == 6 and e["acquired"] == 4 for e in r["edges"]) and any(e["held"] == 4 and e["acquired"] == 6 for e in r["edges"]),
    }
    return {"findings": findings, "evaluations": len(r["edges"]) + len(r["wasm_edges"]) + len(r["wasm_entries"]),
            "distinct_nontrivial": len(keys), "samples": samples, "hist": hist, "extra": extra}


def replay(obj, ctx):
    """re-run the translator on the current tree and show whether the recorded edge is still present"""
    ok, msg = ctx["run_extract"]()
    ctx["log"](msg.strip())
    r = json.load(open(os.path.join(ctx["cache"], "extract", "report.json")))
    inp = obj.get("input") or {}
    fn, h, a = inp.get("function"), inp.get("held_rank"), inp.get("acquired_rank")
    hits = list({e["provenance"]: e for e in r["edges"] + r["wasm_edges"] if e["fn"] == fn and e["held"] == h and e["acquired"] == a}.values())
    ctx["log"](json.dumps(obj, indent=1)[:3000])
    if hits:
        for e in hits:
            ctx["log"]("STILL PRESENT: " + e["provenance"])
        return 1
    ctx["log"]("edge no longer present in the current tree")
    return 0


PROP = {
    "uses_gen": True,
    "technique": "Lean 4: generic theorem (strictly ascending lock ranks ⇒ waits-for relation acyclic; gate discipline ⇒ acyclic) proved once + "
                 "per-tree obligation closed by `decide +kernel` over a lock-acquisition table that a syn-based translator regenerates from the "
                 "Rust sources on every run (guard extents, calls under guards, inter-procedural closure)",
    "level_text": "Kernel-checked: (generic) in every system state where each blocked task holds only locks of strictly smaller rank than the one it "
                  "requests there is no waits-for cycle, under a FIFO-fair (write-preferring) RwLock semantics in which equal rank is unsafe; the same "
                  "for the saito-wasm gate discipline. (per tree) every nested acquisition in the regenerated table of saito-core/saito-rust/"
                  "saito-spammer ascends strictly, except the listed known findings; every nested acquisition of the wasm build happens under the "
                  "SAITO mutex and re-acquires nothing, except the listed finding. Hence every state covered by the table minus the findings is "
                  "deadlock-free (no_deadlock_native, no_deadlock_wasm).",
    "level_note": "The table comes from a translator (trusted, validated on every run by a hand-derived corpus and by reconciling its acquisition "
                  "sites with a plain-text token scan). Call resolution is by receiver type where syntactically evident, otherwise by method name "
                  "(union, listed in the evidence). On the pinned tree 4 native edge keys and 1 wasm edge key violate the order and 31 wasm entry "
                  "points bypass the gate (known_findings.json): the check passes with KNOWN-FINDING lines and reports any other edge.",
    "lean_modules": ["Saito.Props.C20"],
    "suites": [],
    "relevant": lambda op, a, b: True,
    "nontrivial": lambda op, a: True,
    "post": post,
    "replay": replay,
    "rule": "exhaustive over the source: every fn / method / closure / async block of saito-core, saito-rust, saito-spammer, saito-wasm is parsed; "
            "every `.read().await` / `.write().await` / `.lock().await` is an acquisition site (count reconciled with a text scan); one case = one "
            "(holder function, held rank, acquired rank, site) edge or one wasm entry point; non-trivial = distinct (function, held, acquired) key",
    "assumptions": [
        "one lock per rank (the shared structures are singletons per process); a lock is identified by the declared type it protects, else by its field/variable name",
        "a guard moved into a callee or stored in a struct is not tracked (none in the tree); closures/async blocks run in the defining task unless passed to spawn*/spawn_blocking",
        "calls through function pointers / trait objects resolve to all implementations in the four crates; calls into other crates acquire none of the ranked locks",
        "channel waits, JoinHandle awaits and std::sync locks are outside the property (only the tokio locks of the ranked structures)",
        "test code (#[cfg(test)], #[test]) is excluded from the obligation; its sites are counted",
    ],
    "trusted_extra": ["extract/corpus: hand-derived expected graphs for 11 Rust files, re-run by ./check (extract --selftest) and cargo test"],
}
