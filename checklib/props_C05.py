def cls(a):
    for t in a.split(" "):
        if t.startswith("res="):
            return t[4:]
    return a.split(" ", 1)[0]

_COMMON = dict(
    suites=["chain"],
    relevant=lambda op, a, b: True,
    assumptions=["histories shorter than genesis_period (no purge at 2*gp, no automatic rebroadcast) — ring wrap is not exercised by this suite",
                 "block validity oracle: honest blocks built by the real Block::create are ok=1, blocks with a tampered (re-signed) difficulty are ok=0",
                 "utxo keys of distinct outputs are distinct (they embed block id, tx ordinal, slip index)"],
)
PROP = dict(_COMMON,
    technique="Lean 4 theorems stating the fork-choice decision logic outright (longest-chain test iff, equal length never wins, golden-ticket window rule) plus kernel-checked witnesses of the orphan-branch and ticket-density defects; differential run of add_block with an independent fork-choice monitor",
    level_text="Kernel-checked for all inputs: the longest-chain test holds iff the candidate is strictly longer, at least as heavy over the diverging segment and ends above the tip; an equally long candidate never wins; the ticket rule as coded. "
               "Witness theorems show the pinned orphan branch lowers the tip and the tip-only density check adopts a ticket-less side chain. AddBlockResult class and tip compared with the model after every delivery; the monitor checks height monotonicity, orphan inertness, 'moves only to a better chain' and adoption.",
    level_note="Adoption/monotonicity over whole histories are checked by correspondence + monitor; the pinned tree violates the property on out-of-order deliveries and on interior ticket density (known findings).",
    lean_modules=["Saito.Props.C05", "Saito.Props.C05Gen"],
    uses_gen=True,
    nontrivial=lambda op, a: cls(a) in ("added_lc", "added_side"),
    rule="same trees and delivery orders as C03, golden-ticket placement and burn-fee profile (timestamp gaps 201..2500 ms) seeded per tree, plus the 17-block ticket-density witness; non-trivial = distinct delivery accepted onto the longest or a side chain",
)
