"""C01 — only authorised, existing, unspent outputs are ever spent."""


def _label(op):
    for t in op.split(" ", 3)[:3]:
        if t.startswith("e="):
            return t[2:]
    return ""


def _edit(op):
    parts = _label(op).split("/")
    if op.startswith("tx "):
        return parts[1] if len(parts) > 1 else ""
    return parts[2] if len(parts) > 2 else ""


PROP = {
    "technique": "Lean 4 theorems over an executable model of Transaction::validate (every type's decision order and early returns), "
                 "the two pool entry points, Block::generate's duplicate map, the transaction sweep of Block::validate and the supply check, "
                 "+ differential run against the real Transaction::validate / Mempool::add_transaction_if_validates / "
                 "VerificationThread::verify_tx / Block::generate / Block::validate / Blockchain::add_block on real signed transactions and blocks "
                 "+ independent monitors on everything the node accepted",
    "level_text": "Kernel-checked for every pre-state, every block and every position: with the ten listed defects repaired, acceptance by block "
                  "validation (C01_full) or by the pool (C01_full_pool) implies that every value-carrying input of every user transaction is in the "
                  "spendable set, inside the retention window, owned by the key whose signature verified, and named once in the whole block; the other "
                  "transactions of an accepted block are exactly the protocol's own (system_txs_fixed); every edit of the adversarial catalogue "
                  "(forged/missing/foreign signature, foreign-owned extra input, non-existent / already-spent / abandoned-branch / expired input, "
                  "duplicated input in a transaction or across the block, privileged type Fee/SPV/ATR/Issuance/BlockStake) is refused by block "
                  "validation AND by the pool (edit_rejected_*). For each defect flag a kernel-checked witness shows the pinned behaviour accepting the "
                  "bad input and the single repair refusing it; C01_partial states what the pinned pool path still guarantees. The model agrees with "
                  "the real code on every generated case, before and after the candidate repairs (flags are measured on the tree under test).",
    "level_note": "On the pinned tree the property is violated (known findings: nine input classes through block validation, eight through the pool). "
                  "./check passes with KNOWN-FINDING lines and reports any acceptance outside the listed classes, any rejected honest block, and any "
                  "model/implementation disagreement.",
    "lean_modules": ["Saito.Props.C01"],
    "suites": ["txv"],
    "relevant": lambda op, a, b: op.startswith("tx ") or op.startswith("blk "),
    "nontrivial": lambda op, a: (op.startswith("tx ") or op.startswith("blk ")) and _edit(op) not in ("", "none"),
    "rule": "corpus/C01/*.ops first (one witness per defect + honest blocks). Then for each chain state {fresh 3-block chain; after a "
            "reorganisation (abandoned branch A1, adopted B1-B2); genesis period 5 at height 8 with fees, rebroadcasts and unrebroadcastable dust "
            "(retention window); social staking on} a valid candidate block on the tip is built by the real Block::create (3 two-input user "
            "transactions of 3 owners, with and without golden ticket/fee transaction, rebroadcasts where due), and EACH edit of the catalogue "
            "(31 edits, see harness/src/txv.rs `catalogue`) is applied at EACH transaction position (first/middle/last) and input position "
            "(first/last); the edited transaction goes to Transaction::validate (utxo check on and off), a fresh Mempool and "
            "VerificationThread::verify_tx; the edited block goes through the wire format to Block::generate, Block::validate and "
            "Blockchain::add_block on a fresh node in that state (panics caught). Oracle bits (signature verifies for from[0], routing path, "
            "expected fee transaction, expected rebroadcasts, creator signature, stored root = recomputed root, stake lock, window) are computed by "
            "the harness with the crypto primitives, not taken from the verdict. thorough: 3 seeds. non-trivial = distinct case with an edit other "
            "than `none`",
    "assumptions": [
        "validate_against_utxo = true in block validation theorems (the node has its genesis block / a genesis period of blocks; otherwise the code skips the utxo check altogether)",
        "amount sums stay below 2^64 (overflow is C02's subject); NFT structure rules of Bound-typed transactions are an oracle bit and Bound-typed transactions are not generated",
        "SigSound: a signature that verifies against the key of the first input was made by that key's owner (unforgeability)",
        "the header checks of Block::validate other than signature / issuance / staking count / rebroadcast commitment / merkle / fee transaction are the oracle bit `hdr` (candidates are built by the real Block::create with fee-neutral edits, so hdr = 1)",
        "candidates extend the current tip of a node whose supply is recorded (single-block wind); fork choice and multi-block reorganisation are C03-C05",
        "pool cases use a fresh Mempool (no input reservations)",
    ],
    "repair_check": "the repaired branches of the model were compared with patched scratch copies of saito-core (txVerdictPropagated alone, "
                    "merkleAlwaysCompared alone, both, both + dupInputsDetected as in notes/candidate-fixes.diff): flags measured accordingly, "
                    "0 disagreements, every honest block accepted",
    "trusted_extra": ["harness/src/txv.rs: projection of slips to key ids / owners, oracle bits, scenario builder (real Block::create against a producer node)"],
}
