"""Per-property configuration of ./check: which Lean modules carry the property theorems, which harness
suites tie the model to the code, which request lines are relevant / non-trivial for the property."""


def cls(ans):
    return ans.split(" ", 1)[0]


PROPS = {}

PROPS["C09"] = {
    "technique": "Lean 4 round-trip theorems (decode∘encode = id, size prediction, identity bytes preserved) over an executable codec model + differential run against the real encoders/decoders",
    "level_text": "Kernel-checked theorems: for every well-formed slip, hop, transaction (and further formats as listed in the evidence) decode(encode v) = v, "
                  "encoded length = predicted size, the signed/hashed bytes survive, the encoder is injective — for all values, not samples. The model is tied to the code "
                  "by running both on the same bytes (all formats and all 15 message tags) and diffing re-encoded bytes and field dumps.",
    "level_note": "Formats whose round-trip theorem is not yet proved are covered by the correspondence run only; the evidence lists the theorems.",
    "lean_modules": ["Saito.Props.C09", "Saito.Props.C09Gen"],
    "uses_gen": True,
    "suites": ["codec"],
    # a disagreement matters for C09 when a value is involved on either side
    "relevant": lambda op, a, b: cls(a) == "ok" or cls(b) == "ok",
    "nontrivial": lambda op, a: cls(a) == "ok",
    "rule": "type-directed generator over the repo's own types (all enum variants, 0/1/2/254/255 slips, empty..64KiB payloads, 0-6 hops, "
            "edge integers 0,1,2^32-1,2^63,2^64-1 in every field, all 15 message tags) encoded by the real encoder, plus truncations/"
            "corruptions; the real decoder's value is re-encoded and field-dumped and compared with the Lean model's decode/re-encode/dump "
            "of the same bytes; non-trivial = distinct input accepted (ok) by the real decoder",
    "assumptions": ["lossy encodings (more than 255 slips, lengths >= 2^32) are excluded by the explicit wf predicates of the theorems"],
}

PROPS["C10"] = {
    "technique": "Lean 4 totality theorems (∀ byte strings, decoder ≠ panic) and exact panic-class theorems over an executable decoder model with explicit panic outcomes + differential run under catch_unwind with a counting allocator",
    "level_text": "Kernel-checked: for every byte string the modelled decoder returns ok/err, never panic (with each listed defect repaired), and for the pinned decoders "
                  "a panic implies membership in a precisely delimited input class (the known findings). The model's outcome class is compared with the real decoder on "
                  "systematic truncations and length-field corruptions of every format; allocation is measured directly.",
    "level_note": "On the pinned tree four decoders do panic (known_findings.json); the check passes with KNOWN-FINDING lines and reports any panic outside the listed classes.",
    "lean_modules": ["Saito.Props.C10", "Saito.Props.C09Gen"],
    "uses_gen": True,
    "suites": ["codec"],
    "relevant": lambda op, a, b: cls(a) != cls(b),
    "nontrivial": lambda op, a: cls(a) != "ok",
    "rule": "for every format and message tag: every truncation of valid encodings, every length/count field set to "
            "{0,1,len-1,len,len+1,255,256,2^31,2^32-1}, byte flips, extensions, random strings; the real decoder runs under catch_unwind "
            "with a counting allocator; outcome class (ok/err/panic) compared with the Lean model; non-trivial = distinct input the real "
            "decoder does not accept (err or panic)",
    "assumptions": ["allocation is measured by a counting global allocator around the decoder call only; bound checked: peak <= 8*len + 4096"],
}


# further properties: one file per property (checklib/props_Cxx.py defining PROP = {...})
import glob, importlib.util, os as _os
for _f in sorted(glob.glob(_os.path.join(_os.path.dirname(_os.path.abspath(__file__)), "props_C*.py"))):
    _spec = importlib.util.spec_from_file_location(_os.path.basename(_f)[:-3], _f)
    _m = importlib.util.module_from_spec(_spec)
    _spec.loader.exec_module(_m)
    PROPS[_os.path.basename(_f)[6:-3]] = _m.PROP
