def cls(a):
    for t in a.split(" "):
        if t.startswith("res="):
            return t[4:]
    return a.split(" ", 1)[0]

_COMMON = dict(
    suites=["chain"],
    relevant=lambda op, a, b: True,
    assumptions=["histories shorter than genesis_period (no purge at 2*gp, no automatic rebroadcast) — ring wrap is not exercised by this suite",
                 "block validity oracle: honest blocks built by the real Block::create are ok=1, blocks with a tampered (re-signed) difficulty are ok=0",
                 "utxo keys of distinct outputs are distinct (they embed block id, tx ordinal, slip index)"],
)
PROP = dict(_COMMON,
    technique="Lean 4 theorems on the wind/unwind algebra (unwind∘wind = id, segment unwinding, reorg = replay) and on the ring item, over an executable model of add_block; differential run against the real Blockchain::add_block on real blocks; independent replay monitor",
    level_text="Kernel-checked for segments of every length: unwinding a cleanly wound segment restores the spendable set exactly; a reorganisation maps replay(P++O) to replay(P++N); "
               "deleting a just-added block restores the ring item (repaired delete). The model of add_block/ring/loop (incl. its defects) agrees with the real code on every delivery of "
               "exhaustive small block trees x all delivery orders and random larger ones; an independent monitor replays the reported longest chain from genesis after every call.",
    level_note="The full invariant (index + flags + tip) through fork choice is established by correspondence and monitor, not by one theorem; the pinned tree violates the property on histories with a block delivered before its parent (known findings).",
    lean_modules=["Saito.Props.C03"],
    nontrivial=lambda op, a: cls(a) in ("added_lc", "invalid"),
    rule="all rooted block trees with <=4 (quick) / <=5 (thorough) non-genesis blocks, seeded attributes (golden tickets, burn-fee profile via timestamps, value transactions incl. cross-branch spends, one tampered block), ALL delivery permutations (plus duplicates), and random 6..14-block multi-branch histories with back-and-forth reorganisations; real blocks (real signatures, tickets, fee transactions) delivered to a fresh real node; after every add_block: result class, tip, by-height index, spendable set, on-chain flags, stored blocks compared with the model; non-trivial = distinct delivery whose block went onto the longest chain or was rejected",
)
