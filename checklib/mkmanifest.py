#!/usr/bin/env python3
"""Regenerates /verif/MANIFEST.json from checklib/props.py (claimed properties) and properties.jsonl."""
import json, os, sys
V = os.path.dirname(os.path.dirname(os.path.abspath(__file__)))
sys.path.insert(0, os.path.join(V, "checklib"))
from props import PROPS

NOTE = ("Trusted base: Lean 4.33 kernel with axioms ⊆ {propext, Classical.choice, Quot.sound} (audited per theorem on every run); the "
        "hand-written Lean model is tied to /repo by a differential correspondence run (real code vs `driver`, same inputs) and, where "
        "stated, by tables regenerated from the source by /verif/extract; idealised crypto; generators bound what the correspondence sees. ")
m = {
    "version": 1,
    "setup_cmd": "./check --setup",
    "hooks": {"guard": "saito_verif", "enable": "no source hooks are used: checks build /repo/saito-core as a path dependency of /verif/harness",
              "baseline_off_cmd": "cd /repo && (cargo nextest run --workspace --no-fail-fast --test-threads 8 --offline || cargo test --workspace --no-fail-fast --offline)",
              "source_commits": [], "add_only": True},
    "engines": [{"name": "lean-proof+correspondence", "path": "check", "serves_properties": sorted(PROPS),
                 "kind_free_text": "Lean 4 theorems about executable models (lean/Saito), differential correspondence harness (harness/), source-to-Lean table translator (extract/)"}],
    "checks": [], "not_applicable": [],
    "notes": "All checks: ./check <id> [--tier quick|thorough]; VERIF_SEED / VERIF_TIER honoured; known findings in known_findings.json; see DESIGN.md.",
}
for l in open(os.path.join(V, "properties.jsonl")):
    p = json.loads(l)
    pid = p["id"]
    if pid in PROPS:
        c = PROPS[pid]
        m["checks"].append({
            "property_id": pid,
            "quick_cmd": f"./check {pid} --tier quick",
            "thorough_cmd": f"./check {pid} --tier thorough",
            "evidence_file": f"evidence/{pid}.json",
            "replay_cmd_template": f"./check {pid} --replay {{path}}",
            "engine": "lean-proof+correspondence",
            "level_claimed": {"category": "proof", "text": c["level_text"], "design_ref": f"DESIGN.md §6-{pid}"},
            "level_note": NOTE + c.get("level_note", ""),
            "technique": c["technique"],
        })
    else:
        m["not_applicable"].append({"property_id": pid, "reason": "not yet claimed: the Lean model / correspondence for this property is still under construction (DESIGN.md §6, §8); it is planned to be claimed, not abandoned"})
json.dump(m, open(os.path.join(V, "MANIFEST.json"), "w"), indent=1, ensure_ascii=False)
print("claimed:", [c["property_id"] for c in m["checks"]])
