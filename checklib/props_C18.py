"""C18 — a lite block is a faithful projection of its full block."""


def _entries(a):
    return a.split(" ", 1)[0]


PROP = {
    "technique": "Lean 4 theorems over an executable model of MerkleTree::generate / Block::generate_lite_block / the receiver's "
                 "generate_hash_for_signature with hashes as free terms (any combiner H, no collision-freeness) + exhaustive differential "
                 "run on real blocks (real keys, signatures, blake3)",
    "level_text": "Kernel-checked, for every transaction list, every keep pattern (every key list) and any hash combiner: with the three listed "
                  "defects repaired the root recomputed from the lite block equals the full block's, before and after the wire "
                  "(root_recomputable, root_recomputable_wire, lite_commitment_fixed); on every tree the relevant transactions are carried "
                  "unchanged and in order, placeholder counts add up, header/hash/signature are copied (kept_exactly, keeps_relevant, "
                  "lite_covers, placeholder_counts, header_projection, header_equal, wire_hash_intact). For the pinned tree the set of "
                  "inputs on which the root is still recomputable is characterised exactly (root_partial_exact: iff no sibling pair "
                  "(2j,2j+1) is omitted as a whole; wire_partial_exact: after the wire iff nothing is omitted). The model is tied to the "
                  "code by building real blocks for n = 0..8 (thorough 0..12) transactions x all 2^n keep patterns x random key lists and "
                  "comparing the lite list's structure, every placeholder's hash and signature prefix, and the three roots (the model's "
                  "root TERMS are evaluated with the real blake3 and compared with the real digests).",
    "level_note": "On the pinned tree the property is violated (known findings: three defects, four input classes); ./check passes with KNOWN-FINDING lines and reports "
                  "any violation outside the listed input classes.",
    "lean_modules": ["Saito.Props.C18"],
    "suites": ["merkle"],
    "relevant": lambda op, a, b: True,
    "nontrivial": lambda op, a: "P" in _entries(a),
    "rule": "corpus/C18/*.ops first; then EXHAUSTIVE: every transaction count n = 0..8 (thorough 0..12) x every one of the 2^n keep patterns, "
            "each realised (thorough: twice) by a random key list (1-3 listed keys, 1/8 empty) and random transactions (a kept transaction pays to a listed "
            "key, spends from one, both, or is a golden ticket; an omitted one uses unlisted keys only; 0-2 extra slips per side); plus "
            "60 (thorough 400) random patterns with 9..28 (thorough 13..28) transactions. Every block is real: distinct data per transaction (all hashes "
            "distinct), secp256k1 signatures, Block::generate + sign. non-trivial = distinct case whose lite block has at least one placeholder",
    "assumptions": [
        "full blocks contain no SPV-type transaction and every transaction has txs_replacements = 1 (what Block::create produces; "
        "transaction validation does not enforce it; a direct probe of the harness shows the root is NOT recomputable for an omitted "
        "transaction whose own txs_replacements is 2 — known finding C18/merkle/omitted-tx-has-own-replacement-count, outside the model)",
        "every transaction of the full block has its hash_for_signature (Block::generate / Transaction::sign was called)",
        "the full block's merkle_root field is the root of its transaction tree (Block::generate); header_equal / wire_hash_intact "
        "state this as the hypothesis `Consistent`",
        "hash terms are compared with blake3 digests by evaluation: equality of digests is taken as equality of terms (no collision)",
    ],
    "repair_check": "the repaired-flag branches of the model were compared with a patched copy of saito-core (notes/candidate-fix-C18.diff: all three "
                    "repairs, and each repair alone): flags measured 1/1/1, 1/0/0, 0/1/0, 0/0/1, 0 disagreements, all roots recomputed with all three",
    "trusted_extra": ["harness/src/merkle.rs: term evaluator (L<i> = hash_for_signature, S<i> = signature[0..32], N = blake3 of the concatenation)"],
}
