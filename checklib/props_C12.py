def cls(a):
    for t in a.split(" "):
        if t.startswith("res="):
            return t[4:]
    return a.split(" ", 1)[0]


def _replay(obj, ctx):
    """re-run a recorded C12 violation: the history (and with it every crash point) on the real loading path"""
    import os, subprocess
    inp = obj.get("input") or {}
    c = inp.get("case", inp)
    binp = os.path.join(ctx["root"], ".cache", "target", "debug", "harness")
    if not isinstance(c, dict) or "spec" not in c or not os.path.exists(binp):
        ctx["log"](str(obj)[:4000])
        return 0
    p = subprocess.run([binp, "disk-one", str(c.get("seed", 1)), c["spec"], "x"], stdout=subprocess.PIPE, stderr=subprocess.STDOUT, text=True,
                       env=dict(os.environ, VERIF_ROOT=ctx["root"]))
    ctx["log"](p.stdout.strip())
    return 0


PROP = dict(
    technique="Lean 4 theorems over an executable model of the block-file journal, crashes (every prefix, last write complete/absent/torn) and the start-up "
              "loading path (ConsensusThread::on_init) on top of the add_block model; kernel-checked proof that every strict prefix of a block encoding is rejected by "
              "the block decoder; differential run of the REAL loading path (a real ConsensusThread::on_init over an in-memory InterfaceIO) on every crash point of "
              "generated histories; direct monitors on the real node",
    level_text="Kernel-checked: (1) the block decoder returns an error on EVERY strict prefix of the encoding of every well-formed block, so a torn file is never read as a "
               "block; (2) restart of the disk of a live node reproduces the node's state exactly (tip, spendable set, supply, block store) for every history whose delivery "
               "order is the loading order (all linear histories); (3) for such histories a crash after ANY number of storage operations with the interrupted write absent or "
               "torn restarts the node in exactly the state the live node had after those operations, and its next add_block behaves as the live node's did; (4) with the "
               "loader repaired a torn file is equivalent to an absent one for EVERY journal and crash point; (5) witnesses for the three reproduced defects. The model is "
               "compared with the real loading path on every crash point (tip, spendable set, block store, files left on disk, result of extending the chain).",
    level_note="partial: OS write reordering, fsync and directory-entry durability are not modelled (a crash leaves exactly the first k operations plus optionally a strict "
               "prefix of the next file — confirmed for create+write_all on a real file system); histories with purge at 2*genesis_period / automatic rebroadcast are covered "
               "by the direct monitors on the real code only (the chain model has no purge); the crash theorem at full strength is proved for histories delivered in loading "
               "order, for forks the pinned tree violates the property (known findings).",
    lean_modules=["Saito.Props.C12"],
    suites=["disk"],
    relevant=lambda op, a, b: True,
    nontrivial=lambda op, a: op.startswith("restart") and " 0 clean" not in op and cls(a) == "ok",
    rule="histories generated on a real node over an in-memory InterfaceIO (blocks by the real Block::create against that node's own chain: linear; forks with side-branch "
         "blocks written late under older timestamps; equal-length branches; genesis_period 5..8 so that files are purged at 2*gp and outputs are rebroadcast), the storage "
         "journal recorded; clean restart of the final disk; then EVERY journal prefix k (quick: thinned on histories with more than 14 operations) x last write {absent, torn at "
         "0 bytes, inside the header, exactly at the header end, inside the fixed part and the body of transactions, at a transaction boundary, last byte missing}; each crashed "
         "disk is loaded by a real ConsensusThread::on_init in a child process with a watchdog; compared with the model: tip, spendable set, block store, files left, result of "
         "adding a child of the restarted tip; a sample of crashes DURING the restart's own re-writes; non-trivial = distinct crash point on which the real loading path came back",
    replay=_replay,
    assumptions=["file names sort as (timestamp, hash): decimal timestamps of equal width",
                 "a crash leaves the first k journal operations applied and at most one torn file (no reordering, no lost directory entries)",
                 "the model comparison covers histories shorter than genesis_period; purging histories are checked by the direct monitors only"],
)
