def cls(a):
    for t in a.split(" "):
        if t.startswith("res="):
            return t[4:]
    return a.split(" ", 1)[0]

_COMMON = dict(
    suites=["chain"],
    relevant=lambda op, a, b: True,
    assumptions=["histories shorter than genesis_period (no purge at 2*gp, no automatic rebroadcast) — ring wrap is not exercised by this suite",
                 "block validity oracle: honest blocks built by the real Block::create are ok=1, blocks with a tampered (re-signed) difficulty are ok=0",
                 "utxo keys of distinct outputs are distinct (they embed block id, tx ordinal, slip index)"],
)
PROP = dict(_COMMON,
    technique="Lean 4: totality and ledger-restoration theorems for the repaired failure path, a kernel-checked period-5 cycle proving non-termination of the pinned Wind/Unwind loop for every fuel, over the executable add_block model; differential run with a watchdog child process",
    level_text="Kernel-checked: the repaired reorganisation always returns and a failed one restores the spendable set (any fork shape / position / length); on the pinned control flow the three-block candidate with an invalid last block "
               "cycles forever (theorem for all fuel values, via the cycle). The real add_block runs every case in a child process; silence becomes the verdict `stall` and is compared with the model's; a full observable snapshot is compared before/after every rejected block.",
    level_note="On the pinned tree add_block livelocks / corrupts the index on failed multi-block reorganisations (known findings); the full no-trace theorem is proved for the repaired path only.",
    lean_modules=["Saito.Props.C04"],
    nontrivial=lambda op, a: cls(a) in ("invalid", "stall", "panic"),
    rule="same trees and delivery orders as C03; the offending (tampered) block at first / middle / last position of candidate chains with empty and non-empty competitors (hand-written corpus first); non-trivial = distinct delivery that was rejected, stalled or panicked",
)
