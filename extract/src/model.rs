//! Data model of the extractor: simplified types, lock identities, function table.
use std::collections::{BTreeMap, BTreeSet, HashMap};

/// a type after stripping wrappers (Arc, Box, &, Option, Vec, maps → value type …)
#[derive(Clone, Debug, PartialEq, Eq, Hash, PartialOrd, Ord)]
pub enum Ty {
    /// tokio RwLock<T> / Mutex<T>
    Lock(Box<Ty>),
    Named(String),
    Unknown,
}

/// identity of a lock. `Ranked(0)` is the saito-wasm global gate (SAITO).
#[derive(Clone, Debug, PartialEq, Eq, Hash, PartialOrd, Ord)]
pub enum LockId {
    Ranked(u8),
    /// a lock whose protected type is known and is NOT one of the shared structures (private helper lock)
    Other(String),
    /// could not be classified at all (neither by type nor by name): this is an ERROR of the extraction
    Unknown(String),
}

pub const RANK_GATE: u8 = 0;

impl LockId {
    pub fn rank(&self) -> Option<u8> {
        match self {
            LockId::Ranked(r) => Some(*r),
            _ => None,
        }
    }
}

/// rank from the protected type's name
pub fn lock_of_inner(inner: &Ty) -> Option<LockId> {
    match inner {
        Ty::Named(n) => Some(match n.as_str() {
            "NetworkController" => LockId::Ranked(1),
            "PeerSender" => LockId::Ranked(2),
            "Blockchain" => LockId::Ranked(4),
            "Mempool" => LockId::Ranked(5),
            "PeerCollection" => LockId::Ranked(6),
            "Wallet" => LockId::Ranked(7),
            "SaitoWasm" => LockId::Ranked(RANK_GATE),
            s if s.contains("Config") => LockId::Ranked(3),
            s => LockId::Other(s.to_string()),
        }),
        _ => None,
    }
}

/// rank from the field / variable name (fallback when no type is syntactically available)
pub fn lock_of_name(name: &str) -> Option<LockId> {
    let n = name.to_lowercase();
    if n == "saito" {
        return Some(LockId::Ranked(RANK_GATE));
    }
    if n.contains("network_controller") || n.contains("io_controller") {
        return Some(LockId::Ranked(1));
    }
    if n.contains("socket") {
        return Some(LockId::Ranked(2));
    }
    if n.contains("config") {
        return Some(LockId::Ranked(3));
    }
    if n.contains("blockchain") {
        return Some(LockId::Ranked(4));
    }
    if n.contains("mempool") {
        return Some(LockId::Ranked(5));
    }
    if n.contains("peer") {
        return Some(LockId::Ranked(6));
    }
    if n.contains("wallet") {
        return Some(LockId::Ranked(7));
    }
    None
}

/// the shared structures whose methods can only run while the corresponding lock is held by the caller
pub fn implicit_rank_of_self(self_ty: &str) -> Option<u8> {
    match self_ty {
        "Blockchain" => Some(4),
        "Mempool" => Some(5),
        "PeerCollection" => Some(6),
        "Wallet" => Some(7),
        _ => None,
    }
}

#[derive(Clone)]
pub enum Body {
    Block(syn::Block),
    Expr(syn::Expr),
    None,
}

#[derive(Clone)]
pub struct FnInfo {
    pub id: usize,
    pub krate: String,
    pub file: String,
    pub line: usize,
    pub self_ty: Option<String>,
    pub trait_name: Option<String>,
    pub name: String,
    pub qual: String,
    pub has_self: bool,
    pub params: Vec<(String, Ty)>,
    pub ret: Ty,
    pub is_test: bool,
    pub exported: bool,
    pub body: Body,
    /// detached bodies (spawned tasks) inherit the variable types of the parent at the spawn point
    pub inherited_env: Vec<(String, Ty)>,
    pub detached: bool,
}

#[derive(Default)]
pub struct Globals {
    pub fns: Vec<FnInfo>,
    pub by_name: HashMap<String, Vec<usize>>,
    pub by_type: HashMap<(String, String), Vec<usize>>,
    pub by_trait: HashMap<(String, String), Vec<usize>>,
    pub structs: HashMap<String, BTreeMap<String, BTreeSet<Ty>>>,
    pub field_any: HashMap<String, BTreeSet<Ty>>,
    pub traits: BTreeSet<String>,
    pub types: BTreeSet<String>,
    pub statics: HashMap<String, Ty>,
    pub aliases: HashMap<String, syn::Type>,
}

impl Globals {
    pub fn add_fn(&mut self, mut f: FnInfo) -> usize {
        let id = self.fns.len();
        f.id = id;
        if !f.detached {
            self.by_name.entry(f.name.clone()).or_default().push(id);
            if let Some(t) = &f.self_ty {
                self.by_type.entry((t.clone(), f.name.clone())).or_default().push(id);
            }
            if let Some(t) = &f.trait_name {
                self.by_trait.entry((t.clone(), f.name.clone())).or_default().push(id);
            }
        }
        self.fns.push(f);
        id
    }

    /// simplify a syntactic type
    pub fn norm(&self, t: &syn::Type, self_ty: Option<&str>) -> Ty {
        self.norm_d(t, self_ty, 0)
    }

    fn norm_d(&self, t: &syn::Type, self_ty: Option<&str>, depth: usize) -> Ty {
        if depth > 12 {
            return Ty::Unknown;
        }
        match t {
            syn::Type::Reference(r) => self.norm_d(&r.elem, self_ty, depth + 1),
            syn::Type::Paren(p) => self.norm_d(&p.elem, self_ty, depth + 1),
            syn::Type::Group(p) => self.norm_d(&p.elem, self_ty, depth + 1),
            syn::Type::Ptr(p) => self.norm_d(&p.elem, self_ty, depth + 1),
            syn::Type::Slice(p) => self.norm_d(&p.elem, self_ty, depth + 1),
            syn::Type::Array(p) => self.norm_d(&p.elem, self_ty, depth + 1),
            syn::Type::TraitObject(o) => {
                for b in &o.bounds {
                    if let syn::TypeParamBound::Trait(tb) = b {
                        if let Some(s) = tb.path.segments.last() {
                            return Ty::Named(s.ident.to_string());
                        }
                    }
                }
                Ty::Unknown
            }
            syn::Type::ImplTrait(o) => {
                for b in &o.bounds {
                    if let syn::TypeParamBound::Trait(tb) = b {
                        if let Some(s) = tb.path.segments.last() {
                            return Ty::Named(s.ident.to_string());
                        }
                    }
                }
                Ty::Unknown
            }
            syn::Type::Path(p) => {
                let seg = match p.path.segments.last() {
                    Some(s) => s,
                    None => return Ty::Unknown,
                };
                let name = seg.ident.to_string();
                let args: Vec<&syn::Type> = match &seg.arguments {
                    syn::PathArguments::AngleBracketed(a) => a
                        .args
                        .iter()
                        .filter_map(|x| if let syn::GenericArgument::Type(t) = x { Some(t) } else { None })
                        .collect(),
                    _ => vec![],
                };
                let arg = |i: usize| -> Ty {
                    match args.get(i) {
                        Some(t) => self.norm_d(t, self_ty, depth + 1),
                        None => Ty::Unknown,
                    }
                };
                match name.as_str() {
                    "RwLock" | "Mutex" => {
                        if args.is_empty() {
                            Ty::Named(name)
                        } else {
                            Ty::Lock(Box::new(arg(0)))
                        }
                    }
                    "Arc" | "Box" | "Rc" | "Option" | "Vec" | "VecDeque" | "RefCell" | "Pin" | "Cell" | "HashSet"
                    | "AHashSet" | "BTreeSet" | "Result" | "RwLockReadGuard" | "RwLockWriteGuard" | "MutexGuard"
                    | "OwnedRwLockReadGuard" | "OwnedRwLockWriteGuard" | "OwnedMutexGuard" | "Weak" => {
                        if args.is_empty() {
                            Ty::Named(name)
                        } else {
                            arg(0)
                        }
                    }
                    "HashMap" | "AHashMap" | "BTreeMap" => {
                        if args.len() >= 2 {
                            arg(1)
                        } else {
                            Ty::Named(name)
                        }
                    }
                    "Self" => match self_ty {
                        Some(s) => Ty::Named(s.to_string()),
                        None => Ty::Unknown,
                    },
                    _ => {
                        if p.path.segments.len() == 1 {
                            if let Some(a) = self.aliases.get(&name) {
                                return self.norm_d(a, self_ty, depth + 1);
                            }
                        }
                        Ty::Named(name)
                    }
                }
            }
            _ => Ty::Unknown,
        }
    }

    pub fn is_known_type(&self, n: &str) -> bool {
        self.types.contains(n) || self.traits.contains(n)
    }
}
