//! Plain-text scan used for SITE RECONCILIATION: independent of syn. It blanks comments and string / char literals
//! (keeping newlines) and then looks for the token sequence `. (read|write|lock) ( ) . await` with arbitrary
//! white space in between. The extractor must attribute exactly these sites (same file, same line of the method
//! identifier); otherwise ./check reports an error.

/// replace the contents of comments, string literals and char literals by blanks; newlines are preserved
pub fn blank_comments_and_literals(src: &str) -> String {
    let c: Vec<char> = src.chars().collect();
    let n = c.len();
    let mut out: Vec<char> = Vec::with_capacity(n);
    let mut i = 0;
    let blank = |ch: char| if ch == '\n' { '\n' } else { ' ' };
    while i < n {
        let ch = c[i];
        // line comment
        if ch == '/' && i + 1 < n && c[i + 1] == '/' {
            while i < n && c[i] != '\n' {
                out.push(' ');
                i += 1;
            }
            continue;
        }
        // block comment (nested)
        if ch == '/' && i + 1 < n && c[i + 1] == '*' {
            let mut depth = 0usize;
            while i < n {
                if c[i] == '/' && i + 1 < n && c[i + 1] == '*' {
                    depth += 1;
                    out.push(' ');
                    out.push(' ');
                    i += 2;
                } else if c[i] == '*' && i + 1 < n && c[i + 1] == '/' {
                    depth -= 1;
                    out.push(' ');
                    out.push(' ');
                    i += 2;
                    if depth == 0 {
                        break;
                    }
                } else {
                    out.push(blank(c[i]));
                    i += 1;
                }
            }
            continue;
        }
        // raw string r"..", r#".."#, br#".."#
        let prev_ident = i > 0 && (c[i - 1].is_alphanumeric() || c[i - 1] == '_');
        if !prev_ident && (ch == 'r' || (ch == 'b' && i + 1 < n && c[i + 1] == 'r')) {
            let mut j = i + if ch == 'b' { 2 } else { 1 };
            let mut hashes = 0;
            while j < n && c[j] == '#' {
                hashes += 1;
                j += 1;
            }
            if j < n && c[j] == '"' {
                // it is a raw string
                j += 1;
                loop {
                    if j >= n {
                        break;
                    }
                    if c[j] == '"' {
                        let mut k = 0;
                        while k < hashes && j + 1 + k < n && c[j + 1 + k] == '#' {
                            k += 1;
                        }
                        if k == hashes {
                            j += 1 + hashes;
                            break;
                        }
                    }
                    j += 1;
                }
                while i < j.min(n) {
                    out.push(blank(c[i]));
                    i += 1;
                }
                continue;
            }
        }
        // ordinary string (also b"..")
        if ch == '"' {
            out.push(' ');
            i += 1;
            while i < n && c[i] != '"' {
                if c[i] == '\\' && i + 1 < n {
                    out.push(' ');
                    out.push(blank(c[i + 1]));
                    i += 2;
                } else {
                    out.push(blank(c[i]));
                    i += 1;
                }
            }
            if i < n {
                out.push(' ');
                i += 1;
            }
            continue;
        }
        // char literal vs lifetime
        if ch == '\'' {
            if i + 1 < n && c[i + 1] == '\\' {
                // escaped char literal: up to the closing quote
                let mut j = i + 2;
                while j < n && c[j] != '\'' {
                    j += 1;
                }
                j += 1;
                while i < j.min(n) {
                    out.push(blank(c[i]));
                    i += 1;
                }
                continue;
            }
            if i + 2 < n && c[i + 2] == '\'' {
                out.push(' ');
                out.push(' ');
                out.push(' ');
                i += 3;
                continue;
            }
            // lifetime
            out.push(ch);
            i += 1;
            continue;
        }
        out.push(ch);
        i += 1;
    }
    out.into_iter().collect()
}

fn is_ident_char(ch: char) -> bool {
    ch.is_alphanumeric() || ch == '_'
}

/// lines (1-based, line of the method identifier) of every `.read().await` / `.write().await` / `.lock().await`
pub fn acquisition_token_lines(src: &str) -> Vec<(usize, String)> {
    let text = blank_comments_and_literals(src);
    let c: Vec<char> = text.chars().collect();
    let n = c.len();
    let mut res = vec![];
    let mut line = 1usize;
    let mut i = 0;
    let skip_ws = |mut j: usize| {
        while j < n && c[j].is_whitespace() {
            j += 1;
        }
        j
    };
    while i < n {
        if c[i] == '\n' {
            line += 1;
            i += 1;
            continue;
        }
        if c[i] == '.' {
            let j = skip_ws(i + 1);
            // identifier
            let mut k = j;
            while k < n && is_ident_char(c[k]) {
                k += 1;
            }
            let id: String = c[j..k].iter().collect();
            if id == "read" || id == "write" || id == "lock" {
                let id_line = line + c[i..j].iter().filter(|&&x| x == '\n').count();
                let mut p = skip_ws(k);
                if p < n && c[p] == '(' {
                    p = skip_ws(p + 1);
                    if p < n && c[p] == ')' {
                        p = skip_ws(p + 1);
                        if p < n && c[p] == '.' {
                            p = skip_ws(p + 1);
                            let mut q = p;
                            while q < n && is_ident_char(c[q]) {
                                q += 1;
                            }
                            let id2: String = c[p..q].iter().collect();
                            if id2 == "await" {
                                res.push((id_line, id));
                            }
                        }
                    }
                }
            }
        }
        i += 1;
    }
    res
}


/// acquisition forms the walker does not model (`try_read`, `blocking_lock`, `read_owned`, UFCS `RwLock::read(&x)` …):
/// their presence is reported as a reconciliation error instead of being silently ignored
pub fn unsupported_acquisition_forms(src: &str) -> Vec<(usize, String)> {
    let text = blank_comments_and_literals(src);
    let mut res = vec![];
    const FORMS: &[&str] = &[
        "try_read", "try_write", "try_lock", "blocking_read", "blocking_write", "blocking_lock", "read_owned", "write_owned",
        "lock_owned", "try_read_owned", "try_write_owned", "try_lock_owned",
    ];
    for (ln, line) in text.lines().enumerate() {
        let cs: Vec<char> = line.chars().collect();
        let mut i = 0;
        while i < cs.len() {
            if is_ident_char(cs[i]) && (i == 0 || !is_ident_char(cs[i - 1])) {
                let mut k = i;
                while k < cs.len() && is_ident_char(cs[k]) {
                    k += 1;
                }
                let id: String = cs[i..k].iter().collect();
                let mut p = k;
                while p < cs.len() && cs[p].is_whitespace() {
                    p += 1;
                }
                let called = p < cs.len() && cs[p] == '(';
                let after_dot = line[..line.char_indices().nth(i).map(|x| x.0).unwrap_or(0)].trim_end().ends_with('.');
                let after_path = line[..line.char_indices().nth(i).map(|x| x.0).unwrap_or(0)].trim_end().ends_with("::");
                if called && after_dot && FORMS.contains(&id.as_str()) {
                    res.push((ln + 1, id.clone()));
                }
                if called && after_path && (id == "read" || id == "write" || id == "lock") {
                    let before = line[..line.char_indices().nth(i).map(|x| x.0).unwrap_or(0)].trim_end().trim_end_matches("::").trim_end();
                    if before.ends_with("RwLock") || before.ends_with("Mutex") {
                        res.push((ln + 1, format!("{}::{}", if before.ends_with("RwLock") { "RwLock" } else { "Mutex" }, id)));
                    }
                }
                i = k;
            } else {
                i += 1;
            }
        }
    }
    res
}

#[cfg(test)]
mod tests {
    use super::*;
    #[test]
    fn scan_basic() {
        let s = "fn a(){ let g = x.read().await; // y.write().await\n /* z.lock().await */ let s = \"q.read().await\";\n let h = y\n .write()\n .await; let c = 'a'; let l: &'static str = \"\"; w.lock( ) . await; }";
        let v = acquisition_token_lines(s);
        assert_eq!(v, vec![(1, "read".to_string()), (4, "write".to_string()), (5, "lock".to_string())]);
    }
    #[test]
    fn scan_unsupported() {
        let s = "fn a(){ let g = x.try_read(); // y.try_write()\n let h = RwLock::read(&l).await; let k = m.blocking_lock(); }";
        let v = unsupported_acquisition_forms(s);
        assert_eq!(v, vec![(1, "try_read".to_string()), (2, "RwLock::read".to_string()), (2, "blocking_lock".to_string())]);
    }
    #[test]
    fn scan_not_awaited() {
        let s = "fn a(){ let g = x.lock().unwrap(); let r = f.read(&mut b).await; }";
        assert!(acquisition_token_lines(s).is_empty());
    }
}
