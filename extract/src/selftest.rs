//! Translator validation (i): every `corpus/<case>.rs` is analysed on its own (as a file of crate saito-core, or of
//! saito-wasm when the case name starts with `wasm_`) and the result is compared with the HAND-DERIVED
//! `corpus/<case>.expected`:
//!     sites <n>
//!     edge <held> <acquired> <function> <line> <via | ->
//!     wedge <held> <acquired> <function> <line> <via | -> <gated>
//!     entry <name> <touches> <gated>
//!     unranked <n>
//!     ambiguous <n>        (calls under a guard resolved by name to a union that contributed an edge)
//! Lines starting with `#` are comments. The comparison is exact (set of lines).
use crate::collect::SourceFile;
use crate::graph::analyse;
use std::collections::BTreeSet;
use std::path::Path;

pub fn render(case: &str, src: &str) -> Result<BTreeSet<String>, String> {
    let krate = if case.starts_with("wasm_") { "saito-wasm" } else { "saito-core" };
    let ast = syn::parse_file(src).map_err(|e| format!("{}: parse error {}", case, e))?;
    let sf = SourceFile { krate: krate.into(), rel: format!("{}/src/{}.rs", krate, case), src: src.to_string(), ast };
    let an = analyse(vec![sf]);
    let mut out = BTreeSet::new();
    if !an.reconcile_errors.is_empty() {
        return Err(format!("{}: site reconciliation failed: {:?}", case, an.reconcile_errors));
    }
    out.insert(format!("sites {}", an.sites));
    out.insert(format!("unranked {}", an.unranked.len()));
    out.insert(format!("ambiguous {}", an.ambiguous.len()));
    let v = |s: &str| if s.is_empty() { "-".to_string() } else { s.replace(' ', "") };
    for e in &an.edges {
        out.insert(format!("edge {} {} {} {} {}", e.held, e.acquired, e.func, e.line, v(&e.via)));
    }
    for e in &an.wasm_edges {
        out.insert(format!("wedge {} {} {} {} {} {}", e.held, e.acquired, e.func, e.line, v(&e.via), e.gated));
    }
    for e in &an.wasm_entries {
        out.insert(format!("entry {} {} {}", e.name, e.touches, e.gated));
    }
    Ok(out)
}

pub fn run(dir: &Path) -> Result<usize, String> {
    let mut cases: Vec<_> = std::fs::read_dir(dir)
        .map_err(|e| format!("{}: {}", dir.display(), e))?
        .filter_map(|e| e.ok().map(|e| e.path()))
        .filter(|p| p.extension().map(|x| x == "rs").unwrap_or(false))
        .collect();
    cases.sort();
    if cases.is_empty() {
        return Err(format!("no corpus cases in {}", dir.display()));
    }
    let mut errs = String::new();
    for p in &cases {
        let case = p.file_stem().unwrap().to_string_lossy().to_string();
        let src = std::fs::read_to_string(p).map_err(|e| e.to_string())?;
        let exp_path = p.with_extension("expected");
        let exp_text = std::fs::read_to_string(&exp_path).map_err(|e| format!("{}: {}", exp_path.display(), e))?;
        let expected: BTreeSet<String> = exp_text
            .lines()
            .map(|l| l.trim().to_string())
            .filter(|l| !l.is_empty() && !l.starts_with('#'))
            .collect();
        match render(&case, &src) {
            Err(e) => errs.push_str(&format!("{}\n", e)),
            Ok(actual) => {
                if actual != expected {
                    errs.push_str(&format!("case {}:\n", case));
                    for l in expected.difference(&actual) {
                        errs.push_str(&format!("  expected but not produced: {}\n", l));
                    }
                    for l in actual.difference(&expected) {
                        errs.push_str(&format!("  produced but not expected: {}\n", l));
                    }
                }
            }
        }
    }
    if errs.is_empty() {
        Ok(cases.len())
    } else {
        Err(errs)
    }
}

#[cfg(test)]
mod tests {
    #[test]
    fn corpus() {
        let dir = std::path::Path::new(env!("CARGO_MANIFEST_DIR")).join("corpus");
        match super::run(&dir) {
            Ok(n) => assert!(n >= 8, "corpus too small: {}", n),
            Err(e) => panic!("{}", e),
        }
    }
}
