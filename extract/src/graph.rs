//! Pass 3: inter-procedural closure and edge construction.
use crate::collect::{collect, SourceFile};
use crate::model::*;
use crate::scan;
use crate::walk::*;
use std::collections::{BTreeMap, BTreeSet};

#[derive(Clone, Debug, PartialEq, Eq, PartialOrd, Ord)]
pub struct Edge {
    pub held: u8,
    pub acquired: u8,
    pub func: String,
    pub file: String,
    pub line: usize,
    /// "" for a direct acquisition, otherwise the callee chain `A::f > B::g`
    pub via: String,
    /// where the held guard was taken (line in the same file), 0 = implied by `&self` of a shared structure
    pub held_line: usize,
    /// where the inner acquisition is (file:line)
    pub acq_at: String,
    pub how: String,
    /// wasm only: the acquisition happens while the global gate is held
    pub gated: bool,
}

#[derive(Clone, Debug)]
pub struct WasmEntry {
    pub name: String,
    pub file: String,
    pub line: usize,
    pub touches: bool,
    pub gated: bool,
}

#[derive(Default)]
pub struct Analysis {
    pub edges: Vec<Edge>,
    pub wasm_edges: Vec<Edge>,
    pub wasm_entries: Vec<WasmEntry>,
    pub sites: usize,
    pub test_sites: usize,
    pub wasm_sites: usize,
    pub unranked: Vec<String>,
    pub other_locks: Vec<String>,
    pub ambiguous: Vec<String>,
    pub name_ranked: Vec<String>,
    pub reconcile_errors: Vec<String>,
    pub notes: Vec<String>,
    pub functions: usize,
    pub files: usize,
    pub fn_summaries: Vec<String>,
    pub unresolved_under_guard: Vec<String>,
}

#[derive(Clone, Debug)]
struct Wit {
    path: Vec<String>,
    at: String,
}

pub const NATIVE: &[&str] = &["saito-core", "saito-rust", "saito-spammer"];

pub fn analyse(files: Vec<SourceFile>) -> Analysis {
    let mut an = Analysis::default();
    an.files = files.len();
    let mut g = collect(&files);

    // ---- pass 2: walk every function (spawned bodies are appended to the table while walking)
    let mut sums: Vec<Summary> = vec![];
    let mut i = 0;
    while i < g.fns.len() {
        let f = g.fns[i].clone();
        let (s, spawned) = Walker::new(&g, &f).run();
        sums.push(s);
        for sp in spawned {
            g.add_fn(sp);
        }
        i += 1;
    }
    an.functions = g.fns.len();

    // ---- site reconciliation (per file, multiset of (line, kind))
    let mut attributed: BTreeMap<String, Vec<(usize, String)>> = BTreeMap::new();
    for (f, s) in g.fns.iter().zip(sums.iter()) {
        attributed.entry(f.file.clone()).or_default().extend(s.sites.iter().cloned());
        let n = s.sites.len();
        if f.is_test {
            an.test_sites += n;
        } else if f.krate == "saito-wasm" {
            an.wasm_sites += n;
        }
        an.sites += n;
        an.notes.extend(s.notes.iter().cloned());
        if !f.is_test {
            an.unresolved_under_guard.extend(s.unresolved_under_guard.iter().cloned());
        }
    }
    for sf in &files {
        for (l, form) in scan::unsupported_acquisition_forms(&sf.src) {
            an.reconcile_errors.push(format!("{}:{} acquisition form `{}` is not modelled by the translator", sf.rel, l, form));
        }
        let mut text = scan::acquisition_token_lines(&sf.src);
        let mut att = attributed.remove(&sf.rel).unwrap_or_default();
        text.sort();
        att.sort();
        if text != att {
            let ts: BTreeSet<_> = text.iter().cloned().collect();
            let as_: BTreeSet<_> = att.iter().cloned().collect();
            let missed: Vec<String> = ts.difference(&as_).map(|(l, k)| format!("{}:{} .{}().await not attributed", sf.rel, l, k)).collect();
            let extra: Vec<String> = as_.difference(&ts).map(|(l, k)| format!("{}:{} .{}().await attributed but not in text scan", sf.rel, l, k)).collect();
            an.reconcile_errors.extend(missed);
            an.reconcile_errors.extend(extra);
            if text.len() != att.len() {
                an.reconcile_errors.push(format!("{}: text scan finds {} sites, extractor attributed {}", sf.rel, text.len(), att.len()));
            }
        }
    }

    // ---- transitive acquisitions acq*(f)
    let n = g.fns.len();
    let mut acqs: Vec<BTreeMap<LockId, Wit>> = vec![BTreeMap::new(); n];
    for id in 0..n {
        for a in &sums[id].acqs {
            acqs[id].entry(a.lock.clone()).or_insert(Wit { path: vec![], at: format!("{}:{}", g.fns[id].file, a.line) });
        }
    }
    loop {
        let mut changed = false;
        for id in 0..n {
            for c in &sums[id].calls {
                for &t in &c.targets {
                    if t == id {
                        continue;
                    }
                    let add: Vec<(LockId, Wit)> = acqs[t]
                        .iter()
                        .filter(|(l, _)| !acqs[id].contains_key(*l))
                        .map(|(l, w)| {
                            let mut p = vec![g.fns[t].qual.clone()];
                            p.extend(w.path.iter().cloned());
                            (l.clone(), Wit { path: p, at: w.at.clone() })
                        })
                        .collect();
                    for (l, w) in add {
                        if !acqs[id].contains_key(&l) {
                            acqs[id].insert(l, w);
                            changed = true;
                        }
                    }
                }
            }
        }
        if !changed {
            break;
        }
    }

    // ---- wasm: which non-exported wasm functions are only ever called under the gate
    let is_wasm = |id: usize| g.fns[id].krate == "saito-wasm" && !g.fns[id].is_test;
    let has_gate = |h: &Vec<HeldRef>| h.iter().any(|x| x.lock == LockId::Ranked(RANK_GATE));
    let mut callers: BTreeMap<usize, Vec<(usize, bool)>> = BTreeMap::new(); // callee → (caller, call under gate)
    for id in 0..n {
        if !is_wasm(id) {
            continue;
        }
        for c in &sums[id].calls {
            for &t in &c.targets {
                callers.entry(t).or_default().push((id, has_gate(&c.held)));
            }
        }
    }
    // greatest fixpoint: gated_fn(f) ⇔ f is not an entry point ∧ has callers ∧ every call is under the gate or from a gated fn
    let mut gated_fn: BTreeSet<usize> = (0..n)
        .filter(|&id| !g.fns[id].exported && !g.fns[id].detached && callers.contains_key(&id) && !g.fns[id].is_test)
        .collect();
    loop {
        let before = gated_fn.len();
        let cur = gated_fn.clone();
        gated_fn.retain(|id| callers[id].iter().all(|(c, under)| *under || cur.contains(c)));
        if gated_fn.len() == before {
            break;
        }
    }
    // functions reachable from wasm code OUTSIDE the gate (for their inner edges)
    let mut ungated_reach: BTreeSet<usize> = BTreeSet::new();
    let mut work: Vec<usize> = (0..n).filter(|&id| is_wasm(id) && !gated_fn.contains(&id)).collect();
    let mut seen_roots: BTreeSet<usize> = work.iter().copied().collect();
    while let Some(id) = work.pop() {
        for c in &sums[id].calls {
            let under = is_wasm(id) && has_gate(&c.held);
            if under {
                continue;
            }
            for &t in &c.targets {
                if gated_fn.contains(&t) {
                    continue;
                }
                if !is_wasm(t) {
                    ungated_reach.insert(t);
                }
                if seen_roots.insert(t) {
                    work.push(t);
                }
            }
        }
    }

    // every non-wasm function reachable from saito-wasm code at all (its inner edges also run in the wasm build)
    let mut wasm_reach: BTreeSet<usize> = BTreeSet::new();
    let mut work: Vec<usize> = (0..n).filter(|&id| is_wasm(id)).collect();
    let mut seen: BTreeSet<usize> = work.iter().copied().collect();
    while let Some(id) = work.pop() {
        for c in &sums[id].calls {
            for &t in &c.targets {
                if g.fns[t].is_test {
                    continue;
                }
                if !is_wasm(t) {
                    wasm_reach.insert(t);
                }
                if seen.insert(t) {
                    work.push(t);
                }
            }
        }
    }

    // ---- edges
    let mut edges: BTreeSet<Edge> = BTreeSet::new();
    let mut wasm_edges: BTreeSet<Edge> = BTreeSet::new();
    let mut unranked: BTreeSet<String> = BTreeSet::new();
    let mut other: BTreeSet<String> = BTreeSet::new();
    let mut ambiguous: BTreeSet<String> = BTreeSet::new();
    let mut name_ranked: BTreeSet<String> = BTreeSet::new();
    for id in 0..n {
        let f = &g.fns[id];
        if f.is_test {
            continue;
        }
        let native = NATIVE.contains(&f.krate.as_str());
        let wasm = f.krate == "saito-wasm";
        for a in &sums[id].acqs {
            match &a.lock {
                LockId::Unknown(r) => {
                    unranked.insert(format!("{}:{} in {}: `{}.{}().await`", f.file, a.line, f.qual, r, a.kind));
                }
                LockId::Other(t) => {
                    other.insert(format!("{}:{} in {}: `{}.{}().await` protects `{}` (not a shared structure)", f.file, a.line, f.qual, a.recv, a.kind, t));
                }
                LockId::Ranked(_) => {
                    if a.by == "name" {
                        name_ranked.insert(format!("{}:{} in {}: `{}` ranked by name only", f.file, a.line, f.qual, a.recv));
                    }
                }
            }
            let acquired = match a.lock.rank() {
                Some(r) => r,
                None => continue,
            };
            for h in &a.held {
                let held = match h.lock.rank() {
                    Some(r) => r,
                    None => continue,
                };
                let e = Edge {
                    held,
                    acquired,
                    func: f.qual.clone(),
                    file: f.file.clone(),
                    line: a.line,
                    via: String::new(),
                    held_line: if h.implicit { 0 } else { h.line },
                    acq_at: format!("{}:{}", f.file, a.line),
                    how: "direct".into(),
                    gated: wasm && (has_gate(&a.held) || gated_fn.contains(&id)),
                };
                if native {
                    edges.insert(e.clone());
                }
                if wasm || wasm_reach.contains(&id) {
                    let mut e2 = e;
                    if !wasm {
                        // saito-core code running in the wasm build: under the gate unless reachable outside it
                        e2.gated = !ungated_reach.contains(&id);
                    }
                    wasm_edges.insert(e2);
                }
            }
        }
        for c in &sums[id].calls {
            if c.held.is_empty() {
                continue;
            }
            // one edge per (held, acquired) and call site: the first target (deterministic order) that reaches the lock
            let mut per: BTreeMap<(u8, usize, bool, u8), (String, String)> = BTreeMap::new();
            let mut contributed = false;
            for &t in &c.targets {
                for (l, w) in &acqs[t] {
                    let acquired = match l.rank() {
                        Some(r) => r,
                        None => continue,
                    };
                    for h in &c.held {
                        let held = match h.lock.rank() {
                            Some(r) => r,
                            None => continue,
                        };
                        contributed = true;
                        let mut p = vec![g.fns[t].qual.clone()];
                        p.extend(w.path.iter().cloned());
                        per.entry((held, if h.implicit { 0 } else { h.line }, h.implicit, acquired)).or_insert((p.join(" > "), w.at.clone()));
                    }
                }
            }
            if contributed && c.how == How::Ambiguous {
                let cands: Vec<String> = c.targets.iter().map(|&t| g.fns[t].qual.clone()).collect();
                ambiguous.insert(format!("{}:{} in {}: call `{}` resolved by name to the union {{{}}}", f.file, c.line, f.qual, c.desc, cands.join(", ")));
            }
            for ((held, hl, _imp, acquired), (via, at)) in per {
                let e = Edge {
                    held,
                    acquired,
                    func: f.qual.clone(),
                    file: f.file.clone(),
                    line: c.line,
                    via,
                    held_line: hl,
                    acq_at: at,
                    how: format!("{:?}", c.how).to_lowercase(),
                    gated: wasm && (has_gate(&c.held) || gated_fn.contains(&id)),
                };
                if native {
                    edges.insert(e.clone());
                }
                if wasm || wasm_reach.contains(&id) {
                    let mut e2 = e;
                    if !wasm {
                        // saito-core code running in the wasm build: under the gate unless reachable outside it
                        e2.gated = !ungated_reach.contains(&id);
                    }
                    wasm_edges.insert(e2);
                }
            }
        }
    }
    an.edges = edges.into_iter().collect();
    an.wasm_edges = wasm_edges.into_iter().collect();
    an.unranked = unranked.into_iter().collect();
    an.other_locks = other.into_iter().collect();
    an.ambiguous = ambiguous.into_iter().collect();
    an.name_ranked = name_ranked.into_iter().collect();
    an.unresolved_under_guard.sort();
    an.unresolved_under_guard.dedup();

    // ---- wasm entry points
    for id in 0..n {
        let f = &g.fns[id];
        if !f.exported {
            continue;
        }
        let touches = acqs[id].keys().any(|l| matches!(l, LockId::Ranked(r) if *r != RANK_GATE) || matches!(l, LockId::Unknown(_)));
        // gated ⇔ every acquisition of a shared lock and every call that reaches one happens under the gate
        let mut gated = true;
        for a in &sums[id].acqs {
            let shared = matches!(&a.lock, LockId::Ranked(r) if *r != RANK_GATE) || matches!(&a.lock, LockId::Unknown(_));
            if shared && !has_gate(&a.held) {
                gated = false;
            }
        }
        for c in &sums[id].calls {
            let reaches = c.targets.iter().any(|&t| acqs[t].keys().any(|l| matches!(l, LockId::Ranked(r) if *r != RANK_GATE) || matches!(l, LockId::Unknown(_))));
            if reaches && !has_gate(&c.held) {
                gated = false;
            }
        }
        an.wasm_entries.push(WasmEntry { name: f.qual.clone(), file: f.file.clone(), line: f.line, touches, gated });
    }
    an.wasm_entries.sort_by(|a, b| (a.name.clone(), a.line).cmp(&(b.name.clone(), b.line)));

    // ---- human-readable per-function summaries (functions that acquire anything), for the selftest and for auditing
    for id in 0..n {
        let f = &g.fns[id];
        if sums[id].acqs.is_empty() {
            continue;
        }
        let mut s = format!("fn {}{}", f.qual, if f.is_test { " [test]" } else { "" });
        for a in &sums[id].acqs {
            let held: Vec<String> = a.held.iter().map(|h| lock_str(&h.lock)).collect();
            s.push_str(&format!("\n  acq {} @{} held=[{}]", lock_str(&a.lock), a.line, held.join(",")));
        }
        an.fn_summaries.push(s);
    }
    an
}

pub fn lock_str(l: &LockId) -> String {
    match l {
        LockId::Ranked(r) => format!("{}", r),
        LockId::Other(t) => format!("other:{}", t),
        LockId::Unknown(t) => format!("unknown:{}", t),
    }
}
