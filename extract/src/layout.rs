//! Tie A for C05/C06/C09/C10/C16: constants, wire layouts and the message tag table, read off the source.
//!
//!   Consts.lean  every `const NAME: T = <integer literal>` of saito-core (name, value)
//!   Layout.lean  per serializer: the element list of its `[ … ].concat()` (canonical field token, width; 0 = variable);
//!                per deserializer: the literal slice ranges `bytes[a..b]` / `bytes[i]` it reads (target name, a, b)
//!   Tags.lean    `Message::get_type_value` (variant → tag) and the arms of `Message::deserialize` (tag → variant)
//!
//! Purely syntactic; anything it cannot classify is emitted with width 0 / skipped and listed under `notes`,
//! so a source form it does not understand changes the table (and breaks the `decide` obligation) instead of passing.
use crate::collect::SourceFile;
use quote::ToTokens;
use std::collections::BTreeMap;
use std::fmt::Write as _;
use syn::visit::Visit;

fn type_width(t: &str) -> usize {
    match t {
        "u8" | "bool" => 1,
        "u16" => 2,
        "u32" => 4,
        "u64" | "Currency" | "Timestamp" | "BlockId" | "PeerIndex" => 8,
        "SaitoPublicKey" => 33,
        "SaitoHash" | "BlockHash" | "ForkId" | "SaitoPrivateKey" => 32,
        "SaitoSignature" => 64,
        "SaitoUTXOSetKey" => 59,
        _ => {
            // `[u8;N]`
            if let Some(r) = t.strip_prefix("[u8;") {
                if let Some(n) = r.strip_suffix(']') {
                    return n.parse().unwrap_or(0);
                }
            }
            0
        }
    }
}

/// struct name → field → type token
fn struct_fields(files: &[SourceFile]) -> BTreeMap<String, BTreeMap<String, String>> {
    let mut m = BTreeMap::new();
    for f in files {
        if f.krate != "saito-core" {
            continue;
        }
        for it in &f.ast.items {
            if let syn::Item::Struct(s) = it {
                let mut fm = BTreeMap::new();
                for fld in &s.fields {
                    if let Some(id) = &fld.ident {
                        fm.insert(id.to_string(), fld.ty.to_token_stream().to_string().replace(' ', ""));
                    }
                }
                m.insert(s.ident.to_string(), fm);
            }
        }
    }
    m
}

fn clean(e: &syn::Expr) -> String {
    e.to_token_stream().to_string().replace(' ', "")
}

/// canonical token and width of one element of a serializer's array
fn classify(e: &syn::Expr, fields: Option<&BTreeMap<String, String>>) -> (String, usize) {
    let mut s = clean(e);
    for suf in [".as_slice()", ".to_vec()", ".as_bytes()"] {
        while s.ends_with(suf) {
            s.truncate(s.len() - suf.len());
        }
    }
    let mut width = 0usize;
    let mut be = false;
    if s.ends_with(".to_be_bytes()") {
        s.truncate(s.len() - ".to_be_bytes()".len());
        be = true;
    }
    while s.starts_with('(') && s.ends_with(')') {
        s = s[1..s.len() - 1].to_string();
    }
    // casts: `x as u32`
    if let Some(i) = s.rfind("as") {
        let (l, r) = s.split_at(i);
        let ty = &r[2..];
        if type_width(ty) > 0 && (l.ends_with(')') || l.chars().last().map(|c| c.is_alphanumeric() || c == '_').unwrap_or(false)) {
            width = type_width(ty);
            s = l.to_string();
            while s.starts_with('(') && s.ends_with(')') {
                s = s[1..s.len() - 1].to_string();
            }
        }
    }
    if s.ends_with(".to_u8().unwrap()") {
        s.truncate(s.len() - ".to_u8().unwrap()".len());
        width = 1;
    }
    let name = s.trim_start_matches("self.").to_string();
    if width == 0 {
        if let Some(fm) = fields {
            if let Some(t) = fm.get(&name) {
                width = type_width(t);
            }
        }
    }
    let _ = be;
    (name.replace("()", ""), width)
}

struct ConcatFinder {
    found: Option<Vec<syn::Expr>>,
}
impl<'ast> Visit<'ast> for ConcatFinder {
    fn visit_expr_method_call(&mut self, m: &'ast syn::ExprMethodCall) {
        if self.found.is_none() && m.method == "concat" {
            if let syn::Expr::Array(a) = &*m.receiver {
                self.found = Some(a.elems.iter().cloned().collect());
                return;
            }
        }
        syn::visit::visit_expr_method_call(self, m);
    }
}

struct RangeFinder {
    out: Vec<(usize, usize)>,
}
fn lit_usize(e: &syn::Expr) -> Option<usize> {
    if let syn::Expr::Lit(l) = e {
        if let syn::Lit::Int(i) = &l.lit {
            return i.base10_parse().ok();
        }
    }
    None
}
impl<'ast> Visit<'ast> for RangeFinder {
    fn visit_expr_index(&mut self, ix: &'ast syn::ExprIndex) {
        match &*ix.index {
            syn::Expr::Range(r) => {
                let a = r.start.as_ref().map(|e| lit_usize(e)).unwrap_or(Some(0));
                let b = r.end.as_ref().and_then(|e| lit_usize(e));
                if let (Some(a), Some(b)) = (a, b) {
                    self.out.push((a, b));
                }
            }
            e => {
                if let Some(i) = lit_usize(e) {
                    self.out.push((i, i + 1));
                }
            }
        }
        syn::visit::visit_expr_index(self, ix);
    }
}

/// (impl type, fn name) → ImplItemFn, first match in a file whose path ends with `file_suffix`
fn find_fn<'a>(files: &'a [SourceFile], file_suffix: &str, fname: &str) -> Option<(&'a syn::ImplItemFn, String)> {
    find_fn_of(files, file_suffix, fname, "")
}

fn find_fn_of<'a>(files: &'a [SourceFile], file_suffix: &str, fname: &str, self_ty: &str) -> Option<(&'a syn::ImplItemFn, String)> {
    for f in files {
        if !f.rel.ends_with(file_suffix) {
            continue;
        }
        for it in &f.ast.items {
            if let syn::Item::Impl(im) = it {
                let ty = im.self_ty.to_token_stream().to_string().replace(' ', "");
                if !self_ty.is_empty() && ty != self_ty {
                    continue;
                }
                for ii in &im.items {
                    if let syn::ImplItem::Fn(func) = ii {
                        if func.sig.ident == fname {
                            return Some((func, ty));
                        }
                    }
                }
            }
        }
    }
    None
}

fn lean_s(s: &str) -> String {
    format!("\"{}\"", s.replace('\\', "\\\\").replace('"', "\\\""))
}

pub struct Out {
    pub consts: String,
    pub layout: String,
    pub tags: String,
    pub notes: Vec<String>,
}

pub fn run(files: &[SourceFile]) -> Out {
    let mut notes = vec![];
    // ---------------- constants
    let mut consts: BTreeMap<String, u128> = BTreeMap::new();
    for f in files {
        if f.krate != "saito-core" {
            continue;
        }
        for it in &f.ast.items {
            if let syn::Item::Const(c) = it {
                if let syn::Expr::Lit(l) = &*c.expr {
                    if let syn::Lit::Int(i) = &l.lit {
                        if let Ok(v) = i.base10_parse::<u128>() {
                            consts.insert(c.ident.to_string(), v);
                        }
                    }
                }
            }
        }
    }
    let mut cs = String::from("/-\n  GENERATED by verif/extract from the Rust sources (Tie A). DO NOT EDIT: ./check overwrites this file before every build.\n-/\nnamespace Saito.Gen\n\n/-- every integer-literal `const` item of saito-core -/\ndef consts : List (String × Nat) := [\n");
    let n = consts.len();
    for (i, (k, v)) in consts.iter().enumerate() {
        let _ = writeln!(cs, "  ({}, {}){}", lean_s(k), v, if i + 1 < n { "," } else { "" });
    }
    cs.push_str("]\n\ndef const (name : String) : Option Nat := (consts.find? (·.1 == name)).map (·.2)\n\nend Saito.Gen\n");

    // ---------------- layouts
    let sf = struct_fields(files);
    let mut ls = String::from("/-\n  GENERATED by verif/extract from the Rust sources (Tie A). DO NOT EDIT: ./check overwrites this file before every build.\n  Encoders: element list of the serializer's `[ … ].concat()` as (field token, width in bytes; 0 = variable length).\n  Decoders: the literal slice ranges the deserializer reads, in source order, as (start, end).\n-/\nnamespace Saito.Gen\n\n");
    let encoders: &[(&str, &str, &str, &str)] = &[
        ("slipEnc", "consensus/slip.rs", "serialize_for_net", "Slip"),
        ("slipSigIn", "consensus/slip.rs", "serialize_input_for_signature", "Slip"),
        ("slipSigOut", "consensus/slip.rs", "serialize_output_for_signature", "Slip"),
        ("hopEnc", "consensus/hop.rs", "serialize_for_net", "Hop"),
        ("txEnc", "consensus/transaction.rs", "serialize_for_net_with_hop", "Transaction"),
        ("blockEnc", "consensus/block.rs", "serialize_for_net", "Block"),
        ("blockSig", "consensus/block.rs", "serialize_for_signature", "Block"),
        ("blockHashInput", "consensus/block.rs", "serialize_for_hash", "Block"),
        ("gtEnc", "consensus/golden_ticket.rs", "serialize_for_net", "GoldenTicket"),
        ("ghostEnc", "msg/ghost_chain_sync.rs", "serialize", "GhostChainSync"),
        ("chainReqEnc", "msg/block_request.rs", "serialize", "BlockchainRequest"),
        ("hsRespEnc", "msg/handshake.rs", "serialize", "HandshakeResponse"),
    ];
    for (name, file, func, st) in encoders {
        let mut items = vec![];
        match find_fn_of(files, file, func, st) {
            Some((f, _)) => {
                let mut cf = ConcatFinder { found: None };
                cf.visit_block(&f.block);
                match cf.found {
                    Some(elems) => {
                        for e in &elems {
                            let (tok, w) = classify(e, sf.get(*st));
                            items.push(format!("({}, {})", lean_s(&tok), w));
                        }
                    }
                    None => notes.push(format!("{}::{}: no `[…].concat()` found", file, func)),
                }
            }
            None => notes.push(format!("{}::{}: function not found", file, func)),
        }
        let _ = writeln!(ls, "def {} : List (String × Nat) := [{}]\n", name, items.join(", "));
    }
    let decoders: &[(&str, &str, &str)] = &[
        ("slipDec", "consensus/slip.rs", "deserialize_from_net"),
        ("txDec", "consensus/transaction.rs", "deserialize_from_net"),
        ("blockDec", "consensus/block.rs", "deserialize_from_net"),
        ("gtDec", "consensus/golden_ticket.rs", "deserialize_from_net"),
        ("chainReqDec", "msg/block_request.rs", "deserialize"),
    ];
    for (name, file, func) in decoders {
        let mut items = vec![];
        match find_fn(files, file, func) {
            Some((f, _)) => {
                let mut rf = RangeFinder { out: vec![] };
                rf.visit_block(&f.block);
                for (a, b) in rf.out {
                    items.push(format!("({}, {})", a, b));
                }
            }
            None => notes.push(format!("{}::{}: function not found", file, func)),
        }
        let _ = writeln!(ls, "def {} : List (Nat × Nat) := [{}]\n", name, items.join(", "));
    }
    ls.push_str("end Saito.Gen\n");

    // ---------------- tags
    let mut ser: Vec<(String, u64)> = vec![];
    let mut de: Vec<(u64, String)> = vec![];
    if let Some((f, _)) = find_fn(files, "msg/message.rs", "get_type_value") {
        struct M<'a>(&'a mut Vec<(String, u64)>);
        impl<'ast, 'a> Visit<'ast> for M<'a> {
            fn visit_arm(&mut self, arm: &'ast syn::Arm) {
                let p = arm.pat.to_token_stream().to_string().replace(' ', "");
                if let Some(rest) = p.strip_prefix("Message::") {
                    let variant: String = rest.chars().take_while(|c| c.is_alphanumeric() || *c == '_').collect();
                    if let Some(v) = lit_usize(&arm.body) {
                        self.0.push((variant, v as u64));
                    }
                }
            }
        }
        M(&mut ser).visit_block(&f.block);
    } else {
        notes.push("message.rs::get_type_value not found".into());
    }
    if let Some((f, _)) = find_fn(files, "msg/message.rs", "deserialize") {
        struct D<'a>(&'a mut Vec<(u64, String)>);
        impl<'ast, 'a> Visit<'ast> for D<'a> {
            fn visit_arm(&mut self, arm: &'ast syn::Arm) {
                if let syn::Pat::Lit(l) = &arm.pat {
                    if let syn::Lit::Int(i) = &l.lit {
                        if let Ok(tag) = i.base10_parse::<u64>() {
                            let body = arm.body.to_token_stream().to_string().replace(' ', "");
                            // the variant constructed in this arm: last `Ok(Message::X`
                            if let Some(pos) = body.rfind("Ok(Message::") {
                                let rest = &body[pos + "Ok(Message::".len()..];
                                let variant: String = rest.chars().take_while(|c| c.is_alphanumeric() || *c == '_').collect();
                                self.0.push((tag, variant));
                            }
                        }
                    }
                }
                syn::visit::visit_arm(self, arm);
            }
        }
        D(&mut de).visit_block(&f.block);
    } else {
        notes.push("message.rs::deserialize not found".into());
    }
    let mut ts = String::from("/-\n  GENERATED by verif/extract from the Rust sources (Tie A). DO NOT EDIT: ./check overwrites this file before every build.\n-/\nnamespace Saito.Gen\n\n/-- `Message::get_type_value`: variant ↦ tag -/\ndef tagOfVariant : List (String × Nat) := [");
    ts.push_str(&ser.iter().map(|(v, t)| format!("({}, {})", lean_s(v), t)).collect::<Vec<_>>().join(", "));
    ts.push_str("]\n\n/-- arms of `Message::deserialize`: tag ↦ variant constructed -/\ndef variantOfTag : List (Nat × String) := [");
    ts.push_str(&de.iter().map(|(t, v)| format!("({}, {})", t, lean_s(v))).collect::<Vec<_>>().join(", "));
    ts.push_str("]\n\nend Saito.Gen\n");

    Out { consts: cs, layout: ls, tags: ts, notes }
}
