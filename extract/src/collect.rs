//! Pass 1: parse every file, collect structs / traits / statics / functions into `Globals`.
use crate::model::*;
use std::collections::BTreeSet;
use syn::visit::Visit;

pub struct SourceFile {
    pub krate: String,
    /// path relative to the repo root, '/' separated
    pub rel: String,
    pub src: String,
    pub ast: syn::File,
}

pub fn crate_prefix(krate: &str) -> String {
    match krate {
        "saito-core" => "".to_string(),
        k => format!("{}:", k.trim_start_matches("saito-")),
    }
}

fn attr_is(attrs: &[syn::Attribute], last: &str) -> bool {
    attrs.iter().any(|a| a.path().segments.last().map(|s| s.ident == last).unwrap_or(false))
}

pub fn attr_cfg_test(attrs: &[syn::Attribute]) -> bool {
    attrs.iter().any(|a| {
        if !a.path().is_ident("cfg") {
            return false;
        }
        let toks = match &a.meta {
            syn::Meta::List(l) => l.tokens.to_string(),
            _ => String::new(),
        };
        // cfg(test) or cfg(all(test, ...)); not cfg(not(test))
        let t = toks.replace(' ', "");
        (t == "test" || t.contains("(test") || t.contains(",test") || t.starts_with("test,")) && !t.contains("not(test")
    })
}

fn file_stem(rel: &str) -> String {
    let base = rel.rsplit('/').next().unwrap_or(rel);
    base.trim_end_matches(".rs").to_string()
}

/// directories / files that are only compiled under cfg(test), derived from `#[cfg(test)] mod x;`
pub fn test_paths(files: &[SourceFile]) -> BTreeSet<String> {
    let mut res = BTreeSet::new();
    for f in files {
        let dir = match f.rel.rfind('/') {
            Some(i) => &f.rel[..i],
            None => "",
        };
        let stem = file_stem(&f.rel);
        let child_dir = if stem == "mod" || stem == "lib" || stem == "main" { dir.to_string() } else { format!("{}/{}", dir, stem) };
        for it in &f.ast.items {
            if let syn::Item::Mod(m) = it {
                if m.content.is_none() && attr_cfg_test(&m.attrs) {
                    res.insert(format!("{}/{}.rs", child_dir, m.ident));
                    res.insert(format!("{}/{}/", child_dir, m.ident));
                }
            }
        }
    }
    res
}

struct Collector<'a> {
    g: &'a mut Globals,
    krate: String,
    rel: String,
    test_depth: usize,
    file_is_test: bool,
    self_ty: Vec<(Option<String>, Option<String>, bool)>, // (self type, trait, exported impl)
    fn_depth: usize,
}

fn type_last_ident(t: &syn::Type) -> Option<String> {
    match t {
        syn::Type::Path(p) => p.path.segments.last().map(|s| s.ident.to_string()),
        syn::Type::Reference(r) => type_last_ident(&r.elem),
        syn::Type::Paren(r) => type_last_ident(&r.elem),
        _ => None,
    }
}

impl<'a> Collector<'a> {
    fn is_test(&self) -> bool {
        self.file_is_test || self.test_depth > 0
    }

    fn add_sig(
        &mut self,
        sig: &syn::Signature,
        attrs: &[syn::Attribute],
        vis_pub: bool,
        body: Body,
        line: usize,
    ) {
        let (self_ty, trait_name, exported_impl) = self.self_ty.last().cloned().unwrap_or((None, None, false));
        let name = sig.ident.to_string();
        let is_test_fn = attrs.iter().any(|a| a.path().segments.last().map(|s| s.ident == "test").unwrap_or(false));
        let mut has_self = false;
        let mut params = vec![];
        for inp in &sig.inputs {
            match inp {
                syn::FnArg::Receiver(_) => has_self = true,
                syn::FnArg::Typed(pt) => {
                    let ty = self.g.norm(&pt.ty, self_ty.as_deref());
                    let mut names = vec![];
                    pat_idents(&pt.pat, &mut names);
                    if names.len() == 1 {
                        params.push((names[0].clone(), ty));
                    } else {
                        for n in names {
                            params.push((n, Ty::Unknown));
                        }
                    }
                }
            }
        }
        let ret = match &sig.output {
            syn::ReturnType::Default => Ty::Unknown,
            syn::ReturnType::Type(_, t) => self.g.norm(t, self_ty.as_deref()),
        };
        let pre = crate_prefix(&self.krate);
        let qual = match &self_ty {
            Some(t) => format!("{}{}::{}", pre, t, name),
            None => format!("{}{}::{}", pre, file_stem(&self.rel), name),
        };
        let exported = self.krate == "saito-wasm"
            && !self.is_test()
            && self.fn_depth == 0
            && ((self_ty.is_none() && attr_is(attrs, "wasm_bindgen")) || (exported_impl && vis_pub && trait_name.is_none()));
        let f = FnInfo {
            id: 0,
            krate: self.krate.clone(),
            file: self.rel.clone(),
            line,
            self_ty,
            trait_name,
            name,
            qual,
            has_self,
            params,
            ret,
            is_test: self.is_test() || is_test_fn,
            exported,
            body,
            inherited_env: vec![],
            detached: false,
        };
        self.g.add_fn(f);
    }
}

pub fn pat_idents(p: &syn::Pat, out: &mut Vec<String>) {
    match p {
        syn::Pat::Ident(i) => {
            out.push(i.ident.to_string());
            if let Some((_, sub)) = &i.subpat {
                pat_idents(sub, out);
            }
        }
        syn::Pat::Reference(r) => pat_idents(&r.pat, out),
        syn::Pat::Paren(r) => pat_idents(&r.pat, out),
        syn::Pat::Type(t) => pat_idents(&t.pat, out),
        syn::Pat::Tuple(t) => t.elems.iter().for_each(|e| pat_idents(e, out)),
        syn::Pat::TupleStruct(t) => t.elems.iter().for_each(|e| pat_idents(e, out)),
        syn::Pat::Struct(s) => s.fields.iter().for_each(|f| pat_idents(&f.pat, out)),
        syn::Pat::Slice(s) => s.elems.iter().for_each(|e| pat_idents(e, out)),
        syn::Pat::Or(o) => {
            if let Some(f) = o.cases.first() {
                pat_idents(f, out)
            }
        }
        _ => {}
    }
}

impl<'a, 'ast> Visit<'ast> for Collector<'a> {
    fn visit_item_mod(&mut self, m: &'ast syn::ItemMod) {
        let t = attr_cfg_test(&m.attrs);
        if t {
            self.test_depth += 1;
        }
        syn::visit::visit_item_mod(self, m);
        if t {
            self.test_depth -= 1;
        }
    }

    fn visit_item_struct(&mut self, s: &'ast syn::ItemStruct) {
        let name = s.ident.to_string();
        self.g.types.insert(name.clone());
        if let syn::Fields::Named(n) = &s.fields {
            for f in &n.named {
                let ty = self.g.norm(&f.ty, Some(&name));
                let fname = f.ident.as_ref().unwrap().to_string();
                self.g.structs.entry(name.clone()).or_default().entry(fname.clone()).or_default().insert(ty.clone());
                self.g.field_any.entry(fname).or_default().insert(ty);
            }
        }
    }

    fn visit_item_enum(&mut self, e: &'ast syn::ItemEnum) {
        self.g.types.insert(e.ident.to_string());
    }

    fn visit_item_type(&mut self, t: &'ast syn::ItemType) {
        self.g.aliases.insert(t.ident.to_string(), (*t.ty).clone());
    }

    fn visit_item_static(&mut self, s: &'ast syn::ItemStatic) {
        let ty = self.g.norm(&s.ty, None);
        self.g.statics.insert(s.ident.to_string(), ty);
    }

    fn visit_item_macro(&mut self, m: &'ast syn::ItemMacro) {
        // lazy_static! { [pub] static ref NAME: Type = init; ... }
        if m.mac.path.segments.last().map(|s| s.ident == "lazy_static").unwrap_or(false) {
            for (name, ty) in parse_lazy_static(m.mac.tokens.clone()) {
                let t = self.g.norm(&ty, None);
                self.g.statics.insert(name, t);
            }
        }
    }

    fn visit_item_trait(&mut self, t: &'ast syn::ItemTrait) {
        let name = t.ident.to_string();
        self.g.traits.insert(name.clone());
        self.self_ty.push((Some(name.clone()), Some(name), false));
        for it in &t.items {
            if let syn::TraitItem::Fn(f) = it {
                let line = f.sig.ident.span().start().line;
                let body = match &f.default {
                    Some(b) => Body::Block(b.clone()),
                    None => Body::None,
                };
                self.add_sig(&f.sig, &f.attrs, false, body, line);
                if let Some(b) = &f.default {
                    self.fn_depth += 1;
                    self.visit_block(b);
                    self.fn_depth -= 1;
                }
            }
        }
        self.self_ty.pop();
    }

    fn visit_item_impl(&mut self, i: &'ast syn::ItemImpl) {
        let st = type_last_ident(&i.self_ty);
        let tr = i.trait_.as_ref().and_then(|(_, p, _)| p.segments.last().map(|s| s.ident.to_string()));
        let exported = attr_is(&i.attrs, "wasm_bindgen");
        let t = attr_cfg_test(&i.attrs);
        if t {
            self.test_depth += 1;
        }
        self.self_ty.push((st, tr, exported));
        for it in &i.items {
            if let syn::ImplItem::Fn(f) = it {
                let line = f.sig.ident.span().start().line;
                let vis_pub = matches!(f.vis, syn::Visibility::Public(_));
                let ft = attr_cfg_test(&f.attrs);
                if ft {
                    self.test_depth += 1;
                }
                self.add_sig(&f.sig, &f.attrs, vis_pub, Body::Block(f.block.clone()), line);
                self.fn_depth += 1;
                self.visit_block(&f.block);
                self.fn_depth -= 1;
                if ft {
                    self.test_depth -= 1;
                }
            }
        }
        self.self_ty.pop();
        if t {
            self.test_depth -= 1;
        }
    }

    fn visit_item_fn(&mut self, f: &'ast syn::ItemFn) {
        let line = f.sig.ident.span().start().line;
        let ft = attr_cfg_test(&f.attrs);
        if ft {
            self.test_depth += 1;
        }
        // nested fn items do not see the impl's Self
        self.self_ty.push((None, None, false));
        let vis_pub = matches!(f.vis, syn::Visibility::Public(_));
        self.add_sig(&f.sig, &f.attrs, vis_pub, Body::Block((*f.block).clone()), line);
        self.fn_depth += 1;
        self.visit_block(&f.block);
        self.fn_depth -= 1;
        self.self_ty.pop();
        if ft {
            self.test_depth -= 1;
        }
    }
}

/// `[pub] static ref NAME : Type = expr ;` repeated
pub fn parse_lazy_static(tokens: proc_macro2::TokenStream) -> Vec<(String, syn::Type)> {
    use syn::parse::Parser;
    let parser = |input: syn::parse::ParseStream| -> syn::Result<Vec<(String, syn::Type)>> {
        let mut res = vec![];
        while !input.is_empty() {
            let _attrs = input.call(syn::Attribute::parse_outer)?;
            let _vis: syn::Visibility = input.parse()?;
            input.parse::<syn::Token![static]>()?;
            input.parse::<syn::Token![ref]>()?;
            let name: syn::Ident = input.parse()?;
            input.parse::<syn::Token![:]>()?;
            let ty: syn::Type = input.parse()?;
            input.parse::<syn::Token![=]>()?;
            let _e: syn::Expr = input.parse()?;
            input.parse::<syn::Token![;]>()?;
            res.push((name.to_string(), ty));
        }
        Ok(res)
    };
    parser.parse2(tokens).unwrap_or_default()
}

pub fn collect(files: &[SourceFile]) -> Globals {
    let mut g = Globals::default();
    let tp = test_paths(files);
    // pass 0: type names, aliases, traits (needed by norm) — run the collector twice: first for types only
    for pass in 0..2 {
        if pass == 1 {
            // keep types/aliases/traits/statics/structs from pass 0, drop functions
            g.fns.clear();
            g.by_name.clear();
            g.by_type.clear();
            g.by_trait.clear();
            g.structs.clear();
            g.field_any.clear();
        }
        for f in files {
            let file_is_test = tp.iter().any(|p| if p.ends_with('/') { f.rel.starts_with(p.as_str()) } else { f.rel == *p });
            let mut c = Collector {
                g: &mut g,
                krate: f.krate.clone(),
                rel: f.rel.clone(),
                test_depth: 0,
                file_is_test,
                self_ty: vec![],
                fn_depth: 0,
            };
            c.visit_file(&f.ast);
        }
    }
    g
}
