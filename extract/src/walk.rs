//! Pass 2: per function, an abstract walk in evaluation order that tracks which lock guards are alive.
//!
//! Guard extents follow the Rust (edition 2021) drop rules:
//!  * `let g = x.read().await;`              → alive until the end of the enclosing block, or an explicit `drop(g)`
//!  * `let _ = x.read().await;`              → dropped at once
//!  * `let v = x.read().await.f();`          → temporary: end of the `let` statement
//!  * `let r = &x.read().await.field;`       → temporary lifetime extension: end of the enclosing block
//!  * `x.read().await.f();`                  → temporary: end of the expression statement
//!  * `if let P = x.read().await.f() {..}` / `match x.read().await.f() {..}` / `for _ in x.read().await.iter() {..}`
//!                                           → scrutinee temporaries live through the whole if-let / match / loop
//!  * `if x.read().await.c() {..}` / `while …` → condition temporaries are dropped before the body
//!  * tail expression of a block              → temporaries live until the end of the enclosing statement
//! Closures and async blocks are walked INLINE at their definition point with the guards alive there (they normally
//! run inside the enclosing task: `.map(|..| ..)`, `async { .. }.await`, task-runner callbacks), except when they
//! are handed to a `spawn`-like call: then they are separate root functions (`parent{spawn#k}`) with no guard held.
use crate::collect::pat_idents;
use crate::model::*;
use std::collections::{BTreeMap, HashMap};
use syn::spanned::Spanned;
use syn::{Expr, Pat, Stmt};

#[derive(Clone, Debug, PartialEq, Eq, PartialOrd, Ord)]
pub struct HeldRef {
    pub lock: LockId,
    pub line: usize,
    pub implicit: bool,
}

#[derive(Clone, Debug)]
pub struct Acq {
    pub lock: LockId,
    pub line: usize,
    pub kind: String,
    pub recv: String,
    pub held: Vec<HeldRef>,
    /// how the lock was identified: "type" or "name"
    pub by: &'static str,
}

#[derive(Clone, Copy, Debug, PartialEq, Eq, PartialOrd, Ord)]
pub enum How {
    Exact,
    Dyn,
    UniqueName,
    Ambiguous,
}

#[derive(Clone, Debug)]
pub struct CallEv {
    pub targets: Vec<usize>,
    pub how: How,
    pub line: usize,
    pub desc: String,
    pub held: Vec<HeldRef>,
}

#[derive(Default, Clone, Debug)]
pub struct Summary {
    pub acqs: Vec<Acq>,
    pub calls: Vec<CallEv>,
    /// (line of the method identifier, read|write|lock)
    pub sites: Vec<(usize, String)>,
    pub notes: Vec<String>,
    /// names of callees invoked while a guard is alive that resolve to nothing in the analysed crates (std, tokio, …)
    pub unresolved_under_guard: Vec<String>,
}

#[derive(Clone, Debug)]
struct Guard {
    id: usize,
    lock: LockId,
    line: usize,
    name: Option<String>,
    frame: usize,
    implicit: bool,
}

#[derive(Clone, Copy, PartialEq, Eq)]
enum FrameKind {
    Block,
    Temp,
}

#[derive(Clone, Copy)]
struct Vp {
    on: bool,
    under_ref: bool,
}
const NOVP: Vp = Vp { on: false, under_ref: false };
const VPON: Vp = Vp { on: true, under_ref: false };

pub struct Walker<'a> {
    g: &'a Globals,
    f: &'a FnInfo,
    env: Vec<HashMap<String, Ty>>,
    held: Vec<Guard>,
    frames: Vec<(usize, FrameKind)>,
    next_id: usize,
    let_frame: usize,
    value_guards: Vec<usize>,
    decl_frames: HashMap<String, usize>,
    pub out: Summary,
    pub spawned: Vec<FnInfo>,
    spawn_count: usize,
}

pub fn expr_text(e: &Expr) -> String {
    let s = quote::ToTokens::to_token_stream(e).to_string();
    s.replace(' ', "")
}

fn path_idents(p: &syn::Path) -> Vec<String> {
    p.segments.iter().map(|s| s.ident.to_string()).collect()
}

fn simple_ident(e: &Expr) -> Option<String> {
    match e {
        Expr::Path(p) if p.qself.is_none() && p.path.segments.len() == 1 => Some(p.path.segments[0].ident.to_string()),
        Expr::Paren(p) => simple_ident(&p.expr),
        Expr::Group(p) => simple_ident(&p.expr),
        _ => None,
    }
}

const PASSTHROUGH: &[&str] = &[
    "unwrap", "expect", "as_ref", "as_mut", "clone", "get", "get_mut", "borrow", "borrow_mut", "deref", "deref_mut",
    "unwrap_or_default", "iter", "iter_mut", "values", "values_mut", "first", "last", "next", "to_owned", "cloned",
    "copied", "take", "remove", "pop", "pop_front", "pop_back", "front", "back", "front_mut", "back_mut", "first_mut",
    "last_mut", "into_iter", "as_deref", "as_deref_mut", "unwrap_or_else", "ok", "into_inner", "by_ref", "peekable",
    "rev", "entry", "or_default", "or_insert_with", "or_insert", "lock_owned", "read_owned", "write_owned", "upgrade",
];

fn is_spawn_name(n: &str) -> bool {
    matches!(n, "spawn" | "spawn_blocking" | "spawn_local" | "spawn_on" | "spawn_local_on")
}

/// `X.read().await` etc.: returns (receiver, kind, line of the method identifier)
fn as_acquisition(a: &syn::ExprAwait) -> Option<(&Expr, String, usize)> {
    let mut base: &Expr = &a.base;
    loop {
        match base {
            Expr::Paren(p) => base = &p.expr,
            Expr::Group(p) => base = &p.expr,
            _ => break,
        }
    }
    if let Expr::MethodCall(m) = base {
        let n = m.method.to_string();
        if (n == "read" || n == "write" || n == "lock") && m.args.is_empty() && m.turbofish.is_none() {
            return Some((&m.receiver, n, m.method.span().start().line));
        }
    }
    None
}

fn block_diverges(b: &syn::Block) -> bool {
    match b.stmts.last() {
        Some(Stmt::Expr(e, _)) => expr_diverges(e),
        Some(Stmt::Macro(m)) => macro_diverges(&m.mac),
        _ => false,
    }
}

fn macro_diverges(m: &syn::Macro) -> bool {
    m.path
        .segments
        .last()
        .map(|s| matches!(s.ident.to_string().as_str(), "panic" | "unreachable" | "todo" | "unimplemented"))
        .unwrap_or(false)
}

fn expr_diverges(e: &Expr) -> bool {
    match e {
        Expr::Return(_) | Expr::Break(_) | Expr::Continue(_) => true,
        Expr::Macro(m) => macro_diverges(&m.mac),
        Expr::Block(b) => block_diverges(&b.block),
        Expr::Paren(p) => expr_diverges(&p.expr),
        Expr::If(i) => match &i.else_branch {
            Some((_, els)) => block_diverges(&i.then_branch) && expr_diverges(els),
            None => false,
        },
        _ => false,
    }
}

fn contains_let(e: &Expr) -> bool {
    match e {
        Expr::Let(_) => true,
        Expr::Binary(b) => contains_let(&b.left) || contains_let(&b.right),
        Expr::Paren(p) => contains_let(&p.expr),
        _ => false,
    }
}

fn crate_visible(caller: &str, callee: &str) -> bool {
    caller == callee || callee == "saito-core"
}

impl<'a> Walker<'a> {
    pub fn new(g: &'a Globals, f: &'a FnInfo) -> Self {
        Walker {
            g,
            f,
            env: vec![HashMap::new()],
            held: vec![],
            frames: vec![],
            next_id: 0,
            let_frame: 0,
            value_guards: vec![],
            decl_frames: HashMap::new(),
            out: Summary::default(),
            spawned: vec![],
            spawn_count: 0,
        }
    }

    pub fn run(mut self) -> (Summary, Vec<FnInfo>) {
        for (n, t) in &self.f.inherited_env {
            self.env[0].insert(n.clone(), t.clone());
        }
        for (n, t) in &self.f.params {
            self.env[0].insert(n.clone(), t.clone());
        }
        let f0 = self.push_frame(FrameKind::Temp);
        if self.f.has_self && !self.f.detached {
            if let Some(st) = &self.f.self_ty {
                if let Some(r) = implicit_rank_of_self(st) {
                    let id = self.fresh();
                    self.held.push(Guard { id, lock: LockId::Ranked(r), line: self.f.line, name: None, frame: f0, implicit: true });
                }
            }
        }
        match &self.f.body {
            Body::Block(b) => self.block(b, NOVP),
            Body::Expr(e) => self.expr(e, NOVP),
            Body::None => {}
        }
        self.pop_frame(f0);
        (self.out, self.spawned)
    }

    fn fresh(&mut self) -> usize {
        self.next_id += 1;
        self.next_id
    }

    fn push_frame(&mut self, k: FrameKind) -> usize {
        let id = self.fresh();
        self.frames.push((id, k));
        id
    }

    fn pop_frame(&mut self, id: usize) {
        while let Some((fid, _)) = self.frames.pop() {
            self.held.retain(|g| g.frame != fid);
            if fid == id {
                break;
            }
        }
    }

    fn cur_temp_frame(&self) -> usize {
        self.frames.iter().rev().find(|(_, k)| *k == FrameKind::Temp).map(|(i, _)| *i).unwrap_or(0)
    }

    fn cur_block_frame(&self) -> usize {
        self.frames.iter().rev().find(|(_, k)| *k == FrameKind::Block).map(|(i, _)| *i).unwrap_or_else(|| self.cur_temp_frame())
    }

    fn snapshot(&self) -> Vec<HeldRef> {
        self.held.iter().map(|g| HeldRef { lock: g.lock.clone(), line: g.line, implicit: g.implicit }).collect()
    }

    fn union(states: Vec<Vec<Guard>>) -> Vec<Guard> {
        let mut m: BTreeMap<usize, Guard> = BTreeMap::new();
        for s in states {
            for g in s {
                m.entry(g.id).or_insert(g);
            }
        }
        m.into_values().collect()
    }

    // ------------------------------------------------------------------ types
    fn lookup_var(&self, n: &str) -> Option<Ty> {
        for s in self.env.iter().rev() {
            if let Some(t) = s.get(n) {
                return Some(t.clone());
            }
        }
        None
    }

    fn bind(&mut self, n: String, t: Ty) {
        self.env.last_mut().unwrap().insert(n, t);
    }

    fn bind_pat(&mut self, p: &Pat, t: Ty) {
        match p {
            Pat::Ident(i) => {
                self.bind(i.ident.to_string(), t);
            }
            Pat::Reference(r) => self.bind_pat(&r.pat, t),
            Pat::Paren(r) => self.bind_pat(&r.pat, t),
            Pat::Type(pt) => {
                let ty = self.g.norm(&pt.ty, self.f.self_ty.as_deref());
                self.bind_pat(&pt.pat, ty)
            }
            Pat::TupleStruct(ts) => {
                // Some(x) / Ok(x) / Err(e): wrappers are peeled in our types
                let last = ts.path.segments.last().map(|s| s.ident.to_string()).unwrap_or_default();
                if ts.elems.len() == 1 && (last == "Some" || last == "Ok") {
                    self.bind_pat(&ts.elems[0], t)
                } else {
                    let mut v = vec![];
                    pat_idents(p, &mut v);
                    for n in v {
                        self.bind(n, Ty::Unknown);
                    }
                }
            }
            Pat::Tuple(tp) => {
                // (k, v) over a map: our map type is its value type → last element
                let n = tp.elems.len();
                for (i, e) in tp.elems.iter().enumerate() {
                    if n == 2 && i == 1 {
                        self.bind_pat(e, t.clone());
                    } else {
                        self.bind_pat(e, Ty::Unknown);
                    }
                }
            }
            _ => {
                let mut v = vec![];
                pat_idents(p, &mut v);
                for n in v {
                    self.bind(n, Ty::Unknown);
                }
            }
        }
    }

    fn field_ty(&self, base: &Ty, field: &str) -> Ty {
        if let Ty::Named(s) = base {
            if let Some(fs) = self.g.structs.get(s) {
                if let Some(tys) = fs.get(field) {
                    if tys.len() == 1 {
                        return tys.iter().next().unwrap().clone();
                    }
                    return Ty::Unknown;
                }
            }
        }
        // base unknown: unique field name over all structs
        if let Some(tys) = self.g.field_any.get(field) {
            if tys.len() == 1 {
                return tys.iter().next().unwrap().clone();
            }
        }
        Ty::Unknown
    }

    pub fn type_of(&self, e: &Expr) -> Ty {
        match e {
            Expr::Path(p) => {
                let ids = path_idents(&p.path);
                if ids.len() == 1 {
                    if ids[0] == "self" {
                        return match &self.f.self_ty {
                            Some(s) => Ty::Named(s.clone()),
                            None => self.lookup_var("self").unwrap_or(Ty::Unknown),
                        };
                    }
                    if let Some(t) = self.lookup_var(&ids[0]) {
                        return t;
                    }
                    if let Some(t) = self.g.statics.get(&ids[0]) {
                        return t.clone();
                    }
                } else if let Some(l) = ids.last() {
                    if let Some(t) = self.g.statics.get(l) {
                        return t.clone();
                    }
                }
                Ty::Unknown
            }
            Expr::Field(f) => {
                let b = self.type_of(&f.base);
                match &f.member {
                    syn::Member::Named(n) => self.field_ty(&b, &n.to_string()),
                    _ => Ty::Unknown,
                }
            }
            Expr::Await(a) => self.type_of(&a.base),
            Expr::Paren(p) => self.type_of(&p.expr),
            Expr::Group(p) => self.type_of(&p.expr),
            Expr::Reference(r) => self.type_of(&r.expr),
            Expr::Try(t) => self.type_of(&t.expr),
            Expr::Unary(u) => self.type_of(&u.expr),
            Expr::Cast(c) => self.g.norm(&c.ty, self.f.self_ty.as_deref()),
            Expr::Index(i) => self.type_of(&i.expr),
            Expr::MethodCall(m) => {
                let name = m.method.to_string();
                let rt = self.type_of(&m.receiver);
                if (name == "read" || name == "write" || name == "lock") && m.args.is_empty() {
                    if let Ty::Lock(inner) = &rt {
                        return (**inner).clone();
                    }
                }
                if let Ty::Named(t) = &rt {
                    if let Some(ids) = self.g.by_type.get(&(t.clone(), name.clone())) {
                        if let Some(&id) = ids.first() {
                            return self.g.fns[id].ret.clone();
                        }
                    }
                    if self.g.traits.contains(t) {
                        if let Some(ids) = self.g.by_trait.get(&(t.clone(), name.clone())) {
                            if let Some(&id) = ids.first() {
                                return self.g.fns[id].ret.clone();
                            }
                        }
                    }
                }
                if PASSTHROUGH.contains(&name.as_str()) {
                    return rt;
                }
                Ty::Unknown
            }
            Expr::Call(c) => {
                if let Expr::Path(p) = &*c.func {
                    let ids = path_idents(&p.path);
                    if ids.len() >= 2 {
                        let t = &ids[ids.len() - 2];
                        let f = &ids[ids.len() - 1];
                        let t = if t == "Self" { self.f.self_ty.clone().unwrap_or_default() } else { t.clone() };
                        if (t == "Arc" || t == "Box" || t == "Rc" || t == "Some" || t == "Ok") && c.args.len() == 1 {
                            return self.type_of(&c.args[0]);
                        }
                        if (t == "RwLock" || t == "Mutex") && f == "new" && c.args.len() == 1 {
                            return Ty::Lock(Box::new(self.type_of(&c.args[0])));
                        }
                        if let Some(v) = self.g.by_type.get(&(t.clone(), f.clone())) {
                            if let Some(&id) = v.first() {
                                let r = self.g.fns[id].ret.clone();
                                if r != Ty::Unknown {
                                    return r;
                                }
                            }
                        }
                        if self.g.types.contains(&t) && (f == "new" || f == "default") {
                            return Ty::Named(t);
                        }
                    } else if ids.len() == 1 {
                        if (ids[0] == "Some" || ids[0] == "Ok") && c.args.len() == 1 {
                            return self.type_of(&c.args[0]);
                        }
                        let (targets, _) = self.resolve_path_call(&ids, c.args.len());
                        if let Some(&id) = targets.first() {
                            return self.g.fns[id].ret.clone();
                        }
                    }
                }
                Ty::Unknown
            }
            Expr::Struct(s) => match s.path.segments.last() {
                Some(seg) => {
                    let n = seg.ident.to_string();
                    if n == "Self" {
                        self.f.self_ty.clone().map(Ty::Named).unwrap_or(Ty::Unknown)
                    } else {
                        Ty::Named(n)
                    }
                }
                None => Ty::Unknown,
            },
            Expr::Block(b) => match b.block.stmts.last() {
                Some(Stmt::Expr(e, None)) => self.type_of(e),
                _ => Ty::Unknown,
            },
            _ => Ty::Unknown,
        }
    }

    /// the name that identifies the lock object in a receiver expression (last field / variable)
    fn receiver_name(e: &Expr) -> Option<String> {
        match e {
            Expr::Path(p) => p.path.segments.last().map(|s| s.ident.to_string()),
            Expr::Field(f) => match &f.member {
                syn::Member::Named(n) => Some(n.to_string()),
                _ => None,
            },
            Expr::MethodCall(m) => Self::receiver_name(&m.receiver),
            Expr::Paren(p) => Self::receiver_name(&p.expr),
            Expr::Group(p) => Self::receiver_name(&p.expr),
            Expr::Reference(p) => Self::receiver_name(&p.expr),
            Expr::Unary(p) => Self::receiver_name(&p.expr),
            Expr::Try(p) => Self::receiver_name(&p.expr),
            Expr::Await(p) => Self::receiver_name(&p.base),
            Expr::Index(p) => Self::receiver_name(&p.expr),
            _ => None,
        }
    }

    fn classify(&self, recv: &Expr) -> (LockId, &'static str) {
        if let Ty::Lock(inner) = self.type_of(recv) {
            if let Some(l) = lock_of_inner(&inner) {
                return (l, "type");
            }
        }
        if let Some(n) = Self::receiver_name(recv) {
            if let Some(l) = lock_of_name(&n) {
                return (l, "name");
            }
        }
        (LockId::Unknown(expr_text(recv)), "none")
    }

    // ------------------------------------------------------------------ call resolution
    fn usable(&self, id: usize, dyn_ok: bool) -> bool {
        let c = &self.g.fns[id];
        if c.detached {
            return false;
        }
        if c.is_test && !self.f.is_test {
            return false;
        }
        dyn_ok || crate_visible(&self.f.krate, &c.krate)
    }

    fn prefer_local(&self, v: Vec<usize>) -> Vec<usize> {
        // same crate first; otherwise everything
        let same: Vec<usize> = v.iter().copied().filter(|&i| self.g.fns[i].krate == self.f.krate).collect();
        if !same.is_empty() {
            return same;
        }
        v
    }

    fn resolve_method(&self, recv: &Expr, name: &str, nargs: usize) -> (Vec<usize>, How) {
        let rt = self.type_of(recv);
        if let Ty::Named(t) = &rt {
            let is_trait = self.g.traits.contains(t);
            if is_trait {
                let mut v: Vec<usize> = self
                    .g
                    .by_trait
                    .get(&(t.clone(), name.to_string()))
                    .map(|v| v.iter().copied().filter(|&i| self.usable(i, true)).collect())
                    .unwrap_or_default();
                v.retain(|&i| !matches!(self.g.fns[i].body, Body::None));
                if !v.is_empty() {
                    return (v, How::Dyn);
                }
                if self.g.by_trait.contains_key(&(t.clone(), name.to_string())) {
                    // declared in the trait, but no implementation with a body in the analysed crates
                    return (vec![], How::Dyn);
                }
            } else if let Some(v) = self.g.by_type.get(&(t.clone(), name.to_string())) {
                let v: Vec<usize> = v.iter().copied().filter(|&i| self.usable(i, false)).collect();
                let v = self.prefer_local(v);
                if !v.is_empty() {
                    return (v, How::Exact);
                }
            }
        }
        // by method name over all methods with a self receiver and the same number of arguments
        let mut v: Vec<usize> = self
            .g
            .by_name
            .get(name)
            .map(|v| {
                v.iter()
                    .copied()
                    .filter(|&i| {
                        let c = &self.g.fns[i];
                        c.has_self && c.params.len() == nargs && !matches!(c.body, Body::None) && self.usable(i, c.trait_name.is_some())
                    })
                    .collect()
            })
            .unwrap_or_default();
        v.sort();
        v.dedup();
        match v.len() {
            0 => (v, How::Exact),
            1 => (v, How::UniqueName),
            _ => (v, How::Ambiguous),
        }
    }

    fn resolve_path_call(&self, ids: &[String], nargs: usize) -> (Vec<usize>, How) {
        let fname = ids.last().unwrap();
        if ids.len() == 1 {
            if self.lookup_var(fname).is_some() {
                return (vec![], How::Exact); // a local closure variable
            }
            let v: Vec<usize> = self
                .g
                .by_name
                .get(fname)
                .map(|v| v.iter().copied().filter(|&i| self.g.fns[i].self_ty.is_none() && self.usable(i, false)).collect())
                .unwrap_or_default();
            let same_file: Vec<usize> = v.iter().copied().filter(|&i| self.g.fns[i].file == self.f.file).collect();
            if !same_file.is_empty() {
                return (same_file, How::Exact);
            }
            let v = self.prefer_local(v);
            return match v.len() {
                0 => (v, How::Exact),
                1 => (v, How::UniqueName),
                _ => (v, How::Ambiguous),
            };
        }
        let mut t = ids[ids.len() - 2].clone();
        if t == "Self" {
            if let Some(s) = &self.f.self_ty {
                t = s.clone();
            }
        }
        if let Some(v) = self.g.by_type.get(&(t.clone(), fname.clone())) {
            let mut v: Vec<usize> = v.iter().copied().filter(|&i| self.usable(i, false)).collect();
            if self.g.traits.contains(&t) {
                if let Some(w) = self.g.by_trait.get(&(t.clone(), fname.clone())) {
                    v.extend(w.iter().copied().filter(|&i| self.usable(i, true)));
                }
                v.sort();
                v.dedup();
                v.retain(|&i| !matches!(self.g.fns[i].body, Body::None));
                return (v, How::Dyn);
            }
            let v = self.prefer_local(v);
            v.iter().for_each(|_| {});
            if !v.is_empty() {
                return (v, How::Exact);
            }
        }
        if self.g.is_known_type(&t) {
            return (vec![], How::Exact);
        }
        // module path: free function by name
        let is_module = t.chars().next().map(|c| c.is_lowercase()).unwrap_or(false);
        if is_module {
            let v: Vec<usize> = self
                .g
                .by_name
                .get(fname)
                .map(|v| {
                    v.iter()
                        .copied()
                        .filter(|&i| {
                            let c = &self.g.fns[i];
                            c.self_ty.is_none() && c.params.len() == nargs && self.usable(i, false)
                        })
                        .collect()
                })
                .unwrap_or_default();
            let stem: Vec<usize> = v
                .iter()
                .copied()
                .filter(|&i| self.g.fns[i].file.ends_with(&format!("/{}.rs", t)) || self.g.fns[i].file.ends_with(&format!("/{}/mod.rs", t)))
                .collect();
            if !stem.is_empty() {
                return (stem, How::Exact);
            }
            let v = self.prefer_local(v);
            return match v.len() {
                0 => (v, How::Exact),
                1 => (v, How::UniqueName),
                _ => (v, How::Ambiguous),
            };
        }
        (vec![], How::Exact)
    }

    // ------------------------------------------------------------------ statements
    fn block(&mut self, b: &syn::Block, vp: Vp) {
        let fid = self.push_frame(FrameKind::Block);
        self.env.push(HashMap::new());
        let n = b.stmts.len();
        for (i, s) in b.stmts.iter().enumerate() {
            match s {
                Stmt::Local(l) => self.local(l, fid),
                Stmt::Item(_) => {}
                Stmt::Expr(e, Some(_)) => {
                    let t = self.push_frame(FrameKind::Temp);
                    self.expr(e, NOVP);
                    self.pop_frame(t);
                }
                Stmt::Expr(e, None) => {
                    if i + 1 == n {
                        self.expr(e, vp);
                    } else {
                        let t = self.push_frame(FrameKind::Temp);
                        self.expr(e, NOVP);
                        self.pop_frame(t);
                    }
                }
                Stmt::Macro(m) => {
                    let t = self.push_frame(FrameKind::Temp);
                    self.mac(&m.mac);
                    self.pop_frame(t);
                }
            }
        }
        self.env.pop();
        self.pop_frame(fid);
    }

    fn name_value_guards(&mut self, pat: &Pat) {
        let mut ids = vec![];
        pat_idents(pat, &mut ids);
        let name = if ids.len() == 1 { Some(ids[0].clone()) } else { None };
        let vg = std::mem::take(&mut self.value_guards);
        for g in self.held.iter_mut() {
            if vg.contains(&g.id) && g.name.is_none() {
                g.name = name.clone();
            }
        }
    }

    fn local(&mut self, l: &syn::Local, block_frame: usize) {
        let saved = (self.let_frame, std::mem::take(&mut self.value_guards));
        self.let_frame = block_frame;
        let t = self.push_frame(FrameKind::Temp);
        let mut pat: &Pat = &l.pat;
        let mut declared: Option<Ty> = None;
        if let Pat::Type(pt) = pat {
            declared = Some(self.g.norm(&pt.ty, self.f.self_ty.as_deref()));
            pat = &pt.pat;
        }
        let mut init_ty = Ty::Unknown;
        match &l.init {
            Some(init) => {
                let mut done = false;
                if let (Pat::Tuple(pt), Expr::Tuple(et)) = (pat, &*init.expr) {
                    if pt.elems.len() == et.elems.len() {
                        for (p, e) in pt.elems.iter().zip(et.elems.iter()) {
                            self.value_guards.clear();
                            let wild = matches!(p, Pat::Wild(_));
                            self.expr(e, if wild { NOVP } else { VPON });
                            self.name_value_guards(p);
                        }
                        done = true;
                    }
                }
                if !done {
                    // `let g2 = g;` moves a guard: rename it
                    if let (Some(src), Pat::Ident(pi)) = (simple_ident(&init.expr), pat) {
                        if let Some(gd) = self.held.iter_mut().rev().find(|g| g.name.as_deref() == Some(src.as_str())) {
                            gd.name = Some(pi.ident.to_string());
                        }
                    }
                    let wild = matches!(pat, Pat::Wild(_));
                    self.expr(&init.expr, if wild { NOVP } else { VPON });
                    self.name_value_guards(pat);
                }
                init_ty = self.type_of(&init.expr);
                if let Some((_, div)) = &init.diverge {
                    let entry = self.held.clone();
                    self.expr(div, NOVP);
                    self.held = entry;
                }
            }
            None => {
                let mut ids = vec![];
                pat_idents(pat, &mut ids);
                for i in ids {
                    self.decl_frames.insert(i, block_frame);
                }
            }
        }
        self.pop_frame(t);
        {
            // remember where every simple local was declared: a guard stored into it later lives until that block ends
            let mut ids = vec![];
            pat_idents(pat, &mut ids);
            for i in ids {
                self.decl_frames.insert(i, block_frame);
            }
        }
        let ty = match declared {
            Some(Ty::Unknown) | None => init_ty,
            Some(d) => d,
        };
        self.bind_pat(pat, ty);
        self.let_frame = saved.0;
        self.value_guards = saved.1;
    }

    fn release_named(&mut self, name: &str) -> bool {
        if let Some(pos) = self.held.iter().rposition(|g| g.name.as_deref() == Some(name)) {
            self.held.remove(pos);
            true
        } else {
            false
        }
    }

    // ------------------------------------------------------------------ expressions
    fn acquire(&mut self, recv: &Expr, kind: String, line: usize, vp: Vp) {
        let (lock, by) = self.classify(recv);
        self.out.sites.push((line, kind.clone()));
        self.out.acqs.push(Acq { lock: lock.clone(), line, kind, recv: expr_text(recv), held: self.snapshot(), by });
        let frame = if vp.on { self.let_frame } else { self.cur_temp_frame() };
        let id = self.fresh();
        self.held.push(Guard { id, lock, line, name: None, frame, implicit: false });
        if vp.on {
            self.value_guards.push(id);
        }
    }

    fn inline_body(&mut self, params: Vec<(String, Ty)>, body: &Expr) {
        self.env.push(HashMap::new());
        for (n, t) in params {
            self.bind(n, t);
        }
        let saved = (self.let_frame, std::mem::take(&mut self.value_guards));
        let t = self.push_frame(FrameKind::Temp);
        self.expr(body, NOVP);
        self.pop_frame(t);
        self.let_frame = saved.0;
        self.value_guards = saved.1;
        self.env.pop();
    }

    fn closure_params(&self, c: &syn::ExprClosure) -> Vec<(String, Ty)> {
        let mut res = vec![];
        for p in &c.inputs {
            match p {
                Pat::Type(pt) => {
                    let ty = self.g.norm(&pt.ty, self.f.self_ty.as_deref());
                    let mut ids = vec![];
                    pat_idents(&pt.pat, &mut ids);
                    if ids.len() == 1 {
                        res.push((ids[0].clone(), ty));
                    } else {
                        ids.into_iter().for_each(|i| res.push((i, Ty::Unknown)));
                    }
                }
                other => {
                    let mut ids = vec![];
                    pat_idents(other, &mut ids);
                    ids.into_iter().for_each(|i| res.push((i, Ty::Unknown)));
                }
            }
        }
        res
    }

    fn flat_env(&self) -> Vec<(String, Ty)> {
        let mut m: BTreeMap<String, Ty> = BTreeMap::new();
        for s in &self.env {
            for (k, v) in s {
                m.insert(k.clone(), v.clone());
            }
        }
        m.into_iter().collect()
    }

    fn spawn_body(&mut self, body: Body, params: Vec<(String, Ty)>, line: usize) {
        self.spawn_count += 1;
        let mut env = self.flat_env();
        env.extend(params);
        let f = FnInfo {
            id: 0,
            krate: self.f.krate.clone(),
            file: self.f.file.clone(),
            line,
            self_ty: self.f.self_ty.clone(),
            trait_name: None,
            name: format!("{}{{spawn#{}}}", self.f.name, self.spawn_count),
            qual: format!("{}{{spawn#{}}}", self.f.qual, self.spawn_count),
            has_self: false,
            params: vec![],
            ret: Ty::Unknown,
            is_test: self.f.is_test,
            exported: false,
            body,
            inherited_env: env,
            detached: true,
        };
        self.spawned.push(f);
    }

    /// argument of a spawn-like call: runs on another task
    fn detached_arg(&mut self, a: &Expr) {
        match a {
            Expr::Paren(p) => self.detached_arg(&p.expr),
            Expr::Group(p) => self.detached_arg(&p.expr),
            Expr::Async(x) => {
                let line = x.async_token.span().start().line;
                self.spawn_body(Body::Block(x.block.clone()), vec![], line);
            }
            Expr::Closure(c) => {
                let line = c.span().start().line;
                let params = self.closure_params(c);
                self.spawn_body(Body::Expr((*c.body).clone()), params, line);
            }
            Expr::Call(c) => {
                // `spawn(run_x(a, b))`: the arguments are evaluated here, the body runs on the new task
                let wrapper = match &*c.func {
                    Expr::Path(p) => {
                        let ids = path_idents(&p.path);
                        ids.len() >= 2 && ids[ids.len() - 2] == "Box" && ids[ids.len() - 1] == "pin"
                    }
                    _ => false,
                };
                if wrapper && c.args.len() == 1 {
                    self.detached_arg(&c.args[0]);
                } else {
                    for x in &c.args {
                        self.expr(x, NOVP);
                    }
                }
            }
            Expr::MethodCall(m) => {
                self.expr(&m.receiver, NOVP);
                for x in &m.args {
                    self.expr(x, NOVP);
                }
            }
            other => self.expr(other, NOVP),
        }
    }

    fn record_call(&mut self, targets: Vec<usize>, how: How, line: usize, desc: String) {
        if targets.is_empty() {
            if self.held.iter().any(|g| g.lock.rank().is_some()) {
                let name = desc.trim_end_matches("()").rsplit(|c| c == '.' || c == ':').next().unwrap_or("").to_string();
                self.out.unresolved_under_guard.push(name);
            }
            return;
        }
        let held = self.snapshot();
        self.out.calls.push(CallEv { targets, how, line, desc, held });
    }

    fn handle_if(&mut self, i: &syn::ExprIf, vp: Vp) {
        let has_let = contains_let(&i.cond);
        self.env.push(HashMap::new());
        if has_let {
            self.expr(&i.cond, NOVP);
        } else {
            let t = self.push_frame(FrameKind::Temp);
            self.expr(&i.cond, NOVP);
            self.pop_frame(t);
        }
        let entry = self.held.clone();
        let mut exits = vec![];
        let tf = self.push_frame(FrameKind::Temp);
        self.block(&i.then_branch, vp);
        self.pop_frame(tf);
        if !block_diverges(&i.then_branch) {
            exits.push(self.held.clone());
        }
        self.env.pop();
        self.held = entry.clone();
        match &i.else_branch {
            Some((_, els)) => {
                let tf = self.push_frame(FrameKind::Temp);
                self.expr(els, vp);
                self.pop_frame(tf);
                if !expr_diverges(els) {
                    exits.push(self.held.clone());
                }
            }
            None => exits.push(entry.clone()),
        }
        self.held = if exits.is_empty() { entry } else { Self::union(exits) };
    }

    fn handle_match(&mut self, m: &syn::ExprMatch, vp: Vp) {
        self.expr(&m.expr, NOVP);
        let st = self.type_of(&m.expr);
        let entry = self.held.clone();
        let mut exits = vec![];
        for arm in &m.arms {
            self.held = entry.clone();
            self.env.push(HashMap::new());
            self.bind_pat(&arm.pat, st.clone());
            if let Some((_, g)) = &arm.guard {
                let t = self.push_frame(FrameKind::Temp);
                self.expr(g, NOVP);
                self.pop_frame(t);
            }
            let t = self.push_frame(FrameKind::Temp);
            self.expr(&arm.body, vp);
            self.pop_frame(t);
            if !expr_diverges(&arm.body) {
                exits.push(self.held.clone());
            }
            self.env.pop();
        }
        self.held = if exits.is_empty() { entry } else { Self::union(exits) };
    }

    fn loop_body(&mut self, body: &syn::Block) {
        let t = self.push_frame(FrameKind::Temp);
        self.block(body, NOVP);
        self.pop_frame(t);
    }

    fn expr(&mut self, e: &Expr, vp: Vp) {
        match e {
            Expr::Await(a) => {
                if let Some((recv, kind, line)) = as_acquisition(a) {
                    self.expr(recv, NOVP);
                    self.acquire(recv, kind, line, vp);
                } else {
                    self.expr(&a.base, NOVP);
                }
            }
            Expr::Paren(p) => self.expr(&p.expr, vp),
            Expr::Group(p) => self.expr(&p.expr, vp),
            Expr::Reference(r) => self.expr(&r.expr, if vp.on { Vp { on: true, under_ref: true } } else { NOVP }),
            Expr::Field(f) => self.expr(&f.base, if vp.on && vp.under_ref { vp } else { NOVP }),
            Expr::Index(i) => {
                self.expr(&i.expr, if vp.on && vp.under_ref { vp } else { NOVP });
                self.expr(&i.index, NOVP);
            }
            Expr::Unary(u) => {
                let deref = matches!(u.op, syn::UnOp::Deref(_));
                self.expr(&u.expr, if deref && vp.on && vp.under_ref { vp } else { NOVP });
            }
            Expr::Tuple(t) => {
                for x in &t.elems {
                    self.expr(x, vp);
                }
            }
            Expr::Array(t) => {
                for x in &t.elems {
                    self.expr(x, vp);
                }
            }
            Expr::Struct(s) => {
                for f in &s.fields {
                    self.expr(&f.expr, vp);
                }
                if let Some(r) = &s.rest {
                    self.expr(r, NOVP);
                }
            }
            Expr::Block(b) => self.block(&b.block, vp),
            Expr::Unsafe(b) => self.block(&b.block, vp),
            Expr::Const(b) => self.block(&b.block, vp),
            Expr::TryBlock(b) => self.block(&b.block, NOVP),
            Expr::If(i) => self.handle_if(i, vp),
            Expr::Match(m) => self.handle_match(m, vp),
            Expr::Cast(c) => self.expr(&c.expr, NOVP),
            Expr::Try(t) => self.expr(&t.expr, NOVP),
            Expr::Let(l) => {
                self.expr(&l.expr, NOVP);
                let t = self.type_of(&l.expr);
                self.bind_pat(&l.pat, t);
            }
            Expr::Binary(b) => {
                self.expr(&b.left, NOVP);
                if matches!(b.op, syn::BinOp::And(_) | syn::BinOp::Or(_)) && !contains_let(&b.right) {
                    let t = self.push_frame(FrameKind::Temp);
                    self.expr(&b.right, NOVP);
                    self.pop_frame(t);
                } else {
                    self.expr(&b.right, NOVP);
                }
            }
            Expr::Assign(a) => {
                if let Some(name) = simple_ident(&a.left) {
                    let saved = (self.let_frame, std::mem::take(&mut self.value_guards));
                    self.let_frame = self.decl_frames.get(&name).copied().unwrap_or_else(|| self.cur_block_frame());
                    // the frame must still be open
                    if !self.frames.iter().any(|(i, _)| *i == self.let_frame) {
                        self.let_frame = self.cur_block_frame();
                    }
                    self.expr(&a.right, VPON);
                    let vg = std::mem::take(&mut self.value_guards);
                    for g in self.held.iter_mut() {
                        if vg.contains(&g.id) {
                            g.name = Some(name.clone());
                        }
                    }
                    let t = self.type_of(&a.right);
                    if t != Ty::Unknown {
                        // visible in the scope where the variable was declared: put it in the outermost scope that lacks it
                        for s in self.env.iter_mut().rev() {
                            if s.contains_key(&name) {
                                s.insert(name.clone(), t.clone());
                                break;
                            }
                        }
                        if self.lookup_var(&name).is_none() {
                            self.env[0].insert(name.clone(), t);
                        }
                    }
                    self.let_frame = saved.0;
                    self.value_guards = saved.1;
                } else {
                    self.expr(&a.left, NOVP);
                    self.expr(&a.right, NOVP);
                }
            }
            Expr::While(w) => {
                let entry = self.held.clone();
                self.env.push(HashMap::new());
                if contains_let(&w.cond) {
                    let t = self.push_frame(FrameKind::Temp);
                    self.expr(&w.cond, NOVP);
                    self.loop_body(&w.body);
                    self.pop_frame(t);
                } else {
                    let t = self.push_frame(FrameKind::Temp);
                    self.expr(&w.cond, NOVP);
                    self.pop_frame(t);
                    self.loop_body(&w.body);
                }
                self.env.pop();
                let exit = self.held.clone();
                self.held = Self::union(vec![entry, exit]);
            }
            Expr::ForLoop(f) => {
                self.expr(&f.expr, NOVP);
                let entry = self.held.clone();
                let t = self.type_of(&f.expr);
                self.env.push(HashMap::new());
                self.bind_pat(&f.pat, t);
                self.loop_body(&f.body);
                self.env.pop();
                let exit = self.held.clone();
                self.held = Self::union(vec![entry, exit]);
            }
            Expr::Loop(l) => {
                let entry = self.held.clone();
                self.loop_body(&l.body);
                let exit = self.held.clone();
                self.held = Self::union(vec![entry, exit]);
            }
            Expr::Closure(c) => {
                let params = self.closure_params(c);
                self.inline_body(params, &c.body);
            }
            Expr::Async(a) => {
                let saved = (self.let_frame, std::mem::take(&mut self.value_guards));
                let t = self.push_frame(FrameKind::Temp);
                self.block(&a.block, NOVP);
                self.pop_frame(t);
                self.let_frame = saved.0;
                self.value_guards = saved.1;
            }
            Expr::MethodCall(m) => {
                let name = m.method.to_string();
                self.expr(&m.receiver, NOVP);
                if is_spawn_name(&name) && !self.g.by_name.contains_key(&name) {
                    for a in &m.args {
                        self.detached_arg(a);
                    }
                    return;
                }
                // `v.insert(x.write().await)`, `v.replace(..)`, `v.push(..)` …: the guard is moved into the local `v`
                // and lives until `v` goes out of scope (or `drop(v)`)
                let stores = matches!(name.as_str(), "insert" | "replace" | "get_or_insert" | "push" | "push_back" | "push_front" | "set" | "extend");
                if let (true, Some(v)) = (stores, simple_ident(&m.receiver)) {
                    if self.g.by_name.get(&name).is_none() || self.lookup_var(&v).is_some() {
                        let saved = (self.let_frame, std::mem::take(&mut self.value_guards));
                        self.let_frame = self.decl_frames.get(&v).copied().unwrap_or_else(|| self.cur_block_frame());
                        if !self.frames.iter().any(|(i, _)| *i == self.let_frame) {
                            self.let_frame = self.cur_block_frame();
                        }
                        for a in &m.args {
                            self.expr(a, VPON);
                        }
                        let vg = std::mem::take(&mut self.value_guards);
                        for g in self.held.iter_mut() {
                            if vg.contains(&g.id) {
                                g.name = Some(v.clone());
                            }
                        }
                        self.let_frame = saved.0;
                        self.value_guards = saved.1;
                        let (targets, how) = self.resolve_method(&m.receiver, &name, m.args.len());
                        let line = m.method.span().start().line;
                        let desc = format!("{}.{}()", expr_text(&m.receiver), name);
                        self.record_call(targets, how, line, desc);
                        return;
                    }
                }
                for a in &m.args {
                    self.expr(a, NOVP);
                }
                let (targets, how) = self.resolve_method(&m.receiver, &name, m.args.len());
                let line = m.method.span().start().line;
                let desc = format!("{}.{}()", expr_text(&m.receiver), name);
                self.record_call(targets, how, line, desc);
            }
            Expr::Call(c) => {
                if let Expr::Path(p) = &*c.func {
                    let ids = path_idents(&p.path);
                    let last = ids.last().cloned().unwrap_or_default();
                    if last == "drop" && c.args.len() == 1 && (ids.len() == 1 || ids[ids.len() - 2] == "mem") {
                        if let Some(n) = simple_ident(&c.args[0]) {
                            self.release_named(&n);
                            return;
                        }
                    }
                    if is_spawn_name(&last) && !self.g.by_name.contains_key(&last) {
                        for a in &c.args {
                            self.detached_arg(a);
                        }
                        return;
                    }
                    // a guard wrapped by a constructor (`Some(x.write().await)`, `Ok(..)`, `Box::new(..)`, a tuple
                    // struct) is moved into the value: it lives as long as the value does
                    let wrapper = matches!(last.as_str(), "Some" | "Ok" | "Err" | "new")
                        || (last.chars().next().map(|ch| ch.is_uppercase()).unwrap_or(false) && !self.g.by_name.contains_key(&last));
                    for a in &c.args {
                        self.expr(a, if wrapper { vp } else { NOVP });
                    }
                    let (targets, how) = self.resolve_path_call(&ids, c.args.len());
                    let line = p.path.segments.last().map(|s| s.ident.span().start().line).unwrap_or(0);
                    self.record_call(targets, how, line, format!("{}()", ids.join("::")));
                } else {
                    self.expr(&c.func, NOVP);
                    for a in &c.args {
                        self.expr(a, NOVP);
                    }
                }
            }
            Expr::Macro(m) => self.mac(&m.mac),
            Expr::Return(r) => {
                if let Some(x) = &r.expr {
                    self.expr(x, NOVP);
                }
            }
            Expr::Break(r) => {
                if let Some(x) = &r.expr {
                    self.expr(x, NOVP);
                }
            }
            Expr::Yield(r) => {
                if let Some(x) = &r.expr {
                    self.expr(x, NOVP);
                }
            }
            Expr::Range(r) => {
                if let Some(x) = &r.start {
                    self.expr(x, NOVP);
                }
                if let Some(x) = &r.end {
                    self.expr(x, NOVP);
                }
            }
            Expr::Repeat(r) => {
                self.expr(&r.expr, NOVP);
                self.expr(&r.len, NOVP);
            }
            Expr::Path(_) | Expr::Lit(_) | Expr::Continue(_) | Expr::Infer(_) | Expr::Verbatim(_) => {}
            _ => {}
        }
    }

    // ------------------------------------------------------------------ macros
    fn mac(&mut self, m: &syn::Macro) {
        use syn::parse::Parser;
        let name = m.path.segments.last().map(|s| s.ident.to_string()).unwrap_or_default();
        if name == "select" {
            if let Ok(branches) = parse_select.parse2(m.tokens.clone()) {
                let entry = self.held.clone();
                let mut exits = vec![];
                for b in branches {
                    self.held = entry.clone();
                    self.env.push(HashMap::new());
                    let tf = self.push_frame(FrameKind::Temp);
                    if let Some(f) = &b.fut {
                        self.expr(f, NOVP);
                        if let Some(p) = &b.pat {
                            let t = self.type_of(f);
                            self.bind_pat(p, t);
                        }
                    }
                    if let Some(c) = &b.cond {
                        self.expr(c, NOVP);
                    }
                    self.expr(&b.handler, NOVP);
                    self.pop_frame(tf);
                    self.env.pop();
                    exits.push(self.held.clone());
                }
                self.held = if exits.is_empty() { entry } else { Self::union(exits) };
                return;
            }
        }
        let parser = syn::punctuated::Punctuated::<Expr, syn::Token![,]>::parse_terminated;
        if let Ok(list) = parser.parse2(m.tokens.clone()) {
            for e in list.iter() {
                self.expr(e, NOVP);
            }
            return;
        }
        if let Ok(stmts) = syn::Block::parse_within.parse2(m.tokens.clone()) {
            let b = syn::Block { brace_token: Default::default(), stmts };
            self.block(&b, NOVP);
            return;
        }
        let line = m.path.span().start().line;
        self.out.notes.push(format!("{}:{}: macro `{}!` body not parsed as expressions", self.f.file, line, name));
    }
}

pub struct SelectBranch {
    pub pat: Option<Pat>,
    pub fut: Option<Expr>,
    pub cond: Option<Expr>,
    pub handler: Expr,
}

/// tokio::select! { [biased;] pat = future [, if cond] => handler [,] ... [else => handler] }
pub fn parse_select(input: syn::parse::ParseStream) -> syn::Result<Vec<SelectBranch>> {
    let mut res = vec![];
    if input.peek(syn::Ident) && input.peek2(syn::Token![;]) {
        let _: syn::Ident = input.parse()?;
        let _: syn::Token![;] = input.parse()?;
    }
    while !input.is_empty() {
        if input.peek(syn::Token![else]) {
            let _: syn::Token![else] = input.parse()?;
            let _: syn::Token![=>] = input.parse()?;
            let handler: Expr = input.parse()?;
            let _ = input.parse::<Option<syn::Token![,]>>()?;
            res.push(SelectBranch { pat: None, fut: None, cond: None, handler });
            continue;
        }
        let pat = Pat::parse_multi_with_leading_vert(input)?;
        let _: syn::Token![=] = input.parse()?;
        let fut: Expr = input.parse()?;
        let mut cond = None;
        if input.peek(syn::Token![,]) {
            let _: syn::Token![,] = input.parse()?;
            let _: syn::Token![if] = input.parse()?;
            cond = Some(Expr::parse_without_eager_brace(input)?);
        }
        let _: syn::Token![=>] = input.parse()?;
        let handler: Expr = input.parse()?;
        let _ = input.parse::<Option<syn::Token![,]>>()?;
        res.push(SelectBranch { pat: Some(pat), fut: Some(fut), cond, handler });
    }
    Ok(res)
}
