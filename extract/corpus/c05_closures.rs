// closures / async blocks: inline unless handed to a spawn-like call
pub struct Blockchain {}
pub struct Wallet {}
pub struct T {
    blockchain_lock: Arc<RwLock<Blockchain>>,
    wallet_lock: Arc<RwLock<Wallet>>,
}
impl T {
    // an async block awaited in place runs inside this task: edge 7->4 at line 13
    pub async fn inline_async(&self) {
        let wallet = self.wallet_lock.write().await;
        async {
            let b = self.blockchain_lock.read().await;
            let _ = &b;
        }
        .await;
        let _ = &wallet;
    }
    // a closure passed to a combinator runs inside this task: edge 7->4 at line 23
    pub async fn inline_closure(&self, xs: Vec<u64>) {
        let wallet = self.wallet_lock.write().await;
        let futs = xs.iter().map(|_x| async {
            let b = self.blockchain_lock.read().await;
            let _ = &b;
        });
        let _ = (&wallet, futs);
    }
    // tokio::spawn: the body is another task: NO edge from the spawner's guard;
    // inside the spawned body 4 then 7 (line 36): edge 4->7 attributed to T::spawned{spawn#1}
    pub async fn spawned(&self) {
        let wallet = self.wallet_lock.write().await;
        let bl = self.blockchain_lock.clone();
        let wl = self.wallet_lock.clone();
        tokio::spawn(async move {
            let b = bl.read().await;
            let w = wl.read().await;
            let _ = (&b, &w);
        });
        let _ = &wallet;
    }
    // builder-style spawn with a closure (spawn_blocking): separate task as well; `tokio::spawn(f(x))` too
    pub async fn spawned2(&self, handle: Handle) {
        let wallet = self.wallet_lock.write().await;
        let bl = self.blockchain_lock.clone();
        handle.spawn_blocking(move || {
            let _ = &bl;
        });
        tokio::spawn(run_other(self.blockchain_lock.clone()));
        let _ = &wallet;
    }
    // a guard taken INSIDE an inline closure ends with the closure body: no edge at line 58
    pub async fn closure_scope(&self) {
        let f = async {
            let w = self.wallet_lock.write().await;
            let _ = &w;
        };
        f.await;
        let b = self.blockchain_lock.read().await;
        let _ = &b;
    }
}
async fn run_other(bl: Arc<RwLock<Blockchain>>) {
    let b = bl.read().await;
    let _ = &b;
}
