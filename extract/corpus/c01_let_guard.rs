// guard bound by `let`: alive until the end of the enclosing block
pub struct Blockchain {}
pub struct Wallet {}
pub struct T {
    blockchain_lock: Arc<RwLock<Blockchain>>,
    wallet_lock: Arc<RwLock<Wallet>>,
}
impl T {
    // 4 then 7 while 4 alive: ascending edge 4->7 at line 12
    pub async fn ascending(&self) {
        let blockchain = self.blockchain_lock.read().await;
        let wallet = self.wallet_lock.write().await;
        let _ = (&blockchain, &wallet);
    }
    // 7 then 4 while 7 alive: edge 7->4 at line 18
    pub async fn descending(&self) {
        let wallet = self.wallet_lock.write().await;
        let blockchain = self.blockchain_lock.read().await;
        let _ = (&blockchain, &wallet);
    }
    // inner block ends before the second acquisition: no edge
    pub async fn scoped(&self) {
        {
            let wallet = self.wallet_lock.write().await;
            let _ = &wallet;
        }
        let blockchain = self.blockchain_lock.read().await;
        let _ = &blockchain;
    }
    // `let _ = guard` drops at once (no edge); `let _g = guard` keeps it (edge 7->4 at line 35)
    pub async fn underscore(&self) {
        let _ = self.wallet_lock.write().await;
        let _b = self.blockchain_lock.read().await;
        let _g = self.wallet_lock.write().await;
        let _c = self.blockchain_lock.read().await;
    }
}
