// lock identity: declared type first, name only as a fallback; private locks are not ranked; unknown ones are reported
pub struct Blockchain {}
pub struct Wallet {}
pub struct PeerCollection {}
pub struct PeerSender {}
pub struct S {
    // misleading names: the TYPE decides
    a: Arc<RwLock<Wallet>>,
    wallet_lock: Arc<RwLock<Blockchain>>,
    queries: Arc<Mutex<HashSet<String>>>,
    sockets: Arc<Mutex<HashMap<u64, PeerSender>>>,
}
impl S {
    // a is Wallet (7), `wallet_lock` is really the Blockchain (4): edge 7->4 at line 17
    pub async fn by_type(&self) {
        let g = self.a.write().await;
        let h = self.wallet_lock.read().await;
        let _ = (&g, &h);
    }
    // parameter types; `x.clone()` keeps the type; 6 then 2: edge 6->2 at line 24
    pub async fn params(p: Arc<RwLock<PeerCollection>>, s: Arc<Mutex<HashMap<u64, PeerSender>>>) {
        let p2 = p.clone();
        let g = p2.read().await;
        let h = s.lock().await;
        let _ = (&g, &h);
    }
    // a private lock (HashSet<String>) is not one of the shared structures: listed under otherLocks, no edge
    pub async fn private_lock(&self) {
        let g = self.a.write().await;
        let q = self.queries.lock().await;
        let _ = (&g, &q);
    }
    // no type, but a telling name: ranked by name (mempool → 5, wallet → 7): edge 5->7 at line 36
    pub async fn by_name(ctx: &Opaque) {
        let m = ctx.mempool_lock.read().await;
        let w = ctx.wallet.write().await;
        let _ = (&m, &w);
    }
    // neither type nor name: reported in `unranked`
    pub async fn unknown(ctx: &Opaque) {
        let m = ctx.thing.read().await;
        let _ = &m;
    }
    // not awaited (std::sync) → not a site; with arguments → not a site
    pub fn sync_lock(c: &std::sync::Mutex<u64>, f: &mut File, b: &mut [u8]) {
        let g = c.lock().unwrap();
        let _ = f.read(b);
        let _ = &g;
    }
}
