// acquisitions inside macro invocations (logging, assert, select!) are sites too
pub struct Blockchain { pub id: u64 }
pub struct Wallet { pub v: u64 }
pub struct NetworkController {}
pub struct T {
    blockchain_lock: Arc<RwLock<Blockchain>>,
    wallet_lock: Arc<RwLock<Wallet>>,
}
impl T {
    // a temporary inside `info!(..)`: dropped at the end of that statement → no edge; but it IS a site
    pub async fn logging(&self) {
        info!("id = {:?}", self.blockchain_lock.read().await.id);
        let w = self.wallet_lock.write().await;
        let _ = &w;
    }
    // under a guard: edge 7->4 at line 19
    pub async fn logging_under_guard(&self) {
        let w = self.wallet_lock.write().await;
        debug!("id = {:?} {:?}", self.blockchain_lock.read().await.id, w.v);
    }
    // assert_eq! with two temporaries in one statement: edge 4->7 at line 23
    pub async fn asserting(&self) {
        assert_eq!(self.blockchain_lock.read().await.id, self.wallet_lock.read().await.v);
    }
}
// tokio::select! arms: the handler runs in this task; guards are per arm
pub async fn run(mut receiver: Receiver<u64>, network_controller_lock: Arc<RwLock<NetworkController>>, wallet_lock: Arc<RwLock<Wallet>>) {
    loop {
        select! {
            result = receiver.recv() => {
                if result.is_some() {
                    let sockets;
                    {
                        let network_controller = network_controller_lock.read().await;
                        sockets = network_controller.clone();
                    }
                    let w = wallet_lock.read().await;
                    let _ = (&w, sockets);
                }
            }
            _ = tick(), if true => {
                let nc = network_controller_lock.read().await;
                let w = wallet_lock.read().await;
                let _ = (&nc, &w);
            }
        }
    }
}
