// explicit drop(g) ends the guard; conditional drop keeps it on the other path
pub struct Mempool {}
pub struct PeerCollection {}
pub struct T {
    mempool_lock: Arc<RwLock<Mempool>>,
    peer_lock: Arc<RwLock<PeerCollection>>,
}
impl T {
    // dropped before the second acquisition: no edge
    pub async fn dropped(&self) {
        let peers = self.peer_lock.write().await;
        drop(peers);
        let mempool = self.mempool_lock.read().await;
        let _ = &mempool;
    }
    // std::mem::drop as well
    pub async fn mem_dropped(&self) {
        let peers = self.peer_lock.write().await;
        std::mem::drop(peers);
        let mempool = self.mempool_lock.read().await;
        let _ = &mempool;
    }
    // dropping ANOTHER variable does not help: edge 6->5 at line 27
    pub async fn wrong_drop(&self, other: u32) {
        let peers = self.peer_lock.write().await;
        drop(other);
        let mempool = self.mempool_lock.read().await;
        let _ = (&mempool, &peers);
    }
    // dropped on one path only: still alive on the other → edge 6->5 at line 36
    pub async fn cond_drop(&self, c: bool) {
        let peers = self.peer_lock.write().await;
        if c {
            drop(peers);
        }
        let mempool = self.mempool_lock.read().await;
        let _ = &mempool;
    }
    // dropped on both paths: no edge
    pub async fn both_drop(&self, c: bool) {
        let peers = self.peer_lock.write().await;
        if c {
            drop(peers);
        } else {
            drop(peers);
        }
        let mempool = self.mempool_lock.read().await;
        let _ = &mempool;
    }
    // the path that keeps the guard returns: after the `if` it is gone → no edge at line 60; but edge 6->5 inside at 54
    pub async fn diverge(&self, c: bool) {
        let peers = self.peer_lock.write().await;
        if c {
            let m = self.mempool_lock.read().await;
            let _ = &m;
            return;
        } else {
            drop(peers);
        }
        let mempool = self.mempool_lock.read().await;
        let _ = &mempool;
    }
}
