// a guard moved INTO a local (Option::insert, Some(..), Vec::push, late assignment) lives as long as that local
pub struct Blockchain {}
pub struct Wallet {}
pub struct PeerCollection {}
pub struct T {
    blockchain_lock: Arc<RwLock<Blockchain>>,
    wallet_lock: Arc<RwLock<Wallet>>,
    peer_lock: Arc<RwLock<PeerCollection>>,
}
impl T {
    // wallet guard stored with Option::insert inside an if; still alive at line 20: edge 7->6
    pub async fn option_insert(&self, c: bool) {
        let wallet_lock = self.wallet_lock.clone();
        let mut keep = None;
        if c {
            let w = keep.insert(wallet_lock.write().await);
            let _ = &w;
        }
        let peers = self.peer_lock.read().await;
        let _ = &peers;
        drop(keep);
    }
    // wrapped in Some(..) and bound by let: alive at line 28: edge 7->4
    pub async fn some_wrapped(&self) {
        let g = Some(self.wallet_lock.write().await);
        let b = self.blockchain_lock.read().await;
        let _ = (&g, &b);
    }
    // stored and then dropped through the local before the next acquisition: no edge
    pub async fn stored_then_dropped(&self) {
        let mut keep = None;
        let _w = keep.insert(self.wallet_lock.write().await);
        drop(keep);
        let b = self.blockchain_lock.read().await;
        let _ = &b;
    }
    // pushed into a vector: alive at line 44: edge 7->6
    pub async fn pushed(&self) {
        let mut v = Vec::new();
        v.push(self.wallet_lock.write().await);
        let p = self.peer_lock.read().await;
        let _ = (&v, &p);
    }
}
