// ambiguous callee names, late-initialised guards, moved guards, nested fn items
pub struct Blockchain {}
pub struct Wallet {}
pub struct Mempool {}
pub struct A { wallet_lock: Arc<RwLock<Wallet>> }
pub struct B { mempool_lock: Arc<RwLock<Mempool>> }
pub struct T { blockchain_lock: Arc<RwLock<Blockchain>> }
impl A { pub async fn go(&self) { let w = self.wallet_lock.read().await; let _ = &w; } }
impl B { pub async fn go(&self) { let m = self.mempool_lock.read().await; let _ = &m; } }
impl T {
    // `x.go()` with an opaque receiver: both A::go and B::go are candidates → union (4->7 and 4->5 at line 14), listed as ambiguous
    pub async fn ambiguous(&self, x: &Opaque) {
        let b = self.blockchain_lock.read().await;
        x.go().await;
        let _ = &b;
    }
    // receiver type evident (`a: &A`): only A::go → 4->7 at line 20, not ambiguous
    pub async fn evident(&self, a: &A) {
        let b = self.blockchain_lock.read().await;
        a.go().await;
        let _ = &b;
    }
    // `let g; g = lock.read().await;` lives in the scope of the declaration: edge 4->7 at line 30
    pub async fn late_init(&self, a: &A) {
        let g;
        {
            g = self.blockchain_lock.read().await;
        }
        let _ = &g;
        a.go().await;
    }
    // moving the guard into another variable and dropping that one releases it: no edge
    pub async fn moved(&self, a: &A) {
        let g = self.blockchain_lock.read().await;
        let h = g;
        drop(h);
        a.go().await;
    }
    // a nested fn item is its own function: its edge is attributed to it (c10_misc::inner), line 43
    pub async fn with_inner(&self) {
        async fn inner(t: &T, a: &A) {
            let b = t.blockchain_lock.write().await;
            a.go().await;
            let _ = &b;
        }
    }
}
