// temporaries: dropped at the end of the statement, unless extended by `let x = &temp...`
pub struct Blockchain { pub id: u64 }
pub struct Wallet { pub v: u64 }
impl Wallet { pub fn version(&self) -> u64 { self.v } }
pub struct T {
    blockchain_lock: Arc<RwLock<Blockchain>>,
    wallet_lock: Arc<RwLock<Wallet>>,
}
impl T {
    // temporary in an expression statement: gone at the `;` → no edge
    pub async fn stmt_temp(&self) {
        self.wallet_lock.write().await.v = 1;
        let b = self.blockchain_lock.read().await;
        let _ = &b;
    }
    // temporary in a let initialiser with a method chain: gone at the `;` → no edge
    pub async fn let_temp(&self) {
        let v = self.wallet_lock.read().await.version();
        let b = self.blockchain_lock.read().await;
        let _ = (&b, v);
    }
    // two temporaries in ONE statement: the first is still alive when the second is taken → edge 7->4 at line 24
    pub async fn same_stmt(&self) -> u64 {
        let s = self.wallet_lock.read().await.v + self.blockchain_lock.read().await.id;
        s
    }
    // temporary lifetime extension: `let r = &guard.field` keeps the guard to the end of the block → edge 7->4 at line 30
    pub async fn extended(&self) -> u64 {
        let r = &self.wallet_lock.read().await.v;
        let b = self.blockchain_lock.read().await;
        *r + b.id
    }
    // arguments of a call are temporaries of the whole statement → edge 7->4 at line 37 (second argument)
    pub async fn args(&self) -> u64 {
        let s = add(
            self.wallet_lock.read().await.v,
            self.blockchain_lock.read().await.id,
        );
        s
    }
    // plain `if` condition: temporary dropped before the body → no edge
    pub async fn if_cond(&self) {
        if self.wallet_lock.read().await.v > 0 {
            let b = self.blockchain_lock.read().await;
            let _ = &b;
        }
    }
    // tail expression of the function body: temporary lives to the end → but nothing follows; no edge
    pub async fn tail(&self) -> u64 {
        let x = 1;
        self.wallet_lock.read().await.v + x
    }
}
fn add(a: u64, b: u64) -> u64 { a + b }
