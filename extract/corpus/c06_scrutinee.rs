// scrutinee temporaries of `if let` / `match` / `while let` / `for` live through the body
pub struct Blockchain { pub last: Option<u64> }
impl Blockchain { pub fn get(&self) -> Option<u64> { self.last } pub fn all(&self) -> Vec<u64> { vec![] } }
pub struct Wallet {}
pub struct T {
    blockchain_lock: Arc<RwLock<Blockchain>>,
    wallet_lock: Arc<RwLock<Wallet>>,
}
impl T {
    // edge 4->7 at line 13 (guard of the scrutinee alive in the body)
    pub async fn if_let(&self) {
        if let Some(_id) = self.blockchain_lock.read().await.get() {
            let w = self.wallet_lock.write().await;
            let _ = &w;
        }
    }
    // ... and in the else branch (edition 2021): edge 4->7 at line 21
    pub async fn if_let_else(&self) {
        if let Some(_id) = self.blockchain_lock.read().await.get() {
        } else {
            let w = self.wallet_lock.write().await;
            let _ = &w;
        }
    }
    // but not after the statement: no edge at line 30
    pub async fn after_if_let(&self) {
        if let Some(_id) = self.blockchain_lock.read().await.get() {
            let _ = 1;
        }
        let w = self.wallet_lock.write().await;
        let _ = &w;
    }
    // match scrutinee: edge 4->7 at line 37
    pub async fn matching(&self) {
        match self.blockchain_lock.read().await.get() {
            Some(_) => {
                let w = self.wallet_lock.write().await;
                let _ = &w;
            }
            None => {}
        }
    }
    // `let x = guard.get();` first, then `if let` on the value: guard is gone → no edge
    pub async fn value_first(&self) {
        let last = self.blockchain_lock.read().await.get();
        if let Some(_id) = last {
            let w = self.wallet_lock.write().await;
            let _ = &w;
        }
    }
    // for loop over a temporary: alive during the loop → edge 4->7 at line 54
    pub async fn for_loop(&self) {
        for _id in self.blockchain_lock.read().await.all() {
            let w = self.wallet_lock.write().await;
            let _ = &w;
        }
    }
    // while let: edge 4->7 at line 61
    pub async fn while_let(&self) {
        while let Some(_id) = self.blockchain_lock.read().await.get() {
            let w = self.wallet_lock.write().await;
            let _ = &w;
        }
    }
    // a guard bound in one match arm does not leak to the code after the match: no edge at line 74
    pub async fn arm_scope(&self, c: bool) {
        match c {
            true => {
                let b = self.blockchain_lock.read().await;
                let _ = &b;
            }
            false => {}
        }
        let w = self.wallet_lock.write().await;
        let _ = &w;
    }
}
