// methods of a shared structure run under that structure's lock (held by whoever holds `&self`); test code is excluded
pub struct Wallet {}
pub struct Mempool {
    wallet_lock: Arc<RwLock<Wallet>>,
}
pub struct Blockchain {
    wallet_lock: Arc<RwLock<Wallet>>,
    mempool_lock: Arc<RwLock<Mempool>>,
}
impl Blockchain {
    // implied 4, acquires 7: edge 4->7 at line 13
    pub async fn add_block(&mut self) {
        let w = self.wallet_lock.write().await;
        let _ = &w;
    }
    // implied 4; calls mempool method (implied 5 inside it) that takes 7: edges 4->5 (line 18), 4->7 and 5->7 via the call (line 19)
    pub async fn from_mempool(&mut self) {
        let mut mempool = self.mempool_lock.write().await;
        mempool.add_tx().await;
    }
    // associated function without self: nothing implied; no edge
    pub async fn create(wallet_lock: Arc<RwLock<Wallet>>) {
        let w = wallet_lock.read().await;
        let _ = &w;
    }
}
impl Mempool {
    // implied 5, acquires 7: edge 5->7 at line 30
    pub async fn add_tx(&mut self) {
        let w = self.wallet_lock.write().await;
        let _ = &w;
    }
}
#[cfg(test)]
mod tests {
    use super::*;
    // descending, but test code: counted as a site, NOT an edge
    #[tokio::test]
    async fn t() {
        let b = Blockchain::new();
        let w = b.wallet_lock.write().await;
        let m = b.mempool_lock.write().await;
        let _ = (&w, &m);
    }
}
