// saito-wasm: exported entry points, the global gate SAITO (rank 0)
pub struct Blockchain {}
pub struct Wallet {}
pub struct SaitoWasm {
    blockchain_lock: Arc<RwLock<Blockchain>>,
    wallet_lock: Arc<RwLock<Wallet>>,
}
lazy_static! {
    pub static ref SAITO: Mutex<Option<SaitoWasm>> = Mutex::new(None);
}
// gated: everything under SAITO; descending 7 then 4 is serialised by the gate (gated = true)
#[wasm_bindgen]
pub async fn gated_entry() {
    let saito = SAITO.lock().await;
    let w = saito.as_ref().unwrap().wallet_lock.write().await;
    let b = saito.as_ref().unwrap().blockchain_lock.read().await;
    let _ = (&w, &b);
}
// not gated: takes the wallet without SAITO (a single lock, no nesting)
#[wasm_bindgen]
pub async fn ungated_simple(w: &WasmWallet) {
    let g = w.wallet.read().await;
    let _ = &g;
}
// gate taken too late: the wallet is acquired before SAITO → entry not gated, edge 7->0 outside the gate
#[wasm_bindgen]
pub async fn late_gate(w: &WasmWallet) {
    let g = w.wallet.read().await;
    let saito = SAITO.lock().await;
    let _ = (&g, &saito);
}
// gate dropped early: the nested acquisition afterwards is outside the gate
#[wasm_bindgen]
pub async fn early_release() {
    let saito = SAITO.lock().await;
    let wl = saito.as_ref().unwrap().wallet_lock.clone();
    let bl = saito.as_ref().unwrap().blockchain_lock.clone();
    drop(saito);
    let w = wl.write().await;
    let b = bl.read().await;
    let _ = (&w, &b);
}
// no shared lock touched at all
#[wasm_bindgen]
pub fn pure_entry(x: u64) -> u64 { x + 1 }
// helper (not exported) only ever called under the gate: its nesting counts as gated
async fn helper(s: &SaitoWasm) {
    let w = s.wallet_lock.write().await;
    let b = s.blockchain_lock.read().await;
    let _ = (&w, &b);
}
#[wasm_bindgen]
pub async fn via_helper() {
    let saito = SAITO.lock().await;
    helper(saito.as_ref().unwrap()).await;
}
pub struct WasmWallet { wallet: Arc<RwLock<Wallet>> }
#[wasm_bindgen]
impl WasmWallet {
    // exported method, ungated, single lock
    pub async fn get_balance(&self) -> u64 {
        let w = self.wallet.read().await;
        let _ = &w;
        0
    }
    // not pub → not exported → no entry row
    async fn internal(&self) {}
}
