// guard held across a call whose callee (transitively) acquires another lock
pub struct Blockchain {}
pub struct Wallet {}
pub struct Mempool {}
pub struct PeerCollection {}
pub struct Peer {}
pub struct Net {
    peer_lock: Arc<RwLock<PeerCollection>>,
    config_lock: Arc<RwLock<dyn Configuration + Send + Sync>>,
    blockchain_lock: Arc<RwLock<Blockchain>>,
}
pub struct Helper {
    wallet_lock: Arc<RwLock<Wallet>>,
}
impl Peer {
    // acquires configs (3), then — after releasing it — wallet (7)
    pub async fn handshake(&mut self, configs_lock: Arc<RwLock<dyn Configuration + Send + Sync>>, wallet_lock: Arc<RwLock<Wallet>>) {
        {
            let configs = configs_lock.read().await;
            let _ = &configs;
        }
        let wallet = wallet_lock.read().await;
        let _ = &wallet;
    }
}
impl Net {
    // callee resolved by the declared type of the local (`peer: &mut Peer`): edges 6->3 and 6->7 at the call line 32
    pub async fn under_guard(&self, wallet_lock: Arc<RwLock<Wallet>>) {
        let mut peers = self.peer_lock.write().await;
        let peer: &mut Peer = peers.get_mut();
        peer
            .handshake(self.config_lock.clone(), wallet_lock)
            .await;
    }
    // same callee, guard released before the call: no edge
    pub async fn released_first(&self, wallet_lock: Arc<RwLock<Wallet>>, peer: &mut Peer) {
        {
            let peers = self.peer_lock.write().await;
            let _ = &peers;
        }
        peer.handshake(self.config_lock.clone(), wallet_lock).await;
    }
    // `self.` call, two levels deep: outer -> self.mid() -> self.leaf() takes 3 then 4.
    // outer holds 6 at the call (line 47): edges 6->3 and 6->4 via Net::mid > Net::leaf
    pub async fn outer(&self) {
        let peers = self.peer_lock.read().await;
        self.mid().await;
        let _ = &peers;
    }
    async fn mid(&self) {
        self.leaf().await;
    }
    // direct edge 3->4 at line 56
    async fn leaf(&self) {
        let configs = self.config_lock.read().await;
        let blockchain = self.blockchain_lock.read().await;
        let _ = (&configs, &blockchain);
    }
    // path call `Helper::save(..)` under 4: edge 4->7 at line 62
    pub async fn path_call(&self, h: &Helper) {
        let blockchain = self.blockchain_lock.write().await;
        Helper::save(h).await;
        let _ = &blockchain;
    }
    // method known only by its (unique) name, receiver type not evident: still an edge 4->7 at line 68
    pub async fn by_name(&self, hs: &SomethingOpaque) {
        let blockchain = self.blockchain_lock.write().await;
        hs.pick().save().await;
        let _ = &blockchain;
    }
    // a call to something that is not in the analysed code (std / tokio) is skipped: no edge
    pub async fn external(&self, v: &mut Vec<u8>) {
        let blockchain = self.blockchain_lock.write().await;
        v.push(1);
        tokio::task::yield_now().await;
        let _ = &blockchain;
    }
}
impl Helper {
    pub async fn save(&self) {
        let wallet = self.wallet_lock.write().await;
        let _ = &wallet;
    }
}
